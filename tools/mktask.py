#!/usr/bin/env python3
"""usage: mktask.py <prop id> <worktree name> [extra hint]  -> writes /tmp/wt/<name>/_seed/TASK.md (property text only)."""
import json, sys
pid, name = sys.argv[1], sys.argv[2]
extra = sys.argv[3] if len(sys.argv) > 3 else ""
props = {json.loads(l)["id"]: json.loads(l) for l in open("/verif/properties.jsonl")}
p = props[pid]
wt = f"/tmp/wt/{name}"
txt = f"""# Task: seed a realistic property-breaking change into asyncio-taskpool

You work ONLY inside the scratch git worktree `{wt}` (a checkout of the library
daniil-berg/asyncio-taskpool; source in `{wt}/src/asyncio_taskpool`, tests in `{wt}/tests`).
Do not read or write anything under `/repo` or `/verif`. Do not commit. No network is available.

Run the library from this worktree with `PYTHONPATH={wt}/src /venv/bin/python ...`.
The existing test-suite is run with:
`cd {wt} && PYTHONPATH={wt}/src /venv/bin/python -m pytest -q -p no:cacheprovider --timeout=900`
(112 tests pass on the unchanged tree).

## The property (of the library's observable behaviour)

**{p['title']}**

{p['statement']}

It is meant to hold: {p['quantifier']['text']}.

## What to produce

A *small, realistic* change to the library source under `{wt}/src/asyncio_taskpool` (the kind of edit a
maintainer might plausibly make during a refactor, optimisation or "simplification", not sabotage that
is obvious at a glance) such that

1. the package still imports/compiles and **all 112 existing tests still pass** with the change;
2. the property above is **broken** by the change, and was **not** broken in that way before;
3. the breakage needs something *specific* to manifest - a particular interleaving of tasks, a
   cancellation/exception/fault landing at a particular point, a multi-step sequence of operations,
   an unusual input, or two cooperating code sites that each look fine alone - i.e. NOT something
   that any ordinary use of the library would expose at once.
{extra}
Also write a demonstration `{wt}/_seed/demo.py`: a self-contained script (plain asyncio, may use
asserts; exit code 0 = property observed to hold, non-zero = property violated) that **fails with
your change and passes on the unchanged tree**. Verify both yourself
(`git -C {wt} diff -- src > /tmp/wt/{name}.patch; git -C {wt} checkout -- src; <run demo>; git -C {wt} apply /tmp/wt/{name}.patch`
- do NOT use `git stash`: the stash is shared between all worktrees of the repository and other agents work concurrently).
The unchanged tree has some pre-existing bugs; make sure your demo passes on the unchanged tree,
i.e. it exercises a behaviour that is correct before your change.

Leave these files when done:
* `{wt}/_seed/patch.diff`  - output of `git -C {wt} diff -- src` (the change, applicable with `git apply`)
* `{wt}/_seed/demo.py`     - the demonstration
* `{wt}/_seed/NOTES.md`    - 5-15 lines: what the change is, why it breaks the property, exactly what is
  needed for it to manifest, and the commands you ran with their outcomes (tests: N passed; demo on
  changed tree: fails with ...; demo on unchanged tree: passes).
Leave the worktree with the change applied. Your final answer should summarise NOTES.md.
"""
open(f"{wt}/_seed/TASK.md", "w").write(txt)
print(f"{wt}/_seed/TASK.md")
