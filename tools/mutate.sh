#!/bin/bash
# usage: mutate.sh <file-relative-to-src/asyncio_taskpool> <python-regex> <replacement> <unit-filter...>
# applies one textual mutation to a scratch copy of /repo/src and runs the matching units on it (engine sensitivity test)
f=$1; pat=$2; rep=$3; shift 3
tmp=$(mktemp -d /tmp/mut.XXXX); mkdir -p $tmp/repo; cp -r /repo/src $tmp/repo/
python3 - "$tmp/repo/src/asyncio_taskpool/$f" "$pat" "$rep" <<'PY'
import re,sys
p,pat,rep=sys.argv[1:4]
s=open(p).read(); s2,n=re.subn(pat,rep,s,count=1,flags=re.S)
if n!=1: print("MUTATION DID NOT APPLY"); sys.exit(1)
open(p,'w').write(s2)
PY
[ $? = 0 ] && (PYTHONPATH=$tmp/repo/src /venv/bin/python -c "import asyncio_taskpool.pool, asyncio_taskpool.control.server" && VERIF_REPO=$tmp/repo python3-vt /verif/tools/dbg.py "$@" | cut -c1-250)
rm -rf $tmp
