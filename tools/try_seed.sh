#!/bin/bash
# usage: try_seed.sh <seed-dir> <unit-filter...>   run debugging units against a scratch copy of /repo with the seed applied
d=$(readlink -f "$1"); shift
tmp=$(mktemp -d /tmp/seedtry.XXXX)
mkdir -p $tmp/repo && cp -r /repo/src $tmp/repo/ && (cd $tmp/repo && git init -q . && git apply "$d/patch.diff") || { echo "patch failed"; rm -rf $tmp; exit 3; }
VERIF_REPO=$tmp/repo python3-vt /verif/tools/dbg.py "$@" | grep -v "^    proved" | cut -c1-230
rm -rf $tmp
