#!/bin/bash
# usage: mutate_std.sh <python-regex> <replacement>   mutate a scratch copy of the interpreter's asyncio/locks.py and run the asyncio units on it
tmp=$(mktemp -d /tmp/mutstd.XXXX)
src=$(/venv/bin/python -c "import asyncio.locks as m; print(m.__file__)")
cp $src $tmp/locks.py
python3 - "$tmp/locks.py" "$1" "$2" <<'PY'
import re,sys
p,pat,rep=sys.argv[1:4]
s=open(p).read(); s2,n=re.subn(pat,rep,s,count=1,flags=re.S)
if n!=1: print("MUTATION DID NOT APPLY"); sys.exit(1)
open(p,'w').write(s2)
PY
[ $? = 0 ] && VERIF_STDLIB_ASYNCIO_LOCKS=$tmp/locks.py python3-vt /verif/tools/dbg.py ${3:-asyncio.locks} | cut -c1-220 | head -${4:-6}
rm -rf $tmp
