#!/usr/bin/env python3
"""Systematic sensitivity measurement: small syntactic mutants of the package that KEEP THE 112 TESTS GREEN are run through
all verification units; a mutant is
    killed      some obligation that is proved on the unchanged tree fails (and is not a listed open finding)
    undecided   no new failure, but a unit left the verified subset / an obligation became unknown
    survived    every unit still verifies: the mutant is equivalent, or the specification has a gap (inspect by hand)

usage: mutation_score.py [--files pool.py,control/session.py,...] [--max N] [--seed S] [--out FILE]
Runs under the system python3 (pytest through /venv/bin/python, units through python3-vt)."""
import argparse
import ast
import copy
import json
import os
import random
import re
import shutil
import subprocess
import sys
import tempfile

HERE = os.path.dirname(os.path.dirname(os.path.abspath(__file__)))
REPO = "/repo"
PKG = "src/asyncio_taskpool"
DEFAULT_FILES = ["pool.py", "control/session.py", "control/parser.py", "control/server.py", "internals/helpers.py", "internals/group_register.py", "queue_context.py"]

CMP = {ast.Lt: ast.LtE, ast.LtE: ast.Lt, ast.Gt: ast.GtE, ast.GtE: ast.Gt, ast.Eq: ast.NotEq, ast.NotEq: ast.Eq, ast.Is: ast.IsNot, ast.IsNot: ast.Is, ast.In: ast.NotIn, ast.NotIn: ast.In}


def mutants_of(src: str):
    """yields (description, new_source); one AST node changed per mutant"""
    tree = ast.parse(src)
    nodes = [n for n in ast.walk(tree)]
    out = []

    def emit(desc, mutate):
        t2 = copy.deepcopy(tree)
        n2 = [n for n in ast.walk(t2)]
        try:
            mutate(n2)
            code = ast.unparse(t2)
            ast.parse(code)
            out.append((desc, code))
        except Exception:
            pass

    for i, n in enumerate(nodes):
        ln = getattr(n, "lineno", 0)
        if isinstance(n, ast.Compare) and len(n.ops) == 1 and type(n.ops[0]) in CMP:
            emit(f"L{ln}: {type(n.ops[0]).__name__} -> {CMP[type(n.ops[0])].__name__}", lambda ns, i=i: setattr(ns[i], "ops", [CMP[type(ns[i].ops[0])]()]))
        if isinstance(n, ast.BoolOp):
            emit(f"L{ln}: {'and' if isinstance(n.op, ast.And) else 'or'} flipped", lambda ns, i=i: setattr(ns[i], "op", ast.Or() if isinstance(ns[i].op, ast.And) else ast.And()))
        if isinstance(n, ast.UnaryOp) and isinstance(n.op, ast.Not):
            emit(f"L{ln}: `not` dropped", lambda ns, i=i: _replace(ns, i, ns[i].operand))
        if isinstance(n, ast.Constant) and isinstance(n.value, bool):
            emit(f"L{ln}: {n.value} -> {not n.value}", lambda ns, i=i: setattr(ns[i], "value", not ns[i].value))
        elif isinstance(n, ast.Constant) and isinstance(n.value, int) and not isinstance(n.value, bool) and abs(n.value) < 10:
            emit(f"L{ln}: {n.value} -> {n.value + 1}", lambda ns, i=i: setattr(ns[i], "value", ns[i].value + 1))
        if isinstance(n, ast.AugAssign) and isinstance(n.op, (ast.Add, ast.Sub)):
            emit(f"L{ln}: += / -= flipped", lambda ns, i=i: setattr(ns[i], "op", ast.Sub() if isinstance(ns[i].op, ast.Add) else ast.Add()))
        if isinstance(n, ast.Break):
            emit(f"L{ln}: break -> continue", lambda ns, i=i: _replace(ns, i, ast.Continue()))
        if isinstance(n, ast.Continue):
            emit(f"L{ln}: continue -> break", lambda ns, i=i: _replace(ns, i, ast.Break()))
        if isinstance(n, ast.Expr) and isinstance(n.value, (ast.Call, ast.Await)) and not _is_log(n.value):
            emit(f"L{ln}: statement `{ast.unparse(n)[:50]}` deleted", lambda ns, i=i: _replace(ns, i, ast.Pass()))
        if isinstance(n, ast.Assign) and not isinstance(n.value, ast.Constant) and any(isinstance(t, (ast.Attribute, ast.Subscript)) for t in n.targets):
            emit(f"L{ln}: assignment `{ast.unparse(n)[:50]}` deleted", lambda ns, i=i: _replace(ns, i, ast.Pass()))
        if isinstance(n, ast.Return) and n.value is not None and not isinstance(n.value, ast.Constant):
            emit(f"L{ln}: `{ast.unparse(n)[:40]}` -> return None", lambda ns, i=i: setattr(ns[i], "value", ast.Constant(value=None)))
        if isinstance(n, ast.If) and not n.orelse:
            emit(f"L{ln}: condition of `if {ast.unparse(n.test)[:40]}` forced true", lambda ns, i=i: setattr(ns[i], "test", ast.Constant(value=True)))
        if isinstance(n, ast.Call) and len(n.args) >= 2 and not _is_log(n):
            emit(f"L{ln}: first two arguments of `{ast.unparse(n.func)[:30]}` swapped", lambda ns, i=i: ns[i].args.__setitem__(slice(0, 2), [ns[i].args[1], ns[i].args[0]]))
        if EXTRA and isinstance(n, ast.Call) and n.keywords and not _is_log(n):
            for kidx, kw in enumerate(n.keywords):
                if kw.arg is not None:
                    emit(f"L{ln}: keyword argument `{kw.arg}=` of `{ast.unparse(n.func)[:30]}` dropped", lambda ns, i=i, kidx=kidx: ns[i].keywords.pop(kidx))
        if EXTRA and isinstance(n, ast.Attribute) and n.attr in REGS and isinstance(n.value, ast.Name) and n.value.id == "self":
            other = REGS[(REGS.index(n.attr) + 1) % len(REGS)]
            emit(f"L{ln}: self.{n.attr} -> self.{other}", lambda ns, i=i, other=other: setattr(ns[i], "attr", other))
        if EXTRA and hasattr(n, "body") and isinstance(getattr(n, "body"), list):
            for bname in ("body", "orelse", "finalbody"):
                blk = getattr(n, bname, None)
                if isinstance(blk, list):
                    for j in range(len(blk) - 1):
                        if isinstance(blk[j], (ast.Expr, ast.Assign, ast.AugAssign)) and isinstance(blk[j + 1], (ast.Expr, ast.Assign, ast.AugAssign)) and not _is_doc(blk[j]):
                            emit(f"L{getattr(blk[j], 'lineno', 0)}: statements `{ast.unparse(blk[j])[:30]}` and `{ast.unparse(blk[j + 1])[:30]}` swapped",
                                 lambda ns, i=i, bname=bname, j=j: _swap(getattr(ns[i], bname), j))
        if isinstance(n, ast.Try) and n.finalbody:
            emit(f"L{ln}: finally-block emptied", lambda ns, i=i: setattr(ns[i], "finalbody", [ast.Pass()]))
    return out


EXTRA = False
REGS = ["_tasks_running", "_tasks_cancelled", "_tasks_ended"]


def _is_doc(st):
    return isinstance(st, ast.Expr) and isinstance(st.value, ast.Constant)


def _swap(blk, j):
    blk[j], blk[j + 1] = blk[j + 1], blk[j]


def _is_log(n):
    f = n.func if isinstance(n, ast.Call) else getattr(getattr(n, "value", None), "func", None)
    return isinstance(f, ast.Attribute) and isinstance(f.value, ast.Name) and f.value.id in ("log", "warnings")


def _replace(ns, i, new):
    old = ns[i]
    for p in ns:
        for fname, val in ast.iter_fields(p):
            if val is old:
                setattr(p, fname, ast.copy_location(new, old))
                return
            if isinstance(val, list):
                for k, x in enumerate(val):
                    if x is old:
                        val[k] = ast.copy_location(new, old)
                        return
    raise RuntimeError("parent not found")


def sh(cmd, timeout=900, env=None):
    try:
        p = subprocess.run(cmd, shell=True, capture_output=True, text=True, timeout=timeout, env=env)
        return p.returncode, p.stdout + p.stderr
    except subprocess.TimeoutExpired:
        return 124, "timeout"


def main():
    ap = argparse.ArgumentParser()
    ap.add_argument("--files", default=",".join(DEFAULT_FILES))
    ap.add_argument("--max", type=int, default=0)
    ap.add_argument("--seed", type=int, default=0)
    ap.add_argument("--out", default=os.path.join(HERE, "out", "mutation_score.jsonl"))
    ap.add_argument("--rerun", default="", help="a previous .jsonl: only the mutants it lists as survived/undecided are run again")
    ap.add_argument("--extra-only", action="store_true", help="only the second-generation operators (dropped keyword, swapped statements, swapped registry)")
    a = ap.parse_args()
    global EXTRA
    rnd = random.Random(a.seed)
    todo = []
    for f in a.files.split(","):
        src = open(os.path.join(REPO, PKG, f)).read()
        # mutate the docstring-free, annotation-keeping source as it is: ast.unparse drops comments only
        base = {d for d, _c in mutants_of(src)} if a.extra_only else set()
        EXTRA = a.extra_only
        for desc, code in mutants_of(src):
            if desc not in base:
                todo.append((f, desc, code))
        EXTRA = False
    if a.rerun:
        keep = {(r["file"], r["mutant"]) for r in map(json.loads, open(a.rerun)) if r["verdict"] in ("survived", "undecided")}
        todo = [t for t in todo if (t[0], t[1]) in keep]
    rnd.shuffle(todo)
    if a.max:
        todo = todo[: a.max]
    os.makedirs(os.path.dirname(os.path.abspath(a.out)), exist_ok=True)
    findings = json.load(open(os.path.join(HERE, "known_findings.json")))["findings"]
    open_pats = [re.compile(f["obligation"]) for f in findings if f.get("status") == "open" and "obligation" in f]
    counts = {}
    with open(a.out, "a") as log:
        for k, (f, desc, code) in enumerate(todo):
            tmp = tempfile.mkdtemp(prefix="mutant_")
            try:
                shutil.copytree(os.path.join(REPO, "src"), os.path.join(tmp, "repo", "src"))
                shutil.copytree(os.path.join(REPO, "tests"), os.path.join(tmp, "repo", "tests"))
                open(os.path.join(tmp, "repo", PKG, f), "w").write(code)
                rc, out = sh(f"cd {tmp}/repo && PYTHONPATH={tmp}/repo/src timeout 300 /venv/bin/python -m pytest -q -x -p no:cacheprovider --timeout=120 2>&1 | tail -1", timeout=400)
                if "passed" not in out or "failed" in out or "error" in out:
                    verdict, detail = "killed-by-tests", out.strip()[-80:]
                else:
                    env = dict(os.environ)
                    env["VERIF_REPO"] = os.path.join(tmp, "repo")
                    rc, out = sh(f"cd {HERE} && python3-vt tools/run_all.py", timeout=1800, env=env)
                    failed = [ln.split()[1] for ln in out.splitlines() if ln.strip().startswith("failed ")]
                    new = [o for o in failed if not any(p.search(o) for p in open_pats)]
                    soft = [ln.strip()[:160] for ln in out.splitlines() if ln.startswith(("undecided", "crash")) or ln.strip().startswith("unknown ")]
                    if new:
                        verdict, detail = "killed", new[0]
                    elif soft:
                        verdict, detail = "undecided", soft[0]
                    else:
                        verdict, detail = "survived", ""
                counts[verdict] = counts.get(verdict, 0) + 1
                rec = {"file": f, "mutant": desc, "verdict": verdict, "detail": detail}
                log.write(json.dumps(rec) + "\n")
                log.flush()
                print(f"[{k + 1}/{len(todo)}] {f} {desc} -> {verdict} {detail[:100]}", flush=True)
            finally:
                shutil.rmtree(tmp, ignore_errors=True)
    print(json.dumps(counts))


if __name__ == "__main__":
    main()
