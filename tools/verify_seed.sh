#!/bin/bash
# usage: verify_seed.sh <seed-dir containing patch.diff demo.py>  -> prints a JSON line with what was confirmed
# Works in a fresh scratch worktree of /repo HEAD (removed afterwards).
d=$(readlink -f "$1"); name=$(basename "$d")
wt=/tmp/wt/verify_$name_$$
git -C /repo worktree add -q --detach $wt HEAD || exit 3
cd $wt
run_demo() { PYTHONPATH=$wt/src timeout 300 /venv/bin/python "$d/demo.py" >/tmp/wt/demo_$$.out 2>&1; echo $?; }
base=$(run_demo)
if git apply --check "$d/patch.diff" 2>/dev/null; then git apply "$d/patch.diff"; applies=true; else applies=false; fi
compiles=$(PYTHONPATH=$wt/src /venv/bin/python -c "import asyncio_taskpool.pool, asyncio_taskpool.control.server" >/dev/null 2>&1 && echo true || echo false)
tests=$(PYTHONPATH=$wt/src timeout 900 /venv/bin/python -m pytest -q -p no:cacheprovider --timeout=900 2>&1 | tail -1)
mut=$(run_demo)
tail -3 /tmp/wt/demo_$$.out | tr '\n' ' ' > /tmp/wt/demo_tail_$$.txt
echo "{\"seed\":\"$name\",\"applies\":$applies,\"compiles\":$compiles,\"tests\":\"$tests\",\"demo_exit_unchanged\":$base,\"demo_exit_changed\":$mut}"
cd /; git -C /repo worktree remove --force $wt; rm -f /tmp/wt/demo_$$.out /tmp/wt/demo_tail_$$.txt
