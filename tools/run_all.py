#!/usr/bin/env python3-vt
"""run every unit once; print per-unit summary and the set of properties its obligations carry; optionally write the baseline"""
import json, os, sys, time
sys.path.insert(0, os.path.dirname(os.path.dirname(os.path.abspath(__file__))))
from pyvc.run import run_units
from spec import registry
t0 = time.time()
units = registry.all_units()
res = run_units(units)
base = {}
unit_props = {}
for u, r in zip(units, res):
    unit_props[u.name] = sorted({p for o in r["obligations"] for p in o["props"]} | set(u.props))
    props = sorted({p for o in r["obligations"] for p in o["props"]})
    bad = [o for o in r["obligations"] if o["verdict"] not in ("proved", "reachable")]
    print(f"{r['status']:9s} {r['wall_s']:7.1f}s {len(r['obligations']):5d} obl {len(bad):3d} not-proved  {u.name}  declared={list(u.props)} actual={props} missing={sorted(set(props)-set(u.props))} {r['error'] or ''}")
    for o in bad[:6]:
        print("      ", o["verdict"], o["name"], "|", o["path"][-70:])
    for o in r["obligations"]:
        base[o["name"]] = "proved" if base.get(o["name"], "proved") == "proved" and o["verdict"] in ("proved", "reachable") else o["verdict"]
print("total wall", round(time.time() - t0, 1))
if "--write-baseline" in sys.argv:
    from pyvc.front import Repo, local_names, shape_hash, _strip
    repo = Repo()
    locs = {q: {"shape": shape_hash(fi.node), "locals": local_names(_strip(fi.node))} for q, fi in repo.functions.items()}
    json.dump({"obligations": base, "unit_props": unit_props, "locals": locs}, open(os.path.join(os.path.dirname(os.path.dirname(os.path.abspath(__file__))), "baseline_obligations.json"), "w"), indent=0, sort_keys=True)
    print("baseline written:", len(base))
