#!/bin/bash
# usage: ingest_seed.sh <name>    e.g. C14f
# copies /tmp/wt/<name>/_seed/{patch.diff,demo.py,NOTES.md} to /verif/seeded/<name>/, confirms the seed in a fresh scratch
# worktree (tools/verify_seed.sh), writes meta.json, removes the sub-agent's worktree.  Keeps the seed only if confirmed.
name=$1; src=/tmp/wt/$name/_seed; dst=/verif/seeded/$name
[ -f $src/patch.diff ] || git -C /tmp/wt/$name diff -- src > $src/patch.diff
[ -s $src/patch.diff ] && [ -f $src/demo.py ] || { echo "$name: incomplete seed (no patch/demo)"; exit 2; }
mkdir -p $dst; cp $src/patch.diff $src/demo.py $dst/; cp $src/NOTES.md $dst/ 2>/dev/null
res=$(bash /verif/tools/verify_seed.sh $dst)
echo "$res"
ok=$(echo "$res" | python3 -c "
import json,sys
d=json.loads(sys.stdin.readline())
print('yes' if d['applies'] and d['compiles'] and '112 passed' in d['tests'] and d['demo_exit_unchanged']==0 and d['demo_exit_changed'] not in (0,124) else 'no')")
if [ "$ok" = yes ]; then
python3 - "$name" "$res" <<'EOF'
import json,sys,re,subprocess
name,res=sys.argv[1],json.loads(sys.argv[2])
notes=open(f'/verif/seeded/{name}/NOTES.md').read() if __import__('os').path.exists(f'/verif/seeded/{name}/NOTES.md') else ''
m=re.search(r'(?is)(what (it takes|is needed)[^\n]*|needed to manifest[^\n]*|to manifest[^\n]*)(.*?)(\n\s*\n|\n[-*#] \*\*|$)', notes)
needs=(m.group(0).strip() if m else notes[:600])
head=subprocess.run(['git','-C','/repo','rev-parse','--short','HEAD'],capture_output=True,text=True).stdout.strip()
json.dump({"seed":name,"breaks_property":name[:3],"needs_to_manifest":needs[:1500],
 "written_by":"independent sub-agent given only the property text and a scratch worktree",
 "confirmed_by_me":True,
 "what_i_ran":f"tools/verify_seed.sh in a fresh scratch worktree: git apply; import; full test-suite ({res['tests']}); demo exit {res['demo_exit_unchanged']} on the unchanged tree, {res['demo_exit_changed']} with the change",
 "generated_against":head}, open(f'/verif/seeded/{name}/meta.json','w'), indent=1)
EOF
echo "$name: confirmed, kept"
else
  echo "$name: NOT confirmed - removed"; rm -rf $dst
fi
git -C /repo worktree remove --force /tmp/wt/$name 2>/dev/null; true
