#!/bin/bash
# usage: seed_one.sh <seed name>   one line: result of the seed's own check on a scratch copy with the patch applied
cd "$(dirname "$(readlink -f "$0")")/.."; V=$(pwd)
name=$1; d=$V/seeded/$name; prop=${name:0:3}
tmp=$(mktemp -d /tmp/seedm.XXXX); mkdir -p $tmp/repo; cp -r /repo/src $tmp/repo/
if (cd $tmp/repo && git init -q . && git apply $d/patch.diff 2>/dev/null); then
   out=$(VERIF_REPO=$tmp/repo VERIF_OUT_TAG=$name timeout 1800 python3-vt check.py $prop --jobs ${SEED_JOBS:-4} 2>&1); rc=$?
   mkdir -p $V/out/scratch; echo "$out" > $V/out/scratch/seed_one_$name.log
   nviol=$(echo "$out" | grep -c "^VIOLATION")
   first=$(echo "$out" | grep "^VIOLATION" | head -1)
   und=$(echo "$out" | grep "^UNDECIDED" | head -2 | tr '\n' ' ' | cut -c1-200)
   obl=""
   rp=$(echo "$first" | sed -n "s/.*replay=\([^ ]*\).*/\1/p")
   [ -n "$rp" ] && obl=$(python3 -c "import json;d=json.load(open('$rp'));print(d['obligation'],'| native:',d['native_replay'].get('scenario','-'))")
   echo "$name prop=$prop exit=$rc violations=$nviol :: $obl $und"
else echo "$name prop=$prop patch-does-not-apply"; fi
rm -rf $tmp
