#!/bin/bash
# run every registered quick check against /repo, validate each evidence file; prints one line per property
cd "$(dirname "$(readlink -f "$0")")/.."
for p in $(python3 -c "import json;print(' '.join(c['property_id'] for c in json.load(open('MANIFEST.json'))['checks']))"); do
  out=$(python3-vt check.py $p --tier ${1:-quick} 2>&1); rc=$?
  val=$(python3-vt -c "
import json,jsonschema
try:
    e=json.load(open('evidence/$p.json')); jsonschema.validate(e, json.load(open('/root/.vp/EVIDENCE.schema.json')))
    c=e['coverage']; print('evidence-ok', c.get('obligations'), c.get('discharged'), 'EQ' if c.get('obligations')==c.get('discharged') else 'NEQ')
except Exception as ex: print('evidence-INVALID', str(ex)[:100])")
  echo "$p exit=$rc $val :: $(echo "$out" | tail -1)"
  echo "$out" | grep -E "^(VIOLATION|UNDECIDED|CRASH|VACUOUS)" | head -5
done
