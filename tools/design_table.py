#!/usr/bin/env python3
"""regenerates the verdict table of DESIGN.md section 14.0 from the evidence files"""
import json, re
rows = []
for pid in [f"C{i:02d}" for i in range(1, 19)] + ["C20"]:
    e = json.load(open(f"/verif/evidence/{pid}.json")); c = e["coverage"]
    kf = ", ".join(sorted(c.get("known_findings", {}))) or "-"
    rows.append(f"| {pid} | {e['level']} | {c['total_generated']} | {c['discharged']} | {kf} | {len(c['units'])} | {e['wall_s']} |")
p = "/verif/DESIGN.md"; s = open(p).read()
start = s.index("| id | level | obligations generated |"); end = s.index("| C19 | not applicable")
head = "| id | level | obligations generated | discharged | open findings hit (KNOWN-FINDING lines) | units run | wall s |\n|---|---|---|---|---|---|---|\n"
s = s[:start] + head + "\n".join(rows) + "\n" + s[end:]
open(p, "w").write(s)
print("table updated")
