#!/bin/bash
# usage: seed_matrix_par.sh [seed names...]   like seed_matrix.sh, SEED_PAR seeds at a time (default 4), output sorted by seed
cd "$(dirname "$(readlink -f "$0")")/.."
seeds="$@"; [ -z "$seeds" ] && seeds=$(ls seeded | grep -v "^harmless_" | grep -v MATRIX)
echo $seeds | tr ' ' '\n' | xargs -P ${SEED_PAR:-4} -I{} bash tools/seed_one.sh {} | sort
