#!/bin/bash
# usage: seed_matrix_par.sh [seed names...]   like seed_matrix.sh, SEED_PAR seeds at a time (default 4), output sorted by seed
cd "$(dirname "$(readlink -f "$0")")/.."
seeds="$@"; [ -z "$seeds" ] && seeds=$(for d in seeded/*/; do n=$(basename $d); [ -f $d/patch.diff ] && [ "${n#harmless_}" = "$n" ] && echo $n; done)
echo $seeds | tr ' ' '\n' | xargs -P ${SEED_PAR:-4} -I{} bash tools/seed_one.sh {} | sort
