#!/bin/bash
# run EVERY registered check against a scratch copy of /repo with a behaviour-preserving patch; no check may exit 1
# (HARM_PAR checks at a time, default 4)
cd "$(dirname "$(readlink -f "$0")")/.."; V=$(pwd)
props=$(python3 -c "import json;print(' '.join(c['property_id'] for c in json.load(open('MANIFEST.json'))['checks']))")
for d in ${@:-seeded/harmless_*/}; do d=${d%/}
  tmp=$(mktemp -d /tmp/harm.XXXX); mkdir -p $tmp/repo; cp -r /repo/src $tmp/repo/
  (cd $tmp/repo && git init -q . && git apply $V/$d/patch.diff) || { echo "$d patch-does-not-apply"; rm -rf $tmp; continue; }
  b=$(basename $d)
  echo $props | tr ' ' '\n' | xargs -P ${HARM_PAR:-4} -I{} bash -c "out=\$(VERIF_REPO=$tmp/repo VERIF_OUT_TAG=$b-{} python3-vt check.py {} --jobs 4 2>&1); rc=\$?; echo \"$b {} exit=\$rc :: \$(echo \"\$out\" | grep -E '^(VIOLATION|UNDECIDED)' | head -2 | tr '\n' ' ' | cut -c1-260)\"" | sort
  rm -rf $tmp
done
