#!/bin/bash
# run EVERY registered check against a scratch copy of /repo with a behaviour-preserving patch; no check may exit 1
cd "$(dirname "$(readlink -f "$0")")/.."; V=$(pwd)
for d in seeded/harmless_*; do
  tmp=$(mktemp -d /tmp/harm.XXXX); mkdir -p $tmp/repo; cp -r /repo/src $tmp/repo/
  (cd $tmp/repo && git init -q . && git apply $V/$d/patch.diff) || { echo "$d patch-does-not-apply"; rm -rf $tmp; continue; }
  for p in $(python3 -c "import json;print(' '.join(c['property_id'] for c in json.load(open('MANIFEST.json'))['checks']))"); do
    out=$(VERIF_REPO=$tmp/repo python3-vt check.py $p 2>&1); rc=$?
    echo "$(basename $d) $p exit=$rc :: $(echo "$out" | grep -E '^(VIOLATION|UNDECIDED)' | head -2 | tr '\n' ' ' | cut -c1-260)"
  done
  rm -rf $tmp
done
