#!/bin/bash
# usage: mutate_std3.sh <module: asyncio.futures|asyncio.tasks> <python-regex> <replacement> [unit filter] [lines]
# mutate a scratch copy of the interpreter's module and run the matching units on it
mod=$1
tmp=$(mktemp -d /tmp/mutstd.XXXX)
src=$(/venv/bin/python -c "import $mod as m; print(m.__file__)")
cp $src $tmp/m.py
python3 - "$tmp/m.py" "$2" "$3" <<'PY'
import re,sys
p,pat,rep=sys.argv[1:4]
s=open(p).read(); s2,n=re.subn(pat,rep,s,count=1,flags=re.S)
if n!=1: print("MUTATION DID NOT APPLY"); sys.exit(1)
open(p,'w').write(s2)
PY
var=VERIF_STDLIB_$(echo $mod | tr '.a-z' '_A-Z')
[ $? = 0 ] && env $var=$tmp/m.py python3-vt /verif/tools/dbg.py ${4:-$mod} | cut -c1-230 | head -${5:-4}
rm -rf $tmp
