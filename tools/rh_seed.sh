#!/bin/bash
# usage: rh_seed.sh <seed name> [prop]  -> run the random-history explorer on a scratch copy with the seed applied
name=$1; prop=${2:-${name:0:3}}
tmp=$(mktemp -d /tmp/rh.XXXX); mkdir -p $tmp/repo; cp -r /repo/src $tmp/repo/
(cd $tmp/repo && git init -q . && git apply /verif/seeded/$name/patch.diff) || { echo "$name patch failed"; rm -rf $tmp; exit 3; }
out=$(PYTHONPATH=$tmp/repo/src timeout 300 /venv/bin/python /verif/replay/random_histories.py $prop 0 ${3:-300}); rc=$?
echo "$name prop=$prop exit=$rc $(echo "$out" | cut -c1-${4:-420})"
rm -rf $tmp
