#!/usr/bin/env python3-vt
"""usage: dbg.py <unit-name-substring>... [-v]   run the matching units in-process and print what is not proved
(VERIF_REPO points at a scratch copy when set)"""
import os, sys, time
sys.path.insert(0, os.path.dirname(os.path.dirname(os.path.abspath(__file__))))
from pyvc.run import run_unit
from spec import registry

pats = [a for a in sys.argv[1:] if not a.startswith("-")]
verbose = "-v" in sys.argv
for u in registry.all_units():
    if pats and not any(p in u.name for p in pats):
        continue
    t0 = time.time()
    r = run_unit(u)
    bad = [o for o in r["obligations"] if o["verdict"] not in ("proved", "reachable", "vacuous")]
    print(f"{r['status']:9s} {time.time()-t0:6.1f}s {len(r['obligations']):5d} obl {len(bad):3d} not-proved  {u.name} {r['error'] or ''}")
    for o in r["obligations"]:
        if o in bad or verbose:
            print("    ", o["verdict"], o["name"], "|", o["path"][-100:], "|", o.get("reason", ""))
            if o in bad and o.get("model") and "-m" in sys.argv:
                for k, v in list(o["model"].items())[:40]:
                    print("          ", k, "=", v)
