#!/bin/bash
# run every native scenario against each seeded change (scratch copy of /repo/src); prints which scenarios fail
for d in /verif/seeded/*/; do
  name=$(basename $d)
  tmp=$(mktemp -d /tmp/scen.XXXX); mkdir -p $tmp/repo; cp -r /repo/src $tmp/repo/
  if (cd $tmp/repo && git init -q . && git apply $d/patch.diff 2>/dev/null); then
     out=$(cd /verif && VERIF_REPO=$tmp/repo PYTHONPATH=$tmp/repo/src timeout 300 /venv/bin/python replay/scenarios_run.py --all 2>&1 | grep -E "VIOLATED|CRASH" | sed -E 's/^(VIOLATED|SCENARIO-CRASH)\[([a-z_]+)\].*/\2/' | sort -u | tr '\n' ' ')
     echo "$name: ${out:-none}"
  else echo "$name: patch does not apply"; fi
  rm -rf $tmp
done
