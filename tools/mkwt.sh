#!/bin/sh
# usage: mkwt.sh <name>   -> creates scratch worktree /tmp/wt/<name> of /repo HEAD
set -e
mkdir -p /tmp/wt
git -C /repo worktree add -q --detach /tmp/wt/$1 HEAD
mkdir -p /tmp/wt/$1/_seed
echo /tmp/wt/$1
