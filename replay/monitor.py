"""bounded monitor (thorough tier): runs the scenario families of a property against the real package and
prints a JSON summary.  Bounded (<= 6 tasks, <= 3 groups per scenario); never counted as proved."""
import json
import os
import sys

sys.path.insert(0, os.path.dirname(os.path.dirname(os.path.abspath(__file__))))
from replay import scenarios  # noqa: E402
from replay.scenarios_run import run  # noqa: E402

prop = sys.argv[1]
seed = int(sys.argv[2]) if len(sys.argv) > 2 else 0
names = scenarios.BY_PROPERTY.get(prop, [])
if seed and names:
    k = seed % len(names)
    names = names[k:] + names[:k]
res = []
for n in names:
    viol, err = run(n)
    res.append({"scenario": n, "violations": viol, "crash": err})
print(json.dumps({"bound": "scenario families with <= 8 tasks, <= 3 groups, gate-controlled interleavings", "scenarios": res,
                  "violations": sum(len(r["violations"]) for r in res)}))
sys.exit(1 if any(r["violations"] for r in res) else 0)
