"""Native scenarios against the real package (run under /venv/bin/python by scenarios_run.py).

Each scenario drives real pools through the public API into one family of situations (parked tasks,
slow callbacks, blocked spawners, ...) and evaluates the *observable* oracle of the properties.  They
are used (i) to replay a failed obligation as a failing history and (ii) as the bounded monitor of
the thorough tier.  They avoid the triggers of the open known findings (F1: never cancel a task before
it has started; F3: no lock() while an apply()/start() is still spawning; F4; F5), so that a failure
here is a new violation.  Returns a list of violation strings (empty = the oracles held).
"""
from __future__ import annotations

import asyncio
from typing import Callable, Dict, List

TICK = 0.005


async def ticks(n=3):
    for _ in range(n):
        await asyncio.sleep(TICK)


HARNESS_BROKEN = None  # set when the harness's own introspection failed (never a verdict)


class Probe:
    """records what the pool's tasks and callbacks observe"""

    def __init__(self, pool):
        self.pool = pool
        self.running = 0
        self.max_running = 0
        self.started: List = []
        self.end_cb: List[int] = []
        self.cancel_cb: List[int] = []
        self.end_state: Dict[int, tuple] = {}
        self.cancel_state: Dict[int, tuple] = {}
        self.viol: List[str] = []
        self.gates: Dict = {}

    def gate(self, key):
        return self.gates.setdefault(key, asyncio.Event())

    async def work(self, tag=None, fail=False, gate=None):
        self.running += 1
        self.max_running = max(self.max_running, self.running)
        self.started.append(tag)
        try:
            if gate is not None:
                await self.gate(gate).wait()
            else:
                await asyncio.sleep(3600)
            if fail:
                raise RuntimeError(f"task {tag} failed")
            return tag
        finally:
            self.running -= 1

    def snapshot(self, task_id):
        # called from inside user callbacks the pool runs: a failure of the harness's own introspection (a private attribute
        # renamed by a refactoring) must never raise into the pool - it is recorded and turns the scenario into a crash (exit 2)
        global HARNESS_BROKEN
        p = self.pool
        try:
            return (task_id in p._tasks_running, task_id in p._tasks_cancelled, task_id in p._tasks_ended)
        except AttributeError as e:
            HARNESS_BROKEN = f"{type(e).__name__}: {e}"
            return (None, None, None)

    def on_end(self, task_id):
        self.end_cb.append(task_id)
        self.end_state[task_id] = self.snapshot(task_id)

    def on_cancel(self, task_id):
        self.cancel_cb.append(task_id)
        self.cancel_state[task_id] = self.snapshot(task_id)

    def slow_end(self, key="end"):
        async def cb(task_id):
            self.on_end(task_id)
            await self.gate((key, task_id)).wait()

        return cb

    def slow_cancel(self, key="cancel"):
        async def cb(task_id):
            self.on_cancel(task_id)
            await self.gate((key, task_id)).wait()

        return cb

    # -- oracles ----------------------------------------------------------------------------------------
    def check_counts(self, where, created, forgotten=0):
        p = self.pool
        tot = p.num_running + p.num_cancelled + p.num_ended
        if tot != created - forgotten:
            self.viol.append(f"{where}: running+cancelled+ended = {tot}, created-forgotten = {created - forgotten}")

    def check_capacity(self, where, size):
        if self.max_running > size:
            self.viol.append(f"{where}: {self.max_running} task coroutines ran at once in a pool of size {size}")
        if self.pool.num_running > size:
            self.viol.append(f"{where}: num_running={self.pool.num_running} > size {size}")

    def check_restored(self, where, size):
        free = self.pool._enough_room._value
        if free != size:
            self.viol.append(f"{where}: {free} of {size} slots free after all work finished")

    def check_callbacks(self, where, ended_ids, cancelled_ids):
        if sorted(self.end_cb) != sorted(ended_ids):
            self.viol.append(f"{where}: end callbacks ran for {sorted(self.end_cb)}, expected exactly once for {sorted(ended_ids)}")
        if sorted(self.cancel_cb) != sorted(cancelled_ids):
            self.viol.append(f"{where}: cancel callbacks ran for {sorted(self.cancel_cb)}, expected exactly once for {sorted(cancelled_ids)}")
        for i, stt in self.end_state.items():
            if stt != (False, False, True):
                self.viol.append(f"{where}: at its end callback task {i} counted as (running,cancelled,ended)={stt}")
        for i, stt in self.cancel_state.items():
            if stt != (False, True, False):
                self.viol.append(f"{where}: at its cancel callback task {i} counted as (running,cancelled,ended)={stt}")


# ======================================================================================================
async def s_lifecycle_mix() -> List[str]:
    """return / exception / cancellation with sync callbacks; counts, callbacks, slot restoration"""
    from asyncio_taskpool import TaskPool

    pool = TaskPool(pool_size=3)
    pr = Probe(pool)
    pool.apply(pr.work, kwargs={"tag": "a", "gate": "a"}, end_callback=pr.on_end, cancel_callback=pr.on_cancel)
    pool.apply(pr.work, kwargs={"tag": "b", "gate": "b", "fail": True}, end_callback=pr.on_end, cancel_callback=pr.on_cancel)
    pool.apply(pr.work, kwargs={"tag": "c"}, end_callback=pr.on_end, cancel_callback=pr.on_cancel)
    await ticks()
    pr.check_counts("all running", 3)
    if not pool.is_full:
        pr.viol.append("is_full is False with 3 of 3 running at rest")
    pool.cancel(2)
    await ticks()
    pr.gate("a").set()
    pr.gate("b").set()
    await ticks()
    pr.check_counts("after endings", 3)
    pr.check_callbacks("after endings", [0, 1, 2], [2])
    pr.check_capacity("after endings", 3)
    pr.check_restored("after endings", 3)
    await pool.flush(return_exceptions=True)
    pr.check_counts("after flush", 3, forgotten=3)
    # a fresh batch must be able to use the full capacity again
    pool.apply(pr.work, kwargs={"tag": "d", "gate": "d"}, num=3)
    await ticks()
    if pool.num_running != 3:
        pr.viol.append(f"after everything finished a 3-sized pool runs only {pool.num_running} tasks at once")
    if sorted(pool._tasks_running) != [3, 4, 5]:
        pr.viol.append(f"ids of the second batch are {sorted(pool._tasks_running)}, expected [3, 4, 5]")
    pr.gate("d").set()
    await ticks()
    await pool.gather_and_close(return_exceptions=True)
    # several unnamed pools in one loop: closing an older one must not make a later pool re-use a living pool's name
    from asyncio_taskpool import SimpleTaskPool

    async def idle():
        await asyncio.sleep(3600)

    a, b = TaskPool(), SimpleTaskPool(idle)
    await a.gather_and_close()
    c = TaskPool()
    d = TaskPool()
    names = [str(x) for x in (b, c, d)]
    if len(set(names)) != 3:
        pr.viol.append(f"live unnamed pools share a name: {names}")
    c.apply(idle)
    d.apply(idle)
    b.start(1)
    await ticks()
    tnames = [t.get_name() for p_ in (b, c, d) for t in p_._tasks_running.values()]
    if len(set(tnames)) != 3 or not all(n.endswith("_Task-0") for n in tnames):
        pr.viol.append(f"tasks of separate pools: {tnames} (expected three distinct names, each pool numbering from 0)")
    for p_ in (b, c, d):
        p_.cancel_all()
    await ticks()
    return pr.viol


async def s_exception_in_body_map() -> List[str]:
    """map over elements where some tasks raise at run time / some calls raise: all elements processed, bound kept"""
    from asyncio_taskpool import TaskPool

    viol = []
    for stars, elems in ((0, list(range(6))), (1, [(i,) for i in range(6)]), (2, [{"x": i} for i in range(6)])):
        pool = TaskPool(pool_size=10)
        called, running, peak = [], [0], [0]
        pulled = [0]

        def gen():
            for e in elems:
                pulled[0] += 1
                yield e

        async def f(x):
            called.append(x)
            running[0] += 1
            peak[0] = max(peak[0], running[0])
            try:
                await asyncio.sleep(TICK)
                if x % 2 == 0:
                    raise ValueError(x)
            finally:
                running[0] -= 1

        ends = []

        def end_cb(i):
            ends.append(i)
            if i == 1:
                raise RuntimeError("end callback fails")

        m = (pool.map, pool.starmap, pool.doublestarmap)[stars]
        m(f, gen(), num_concurrent=2, end_callback=end_cb)
        await asyncio.sleep(TICK * 2)
        if pulled[0] > len(called) + 1:
            viol.append(f"stars={stars}: pulled {pulled[0]} elements with only {len(called)} turned into tasks")
        for _ in range(60):
            await asyncio.sleep(TICK)
        if called != list(range(6)):
            viol.append(f"stars={stars}: func called for {called}, expected each of 0..5 once in order")
        if peak[0] > 2:
            viol.append(f"stars={stars}: {peak[0]} tasks of one map call ran at once with num_concurrent=2")
        if sorted(ends) != list(range(6)):
            viol.append(f"stars={stars}: end callbacks for {sorted(ends)}")
        if pool._enough_room._value != 10:
            viol.append(f"stars={stars}: {pool._enough_room._value} of 10 slots free after the map finished")
        try:
            await asyncio.wait_for(pool.gather_and_close(return_exceptions=True), 2)
        except asyncio.TimeoutError:
            viol.append(f"stars={stars}: gather_and_close hangs after the map")
    # a raising *end callback* must not cost the call one of its concurrency slots
    pool = TaskPool()
    seen: List[int] = []

    async def g(x):
        seen.append(x)
        await asyncio.sleep(0)

    def bad_end(i):
        raise RuntimeError("end callback fails")

    # elements that cannot even be unpacked are skipped like any other failing call
    pool.starmap(g, [(10,), 5, (11,)], num_concurrent=1)
    pool.doublestarmap(g, [{"x": 12}, [("x", 7)], {"x": 13}], num_concurrent=1)
    for _ in range(20):
        await asyncio.sleep(TICK)
    if sorted(seen) != [10, 11, 12, 13]:
        viol.append(f"starmap/doublestarmap with a non-unpackable element in the middle processed {sorted(seen)}, expected [10, 11, 12, 13]")
    seen.clear()
    pool.map(g, range(4), num_concurrent=1, end_callback=bad_end)
    for _ in range(30):
        await asyncio.sleep(TICK)
    if seen != [0, 1, 2, 3]:
        viol.append(f"map with num_concurrent=1 and a raising end callback processed {seen} of [0, 1, 2, 3]")
    pool.cancel_all()
    await ticks()
    return viol


async def s_slow_callbacks_flush() -> List[str]:
    """flush() while tasks sit in slow cancel/end callbacks, and while others arrive there (C13, C02)"""
    from asyncio_taskpool import TaskPool

    pool = TaskPool(pool_size=3)
    pr = Probe(pool)
    pool.apply(pr.work, num=3, end_callback=pr.slow_end(), cancel_callback=pr.slow_cancel())
    await ticks()
    pool.cancel(0)
    await ticks()
    fl = asyncio.create_task(pool.flush(return_exceptions=True))
    await ticks()
    if pool.num_cancelled != 1:
        pr.viol.append(f"task 0 inside its cancel callback is not counted as cancelled during flush (num_cancelled={pool.num_cancelled})")
    pool.cancel(1)
    await ticks()
    pr.gate(("cancel", 0)).set()
    await ticks()
    pr.gate(("end", 0)).set()
    await ticks()
    await asyncio.wait_for(fl, 2)
    if pool.num_cancelled != 1:
        pr.viol.append(f"after flush task 1 (still inside its cancel callback) is forgotten (num_cancelled={pool.num_cancelled})")
    try:
        pool.cancel(0)
        pr.viol.append("cancel(0) after flush did not raise")
    except Exception as e:
        if type(e).__name__ not in ("TaskNotFound", "InvalidTaskID"):
            pr.viol.append(f"finished+flushed id 0 is still remembered: cancel(0) raised {type(e).__name__}")
    pr.gate(("cancel", 1)).set()
    await ticks()
    pr.gate(("end", 1)).set()
    await ticks()
    pool.cancel(2)
    await ticks()
    pr.gate(("cancel", 2)).set()
    pr.gate(("end", 2)).set()
    await ticks()
    pr.check_callbacks("end", [0, 1, 2], [0, 1, 2])
    pr.check_restored("end", 3)
    return pr.viol


async def s_cancel_semantics() -> List[str]:
    """cancel(*ids): exact, all-or-nothing, errors by state (C06)"""
    from asyncio_taskpool import TaskPool
    from asyncio_taskpool.exceptions import AlreadyCancelled, AlreadyEnded, InvalidTaskID

    pool = TaskPool()
    pr = Probe(pool)
    hits: Dict[int, int] = {}

    async def w(i):
        try:
            await asyncio.sleep(3600)
        except asyncio.CancelledError:
            hits[i] = hits.get(i, 0) + 1
            raise

    for i in range(5):
        pool.apply(w, args=(i,), cancel_callback=pr.slow_cancel())
    await ticks()
    pool.cancel(3)
    await ticks()  # 3 is now inside its slow cancel callback
    for ids, exc in (((0, 3), AlreadyCancelled), ((3,), AlreadyCancelled), ((1, 99), InvalidTaskID)):
        try:
            pool.cancel(*ids)
            pr.viol.append(f"cancel{ids} raised nothing")
        except exc:
            pass
        except Exception as e:
            pr.viol.append(f"cancel{ids} raised {type(e).__name__}, expected {exc.__name__}")
    await ticks()
    if hits != {3: 1}:
        pr.viol.append(f"after failed cancel() calls the tasks that saw a CancelledError are {hits}, expected only task 3 once")
    pr.gate(("cancel", 3)).set()
    await ticks()
    try:
        pool.cancel(2, 3)
        pr.viol.append("cancel(2, 3) with 3 ended raised nothing")
    except AlreadyEnded:
        pass
    except Exception as e:
        pr.viol.append(f"cancel(2,3) raised {type(e).__name__}, expected AlreadyEnded")
    await ticks()
    if 2 in hits:
        pr.viol.append("task 2 was cancelled by a cancel() call that raised")
    pool.cancel(1, 2)
    await ticks()
    if hits.get(1) != 1 or hits.get(2) != 1 or 0 in hits or 4 in hits:
        pr.viol.append(f"cancel(1,2): CancelledError counts {hits}")
    for i in (1, 2):
        pr.gate(("cancel", i)).set()
    pool.cancel_all()
    await ticks()
    for i in (0, 4):
        pr.gate(("cancel", i)).set()
    await ticks()
    return pr.viol


async def s_blocked_spawners() -> List[str]:
    """full pool, several queued requests, cancellation of a queued group: ids dense, slots conserved (C02, C04, C11, C07)"""
    from asyncio_taskpool import TaskPool

    pool = TaskPool(pool_size=2)
    pr = Probe(pool)
    names = {}
    ga = pool.apply(pr.work, kwargs={"tag": "A", "gate": "A"}, num=2)
    await ticks()
    gb = pool.apply(pr.work, kwargs={"tag": "B", "gate": "B"}, num=2)
    gc = pool.apply(pr.work, kwargs={"tag": "C", "gate": "C"}, num=2)
    await ticks()
    pool.cancel_group(gb)
    await ticks()
    if pool._enough_room._value != 0 or pool.num_running != 2:
        pr.viol.append(f"after cancelling a queued group: free slots {pool._enough_room._value}, running {pool.num_running} (expected 0 and 2)")
    if not pool.is_full:
        pr.viol.append("is_full is False with 2 of 2 running")
    pr.gate("A").set()
    await ticks(6)
    pr.check_capacity("after A", 2)
    if "B" in pr.started:
        pr.viol.append("a task of the cancelled group B started")
    if pr.started.count("C") != 2:
        pr.viol.append(f"group C started {pr.started.count('C')} of 2 invocations")
    ids_c = sorted(pool.get_group_ids(gc))
    if ids_c != [2, 3]:
        pr.viol.append(f"ids of group C are {ids_c}, expected [2, 3] (dense, creation order)")
    if sorted(pool._tasks_running) != [2, 3]:
        pr.viol.append(f"running ids {sorted(pool._tasks_running)}, expected [2, 3]")
    for t_id, t in pool._tasks_running.items():
        if not t.get_name().endswith(f"_Task-{t_id}"):
            pr.viol.append(f"task {t_id} is named {t.get_name()}")
    pr.gate("C").set()
    await ticks(6)
    pr.check_restored("end", 2)
    try:
        pool.get_group_ids(gb)
        pr.viol.append("cancelled group is still known")
    except Exception:
        pass
    # two requests waiting for room at the same time, both served afterwards: every invocation is its own task
    p2 = TaskPool(pool_size=1)
    pr2 = Probe(p2)
    p2.apply(pr2.work, kwargs={"tag": "X", "gate": "X"})
    await ticks()
    g1 = p2.apply(pr2.work, kwargs={"tag": "Y", "gate": "Y"})
    g2 = p2.apply(pr2.work, kwargs={"tag": "Z", "gate": "Z"})
    await ticks()
    pr2.gate("X").set()
    await ticks(4)
    pr2.gate("Y").set()
    pr2.gate("Z").set()
    await ticks(6)
    i1, i2 = p2.get_group_ids(g1), p2.get_group_ids(g2)
    if i1 & i2 or len(i1) != 1 or len(i2) != 1 or (i1 | i2) != {1, 2}:
        pr.viol.append(f"two queued requests got task ids {sorted(i1)} and {sorted(i2)}, expected one each of 1 and 2")
    if sorted(pr2.started) != ["X", "Y", "Z"]:
        pr.viol.append(f"invocations run: {sorted(pr2.started)}, expected X, Y, Z once each")
    if p2._enough_room._value != 1:
        pr.viol.append(f"{p2._enough_room._value} of 1 slots free after both queued requests finished")
    return pr.viol


async def s_group_cancel() -> List[str]:
    """cancel_group on empty/queued/running groups, name reuse, sibling groups untouched (C07, C10)"""
    from asyncio_taskpool import TaskPool
    from asyncio_taskpool.exceptions import InvalidGroupName

    pool = TaskPool(pool_size=1)
    pr = Probe(pool)
    pulled = []

    def gen(tag, n):
        for i in range(n):
            pulled.append(tag)
            yield {"tag": tag, "gate": tag}

    ga = pool.apply(pr.work, kwargs={"tag": "A", "gate": "A"})
    await ticks()
    gb = pool.doublestarmap(pr.work, gen("B", 4))  # queued behind A: its group is still empty
    await ticks()
    try:
        pool.cancel_group(gb)
    except Exception as e:
        pr.viol.append(f"cancel_group on a live (still empty) group raised {type(e).__name__}")
    n_pulled_b = pulled.count("B")
    gb2 = pool.doublestarmap(pr.work, gen("B2", 3))  # gets the freed auto-generated name
    if gb2 != gb:
        pr.viol.append(f"the freed name {gb} was not handed out again (got {gb2})")
    await ticks()
    pool.cancel_group(gb2)
    try:
        pool.cancel_group("nope")
        pr.viol.append("cancel_group of an unknown name raised nothing")
    except InvalidGroupName:
        pass
    gc = pool.doublestarmap(pr.work, gen("C", 2))
    await ticks()
    pr.gate("A").set()
    await ticks(6)
    if any(t in ("B", "B2") for t in pr.started):
        pr.viol.append(f"tasks of cancelled groups started: {pr.started}")
    if pulled.count("B") > n_pulled_b or pulled.count("B2") > 1:
        pr.viol.append(f"the argument iterable of a cancelled group was advanced again: {pulled}")
    if pr.started.count("C") != 1:
        pr.viol.append(f"sibling group C has {pr.started.count('C')} tasks started, expected 1 (pool size 1)")
    pr.gate("C").set()
    await ticks(8)
    if pr.started.count("C") != 2:
        pr.viol.append(f"sibling group C ran {pr.started.count('C')} of 2 elements")
    ids = pool.get_group_ids(gc)
    if len(ids) != 2:
        pr.viol.append(f"group C reports ids {ids}")
    pr.check_restored("end", 1)
    # generated group names stay unique and fresh after groups with lower / middle / higher indices were cancelled (C10)
    for victim in (0, 1, 2, None):
        p2 = TaskPool()

        async def idle(x):
            await asyncio.sleep(3600)

        try:
            names = [p2.map(idle, [1]) for _ in range(3)]
            await ticks(2)
            if victim is not None:
                p2.cancel_group(names[victim])
            else:
                p2.cancel_group(names[0])
                p2.cancel_group(names[2])
            live = [n for k, n in enumerate(names) if (k != victim if victim is not None else k == 1)]
            more = []
            for _ in range(3):
                more.append(p2.map(idle, [2]))
                await ticks(1)
            allnames = live + more
            if len(set(allnames)) != len(allnames):
                pr.viol.append(f"generated group names collide after cancelling index {victim}: live {live}, new {more}")
            for n in more:
                got = p2.get_group_ids(n)
                if len(got) != 1:
                    pr.viol.append(f"after cancelling index {victim}: new group {n} reports ids {sorted(got)} for its one element")
            for n in live:
                if len(p2.get_group_ids(n)) != 1:
                    pr.viol.append(f"after cancelling index {victim}: the untouched group {n} reports ids {sorted(p2.get_group_ids(n))}")
            explicit = f"map-idle-group-{len(names) + len(more)}"
            p2.map(idle, [3], group_name=explicit)
            nxt = p2.map(idle, [4])
            if nxt == explicit or nxt in allnames:
                pr.viol.append(f"a generated name collides with a live group: {nxt}")
        except Exception as e:
            pr.viol.append(f"unnamed requests after cancelling group index {victim} failed: {type(e).__name__}: {e}")
        p2.cancel_all()
        await ticks(2)
    return pr.viol


async def s_close() -> List[str]:
    """gather_and_close waits for blocked spawners, map elements and slow callbacks; afterwards closed (C08)"""
    from asyncio_taskpool import TaskPool
    from asyncio_taskpool.exceptions import PoolIsClosed

    pool = TaskPool(pool_size=2)
    pr = Probe(pool)
    done_elems = []
    map_gate = asyncio.Event()

    async def quick(x):
        await map_gate.wait()
        await asyncio.sleep(0)
        done_elems.append(x)

    pool.apply(pr.work, kwargs={"tag": "slowcb", "gate": "g0"}, end_callback=pr.slow_end())
    await ticks()
    pool.map(quick, range(6), num_concurrent=1)
    waiter = asyncio.create_task(pool.until_closed())
    await ticks()
    closer = asyncio.create_task(pool.gather_and_close())
    await ticks()  # the closer waits for the map's meta task (5 elements still to be consumed)
    pr.gate("g0").set()  # task 0 ends *during that wait* and sits in its slow end callback
    await ticks()
    map_gate.set()  # now the map runs to its end
    await ticks(30)
    if closer.done():
        pr.viol.append("gather_and_close returned while a task was still inside its end callback")
    if waiter.done():
        pr.viol.append("until_closed() waiter released before the pool was closed")
    pr.gate(("end", 0)).set()
    try:
        await asyncio.wait_for(closer, 2)
    except Exception as e:
        pr.viol.append(f"gather_and_close raised {type(e).__name__} although nothing failed")
    if sorted(done_elems) != list(range(6)):
        pr.viol.append(f"gather_and_close returned with map elements {sorted(done_elems)} of 0..5 done")
    await ticks()
    if not waiter.done():
        pr.viol.append("until_closed() waiter not released after close")
    if pool.num_running or pool.num_cancelled or pool.num_ended:
        pr.viol.append("closed pool still holds tasks")
    for call in (lambda: pool.apply(pr.work), lambda: pool.map(quick, [1])):
        try:
            call()
            pr.viol.append("a spawn request after close raised nothing")
        except PoolIsClosed:
            pass
        except Exception as e:
            pr.viol.append(f"a spawn request after close raised {type(e).__name__}")
    # a group requested and cancelled in the same tick (its spawner never starts) right before the close
    p2 = TaskPool(pool_size=2)
    finished = []

    async def elem(x):
        await asyncio.sleep(TICK)
        finished.append(x)

    p2.map(elem, range(4), num_concurrent=1)
    await asyncio.sleep(0)
    g = p2.apply(elem, args=(99,))
    p2.cancel_group(g)
    try:
        await asyncio.wait_for(p2.gather_and_close(), 2)
    except BaseException as e:  # noqa
        pr.viol.append(f"gather_and_close raised {type(e).__name__} although no task or callback raised (a group was cancelled in the same tick)")
    if sorted(finished) != [0, 1, 2, 3]:
        pr.viol.append(f"gather_and_close returned with map elements {sorted(finished)} of [0, 1, 2, 3] finished")
    return pr.viol


async def s_lock_unlock() -> List[str]:
    """lock/unlock gating, idempotence, unlock after an aborted close (C09)"""
    from asyncio_taskpool import SimpleTaskPool, TaskPool
    from asyncio_taskpool.exceptions import PoolIsLocked

    viol = []

    async def w():
        await asyncio.sleep(TICK)

    async def bad():
        raise RuntimeError("boom")

    pool = TaskPool()
    pool.lock()
    pool.lock()
    for call in (lambda: pool.apply(w), lambda: pool.map(w, []), lambda: pool.starmap(w, []), lambda: pool.doublestarmap(w, [])):
        try:
            call()
            viol.append("locked pool accepted a request")
        except PoolIsLocked:
            pass
    if pool._task_groups or pool._group_meta_tasks_running:
        viol.append("a rejected request left a group behind")
    pool.unlock()
    pool.unlock()
    from asyncio_taskpool.exceptions import TaskGroupAlreadyExists

    calls = []

    async def cw(tag):
        calls.append(tag)

    pool.apply(cw, args=("first",), group_name="dup")
    for call in (lambda: pool.apply(cw, args=("second",), group_name="dup"), lambda: pool.map(cw, ["third"], group_name="dup")):
        try:
            call()
            viol.append("a duplicate group name was accepted while the first group had no task yet")
        except TaskGroupAlreadyExists:
            pass
    await ticks()
    if calls != ["first"]:
        viol.append(f"func was called for a rejected duplicate-name request: {calls}")
    pool.apply(bad)
    await ticks()
    try:
        await pool.gather_and_close()
        viol.append("gather_and_close did not raise the task's exception")
    except RuntimeError:
        pass
    pool.unlock()
    if pool.is_locked:
        viol.append("unlock() after an aborted gather_and_close left the pool locked")
    else:
        try:
            pool.apply(w)
        except Exception as e:
            viol.append(f"after unlock() apply raised {type(e).__name__}")
    sp = SimpleTaskPool(w)
    sp.lock()
    try:
        sp.start(1)
        viol.append("locked SimpleTaskPool accepted start()")
    except PoolIsLocked:
        pass
    sp.unlock()
    g = sp.start(2)
    if g != "start-group-0":
        viol.append(f"first accepted start() got group name {g}")
    await ticks(4)
    return viol


async def s_stop_lifo() -> List[str]:
    """SimpleTaskPool.stop with gaps in the running ids (C14)"""
    from asyncio_taskpool import SimpleTaskPool

    viol = []

    async def w():
        await asyncio.sleep(3600)

    sp = SimpleTaskPool(w)
    sp.start(6)
    await ticks()
    sp.cancel(3)
    sp.cancel(1)
    await ticks()
    if sp.stop(0) != [] or sp.stop(-2) != []:
        viol.append("stop(n<=0) cancelled something")
    got = sp.stop(3)
    if got != [5, 4, 2]:
        viol.append(f"stop(3) with running ids [0,2,4,5] returned {got}, expected [5, 4, 2]")
    await ticks()
    if sorted(sp._tasks_running) != [0]:
        viol.append(f"after stop(3) running ids are {sorted(sp._tasks_running)}, expected [0]")
    sp.start(2)
    await ticks()
    got = sp.stop_all()
    if got != [7, 6, 0]:
        viol.append(f"stop_all() returned {got}, expected [7, 6, 0]")
    await ticks()
    if sp.num_running != 0:
        viol.append(f"stop_all() left {sp.num_running} running")
    return viol


async def s_lock_while_spawner_waits() -> List[str]:
    """a map (ignore_lock) keeps spawning through lock(); slots conserved when a waiting start is woken while locked (C15a-like)"""
    from asyncio_taskpool import TaskPool

    pool = TaskPool(pool_size=2)
    pr = Probe(pool)
    pool.apply(pr.work, kwargs={"tag": "A", "gate": "A"}, num=2)
    await ticks()
    pool.doublestarmap(pr.work, [{"tag": "M", "gate": "M"}] * 2, num_concurrent=2)
    await ticks()
    p3 = TaskPool(pool_size=1)
    pr3 = Probe(p3)
    p3.apply(pr3.work, kwargs={"tag": "A", "gate": "A3"})
    await ticks()
    p3.apply(pr3.work, kwargs={"tag": "B", "gate": "B3"})  # accepted, waits for room
    await ticks()
    p3.lock()
    pr3.gate("A3").set()
    await ticks(4)
    pr3.gate("B3").set()
    await ticks(4)
    if p3._enough_room._value != 1:
        pr.viol.append(f"lock() while an accepted request waited for room: {p3._enough_room._value} of 1 slots free after everything finished")
    if p3.pool_size != 1:
        pr.viol.append(f"idle pool reports pool_size={p3.pool_size}, configured 1")
    pool.lock()
    pr.gate("A").set()
    await ticks(6)
    if pr.started.count("M") != 2:
        pr.viol.append(f"map elements started while locked: {pr.started.count('M')} of 2")
    pr.gate("M").set()
    await ticks(6)
    pr.check_restored("end", 2)
    if pool.pool_size != 2:
        pr.viol.append(f"idle pool reports pool_size={pool.pool_size}, configured 2")
    pool.unlock()
    return pr.viol


async def s_queue() -> List[str]:
    """Queue context manager: exactly-once marking, cancellation before/inside the block (C20)"""
    from asyncio_taskpool.queue_context import Queue

    viol = []
    for delay in range(0, 4):
        q: Queue = Queue()
        handled = []

        async def consumer(fail=False):
            async with q as item:
                handled.append(item)
                await asyncio.sleep(3600 if item == "block" else 0)
                if fail:
                    raise RuntimeError

        c = asyncio.create_task(consumer())
        for _ in range(delay):
            await asyncio.sleep(0)
        q.put_nowait("x")
        await asyncio.sleep(0)
        c.cancel()
        await asyncio.gather(c, return_exceptions=True)
        left = q.qsize()
        expected_unfinished = left + 0  # taken items must have been marked
        if q._unfinished_tasks != expected_unfinished:
            viol.append(f"delay={delay}: put 1, still queued {left}, handed to a block {len(handled)}, unfinished={q._unfinished_tasks}")
        if left == 0:
            try:
                await asyncio.wait_for(q.join(), 0.2)
            except asyncio.TimeoutError:
                viol.append(f"delay={delay}: join() hangs although every item was taken and no block is running")
    q = Queue()
    for i in range(3):
        q.put_nowait(i)

    async def body(fail):
        async with q as item:
            if fail:
                raise RuntimeError

    await asyncio.gather(body(False), body(True), return_exceptions=True)
    if q._unfinished_tasks != 1:
        viol.append(f"3 put, 2 blocks exited (one by exception): unfinished={q._unfinished_tasks}, expected 1")
    waiting = asyncio.create_task(body(False))
    await asyncio.sleep(0)
    await asyncio.sleep(0)
    q2 = Queue()
    w = asyncio.create_task(q2.__aenter__())
    await asyncio.sleep(0)
    w.cancel()
    await asyncio.gather(w, waiting, return_exceptions=True)
    if q2._unfinished_tasks != 0:
        viol.append("a consumer cancelled while waiting marked something")
    if not w.cancelled():
        viol.append(f"a consumer cancelled while waiting for an item did not end cancelled: {w.exception()!r}")
    # a consumer cancelled while WAITING must not mark the item another consumer is still working on
    q4 = Queue()
    q4.put_nowait("job")
    in_block, leave = asyncio.Event(), asyncio.Event()

    async def busy_consumer():
        async with q4 as item:
            in_block.set()
            await leave.wait()

    a = asyncio.create_task(busy_consumer())
    await in_block.wait()

    async def waiting_consumer():
        async with q4 as item:
            pass

    b = asyncio.create_task(waiting_consumer())
    await asyncio.sleep(0)
    await asyncio.sleep(0)
    b.cancel()
    await asyncio.gather(b, return_exceptions=True)
    j = asyncio.create_task(q4.join())
    for _ in range(3):
        await asyncio.sleep(0)
    if j.done():
        viol.append("join() returned while a consumer is still inside its block (a waiting consumer was cancelled meanwhile)")
    if not b.cancelled():
        viol.append(f"the waiting consumer that was cancelled ended with {b.exception()!r} instead of being cancelled")
    leave.set()
    res = await asyncio.gather(a, return_exceptions=True)
    if isinstance(res[0], BaseException):
        viol.append(f"the block of the working consumer ended with {res[0]!r}")
    try:
        await asyncio.wait_for(j, 0.2)
    except asyncio.TimeoutError:
        viol.append("join() hangs although the only item was taken and its block has exited")
    # unusual items (None, falsy values, equal items) and nested blocks in one task: every taken item is marked exactly once
    q3 = Queue()
    items = [None, 0, "", False, "same", "same", None]
    for it in items:
        q3.put_nowait(it)

    async def worker(n):
        for _ in range(n):
            async with q3 as item:
                await asyncio.sleep(0)

    await asyncio.gather(worker(3), worker(2))
    if q3._unfinished_tasks != len(items) - 5:
        viol.append(f"{len(items)} unusual items put, 5 blocks exited: unfinished={q3._unfinished_tasks}, expected {len(items) - 5}")

    async def nested():
        async with q3 as a:
            async with q3 as b:
                await asyncio.sleep(0)

    await nested()
    if q3._unfinished_tasks != 0:
        viol.append(f"two nested blocks in one task exited: unfinished={q3._unfinished_tasks}, expected 0")
    try:
        await asyncio.wait_for(q3.join(), 0.2)
    except asyncio.TimeoutError:
        viol.append("join() hangs although every item was taken and every block has exited (unusual items / nested blocks)")
    return viol


async def s_flush_with_cancelled_meta() -> List[str]:
    """flush(return_exceptions=False) while a never-started, cancelled meta task exists and a task sits in a slow cancel
    callback: flush must still wait for that task and must not forget it early (C13, C02)"""
    from asyncio_taskpool import TaskPool

    pool = TaskPool(pool_size=3)
    pr = Probe(pool)
    pool.apply(pr.work, num=2, end_callback=pr.on_end, cancel_callback=pr.slow_cancel())
    await ticks()
    pool.cancel(0)
    await ticks()  # task 0 sits in its slow cancel callback
    g = pool.apply(pr.work)
    pool.cancel_group(g)  # the meta task of g never started: it finishes cancelled
    fl = asyncio.create_task(pool.flush())
    await ticks(4)
    if fl.done():
        pr.viol.append("flush() returned while a cancelled task was still inside its cancel callback")
    if pool.num_cancelled != 1:
        pr.viol.append(f"task 0 (inside its cancel callback) is not counted as cancelled any more (num_cancelled={pool.num_cancelled})")
    pr.gate(("cancel", 0)).set()
    await ticks()
    try:
        await asyncio.wait_for(fl, 2)
    except Exception as e:
        pr.viol.append(f"flush raised {type(e).__name__}")
    if pr.end_cb != [0]:
        pr.viol.append(f"end callbacks ran for {pr.end_cb}, expected [0]")
    if pool._enough_room._value != 2:
        pr.viol.append(f"{pool._enough_room._value} slots free with one task running in a pool of 3")
    pool.cancel(1)
    await ticks()
    pr.gate(("cancel", 1)).set()
    await ticks()
    return pr.viol


async def s_pool_size_assign() -> List[str]:
    """assigning pool_size on an idle pool is enforced; assigning 0 admits nobody; a negative value changes nothing
    (the parts of C15 that hold on this tree; reading/raising the limit while tasks run are known findings F5)"""
    from asyncio_taskpool import TaskPool

    viol: List[str] = []
    pool = TaskPool(pool_size=1)
    pr = Probe(pool)
    pool.apply(pr.work, kwargs={"tag": "a", "gate": "a"}, num=2)
    await ticks()
    pool.pool_size = 0
    await ticks()
    if pr.started != ["a"]:
        viol.append(f"limit 0 assigned with one task running and one waiting: started tasks are now {pr.started}")
    try:
        pool.pool_size = -1
        viol.append("negative pool size accepted")
    except ValueError:
        pass
    await ticks()
    if pr.started != ["a"]:
        viol.append(f"a rejected negative assignment admitted tasks: {pr.started}")
    pool.cancel_all()
    await ticks()
    idle = TaskPool(pool_size=5)
    idle.pool_size = 2
    pr2 = Probe(idle)
    idle.apply(pr2.work, num=4)
    await ticks()
    if idle.num_running != 2:
        viol.append(f"limit 2 assigned on an idle pool: {idle.num_running} of 4 requested tasks run")
    idle.cancel_all()
    await ticks()
    # a full pool: assigning 0 admits nothing however many requests follow (the free room must not become negative)
    busy = TaskPool(pool_size=3)
    pr3 = Probe(busy)
    busy.apply(pr3.work, kwargs={"tag": "old", "gate": "old"}, num=3)
    await ticks()
    busy.pool_size = 0
    busy.apply(pr3.work, kwargs={"tag": "new", "gate": "new"}, num=2)
    await ticks()
    if busy.num_running != 3 or "new" in pr3.started:
        viol.append(f"limit 0 assigned on a full pool of 3: {busy.num_running} tasks run, started {pr3.started}")
    busy.cancel_all()
    await ticks()
    # an assignment while a request waits for room does not strand it: once a running task ends the waiting one is admitted
    for new_size in (1, 2, 5):
        p4 = TaskPool(pool_size=1)
        pr4 = Probe(p4)
        p4.apply(pr4.work, kwargs={"tag": "first", "gate": "first"})
        await ticks()
        p4.apply(pr4.work, kwargs={"tag": "second", "gate": "second"})
        await ticks()
        p4.pool_size = 1 if new_size == 1 else new_size
        pr4.gate("first").set()
        await ticks(6)
        if "second" not in pr4.started:
            viol.append(f"pool_size 1 -> {new_size} while a request waited for room: the waiting task was never admitted after the running one ended")
        pr4.gate("second").set()
        await ticks(6)
        try:
            await asyncio.wait_for(p4.gather_and_close(), 1)
        except asyncio.TimeoutError:
            viol.append(f"pool_size 1 -> {new_size}: gather_and_close() hangs afterwards")
    return viol


async def s_double_cancel_turns() -> List[str]:
    """a second cancellation request k event-loop turns after the first (k = 0..3), by id / group / all, with an async
    cancel callback: it must be refused or harmless; callbacks stay ordered and run to completion (C03, C06)"""
    from asyncio_taskpool import TaskPool

    viol: List[str] = []
    for how in ("id", "group", "all"):
        for k in range(4):
            pool = TaskPool()
            log: List[str] = []
            gate = asyncio.Event()

            async def work():
                await asyncio.sleep(3600)

            async def ccb(i):
                log.append("cancel:start")
                await gate.wait()
                log.append("cancel:done")

            async def ecb(i):
                log.append("end:start")
                await asyncio.sleep(0)
                log.append("end:done")

            g = pool.apply(work, cancel_callback=ccb, end_callback=ecb)
            await ticks()
            pool.cancel(0)
            for _ in range(k):
                await asyncio.sleep(0)
            try:
                if how == "id":
                    pool.cancel(0)
                elif how == "group":
                    pool.cancel_group(g)
                else:
                    pool.cancel_all()
            except Exception:
                pass
            await ticks()
            state_mid = (pool.num_running, pool.num_cancelled, pool.num_ended)
            gate.set()
            await ticks()
            want = ["cancel:start", "cancel:done", "end:start", "end:done"]
            if log != want:
                viol.append(f"second cancel by {how} after {k} turn(s): callback trace {log}, expected {want}")
            if state_mid != (0, 1, 0):
                viol.append(f"second cancel by {how} after {k} turn(s): while the cancel callback runs the task counts as (running,cancelled,ended)={state_mid}")
    return viol


async def s_cancelled_flush() -> List[str]:
    """the task awaiting flush() is cancelled (wait_for timeout) while pool tasks sit in slow end/cancel callbacks:
    gather passes the cancellation on to them; afterwards the capacity must be exactly the pool size (C01, C02)"""
    from asyncio_taskpool import TaskPool

    pool = TaskPool(pool_size=2)
    pr = Probe(pool)
    pool.apply(pr.work, kwargs={"tag": "a", "gate": "a"}, num=2, end_callback=pr.slow_end())
    await ticks()
    pr.gate("a").set()
    await ticks()  # both tasks sit in their slow end callbacks (already counted as ended, slots released)
    fl = asyncio.create_task(pool.flush(return_exceptions=True))
    await ticks()
    fl.cancel()  # e.g. wait_for(pool.flush(), timeout) timing out: gather cancels the tasks inside their callbacks
    await asyncio.gather(fl, return_exceptions=True)
    await ticks(6)
    if pool._enough_room._value != 2:
        pr.viol.append(f"after a cancelled flush {pool._enough_room._value} of 2 slots are free")
    pool.apply(pr.work, kwargs={"tag": "b", "gate": "b"}, num=4)
    await ticks(6)
    pr.check_capacity("second batch", 2)
    if pool.num_running != 2 or not pool.is_full:
        pr.viol.append(f"second batch: num_running={pool.num_running}, is_full={pool.is_full} in a pool of size 2 with 4 requested")
    pr.gate("b").set()
    await ticks(8)
    pr.check_restored("end", 2)
    return pr.viol


async def s_control_session() -> List[str]:
    """a real ControlSession (handshake, listen loop) over a stand-in pool class with concrete annotations (the shipped
    classes cannot be served on this tree: known finding F6); replies are compared with direct calls on a twin (C16-C18)"""
    import contextlib
    import io
    import json as _json
    from unittest.mock import MagicMock

    from asyncio_taskpool.control.session import ControlSession

    from replay.dummy_pool import Dummy

    viol: List[str] = []
    pool, twin = Dummy(), Dummy()
    lines = ["add 1", "add 1 -b 5", "nope", "add", "add x", "-h", "add -h", "nothing", "empty", "many 1 2 3 --sep -", "limit", "limit 5", "limit", "limit -1",
             "wait-boom", "wait-boom -f", "clamp 5 -l 7", "clamp -h", "don't", "add 1 -b it's", 'limit "7', "stat\\", "big", "add -h", "add 2 -b 2"]

    async def expected(line: str):
        tok = line.split(" ")
        try:
            if tok[0] == "add" and len(tok) in (2, 4) and "-h" not in tok:
                b = int(tok[3]) if len(tok) == 4 else 2
                return str(twin.add(int(tok[1]), b))
            if line == "nothing":
                return "ok" if twin.nothing() is None else "?"
            if line == "empty":
                return str(twin.empty())
            if tok[0] == "many":
                return twin.many(1, 2, 3, sep="-")
            if line == "limit":
                return str(twin.limit)
            if line == "limit 5":
                twin.limit = 5
                return "ok"
            if line == "limit -1":
                try:
                    twin.limit = -1
                    return "ok"
                except Exception as e:
                    return str(e)
            if tok[0] == "wait-boom":
                twin.calls.append(("wait_boom", "-f" in tok))
                return "boom"
            if line == "big":
                return twin.big()
            if line == "clamp 5 -l 7":
                return str(twin.clamp(5, 7))
        except Exception:
            return None
        return None  # some message; only "exactly one non-empty reply" is checked

    feed = [_json.dumps({"terminal_width": 80}).encode() + b"\n"] + [l.encode() + b"\n" for l in lines] + [b""]
    sent: List[bytes] = []

    async def readline():
        return feed.pop(0)

    async def drain():
        return None

    reader = MagicMock(readline=readline)
    writer = MagicMock(write=sent.append, drain=drain)
    server = MagicMock(pool=pool, client_class_name="X", is_serving=lambda: True)
    out, err = io.StringIO(), io.StringIO()
    session = ControlSession(server, reader, writer)
    crashed = None
    with contextlib.redirect_stdout(out), contextlib.redirect_stderr(err):
        try:
            await session.client_handshake()
            await session.listen()
        except BaseException as e:  # noqa
            crashed = e
    if crashed is not None:
        viol.append(f"an exception escaped the session: {type(crashed).__name__}: {crashed} (after {len(sent) - 1} replies)")
    if not sent or sent[0] != b"Dummy-7\n":
        viol.append(f"handshake reply is {sent[:1]}, expected the pool's name")
    replies = [b.decode() for b in sent[1:]]
    if len(replies) != len(lines) and crashed is None:
        viol.append(f"{len(lines)} non-blank lines sent, {len(replies)} replies written")
    for line, rep in zip(lines, replies):
        exp = await expected(line)
        if not rep.endswith("\n") or not rep.strip():
            viol.append(f"reply to {line!r} is empty: {rep!r}")
        elif exp is not None and rep != exp + "\n":
            viol.append(f"reply to {line!r} is {rep[:60]!r}, the call gives {exp[:60]!r}")
        if line.endswith("-h") and "usage" not in rep.lower() and "add" not in rep:
            viol.append(f"help request {line!r} answered {rep[:60]!r}")
    if pool.calls != twin.calls:
        viol.append(f"effects differ from direct calls: {pool.calls} vs {twin.calls}")
    if out.getvalue() or err.getvalue():
        viol.append(f"the session printed on stdout/stderr: {(out.getvalue() + err.getvalue())[:100]!r}")
    # command surface
    cmds = set(session._parser._commands.choices) if session._parser is not None and session._parser._commands else set()
    want = {"add", "nothing", "empty", "many", "big", "wait-boom", "limit", "clamp"}
    if cmds != want:
        viol.append(f"commands exposed: {sorted(cmds)}, expected {sorted(want)}")
    return viol


async def s_pool_names() -> List[str]:
    """several pools, one of them closed in between: unnamed pools keep distinct names, task names carry the pool's name and
    the task id, ids are numbered per pool (C11)"""
    from asyncio_taskpool import SimpleTaskPool, TaskPool

    viol: List[str] = []

    async def work():
        await asyncio.sleep(0)

    pools = [TaskPool(), TaskPool(pool_size=2)]
    names = [str(p) for p in pools]
    pools[0].apply(work, num=2)
    await ticks()
    await pools[0].gather_and_close()
    later = [TaskPool(), TaskPool(), SimpleTaskPool(work)]
    all_pools = pools + later
    all_names = [str(p) for p in all_pools]
    if [str(p) for p in pools] != names:
        viol.append(f"the names of existing pools changed after one of them was closed: {names} -> {[str(p) for p in pools]}")
    by_cls = {}
    for p, n in zip(all_pools, all_names):
        by_cls.setdefault(type(p).__name__, []).append(n)
    for cls_, ns in by_cls.items():
        if len(set(ns)) != len(ns):
            viol.append(f"unnamed {cls_} instances share a name: {ns}")
    for p in (pools[1], later[0]):
        p.apply(work, num=2)
    await ticks()
    for p in (pools[1], later[0]):
        ids = sorted(list(p._tasks_running) + list(p._tasks_ended))
        if ids != [0, 1]:
            viol.append(f"pool {p} numbered its first two tasks {ids}")
        for i, t in list(p._tasks_running.items()) + list(p._tasks_ended.items()):
            if t.get_name() != f"{p}_Task-{i}":
                viol.append(f"task {i} of pool {p} is named {t.get_name()!r}")
    for p in all_pools[1:]:
        await p.gather_and_close()
    return viol


async def s_control_contracts() -> List[str]:
    """run-time evaluation of the contracts of the small sequential functions of the control package on an enumerated input
    domain (the classes of inputs the verifier's counter-models fall into): ControlParser.add_function_arg,
    helpers.get_first_doc_line, the converter wrapper, _parse_command's tokenisation, the reply of _exec_*_and_respond
    (C16, C17, C18).  Used to replay failed obligations of those units natively."""
    import inspect
    import io
    from argparse import SUPPRESS, ArgumentTypeError
    from unittest.mock import MagicMock

    from asyncio_taskpool.control import parser as parser_mod
    from asyncio_taskpool.control.parser import ControlParser
    from asyncio_taskpool.control.session import ControlSession
    from asyncio_taskpool.internals import helpers

    viol: List[str] = []
    P = inspect.Parameter
    # ---- add_function_arg -------------------------------------------------------------------------------------
    for name in ("value", "host", "h", "num_concurrent", "Host"):
        for kind in (P.POSITIONAL_OR_KEYWORD, P.KEYWORD_ONLY, P.VAR_POSITIONAL):
            for default in (P.empty, False, True, 5, None):
                if kind == P.VAR_POSITIONAL and default is not P.empty:
                    continue
                for annotation in (bool, int, str):
                    for taken in ((), (name[0],), (name[0], name[0].upper())):
                        pr = ControlParser(stream=io.StringIO(), terminal_width=80, prog="x")
                        pr._flags = set(taken)
                        param = P(name, kind, default=default, annotation=annotation)
                        where = f"add_function_arg({name!r}, kind={kind.name}, default={default!r}, annotation={annotation.__name__}, flags taken={taken})"
                        try:
                            action = pr.add_function_arg(param)
                        except Exception as e:
                            viol.append(f"{where} raised {type(e).__name__}: {e}")
                            continue
                        opts = list(action.option_strings)
                        if default is P.empty:
                            if opts or action.dest != name:
                                viol.append(f"{where}: a parameter without default must become the positional {name!r}, got {opts or action.dest}")
                        else:
                            long = "--" + name.replace("_", "-")
                            if not opts or opts[-1] != long:
                                viol.append(f"{where}: long option should be {long}, got {opts}")
                            if "-h" in opts:
                                viol.append(f"{where}: uses the help flag -h")
                            is_flag = type(action).__name__ == "_StoreTrueAction"
                            if is_flag != (annotation is bool):
                                viol.append(f"{where}: store_true flag = {is_flag} for annotation {annotation.__name__}")
                            if not is_flag and action.default != default:
                                viol.append(f"{where}: omitted option defaults to {action.default!r}, the method's default is {default!r}")
                        if (kind == P.VAR_POSITIONAL) != (action.nargs == "*"):
                            viol.append(f"{where}: nargs={action.nargs!r}")
                        if type(action).__name__ != "_StoreTrueAction" and getattr(action.type, "__name__", None) != annotation.__name__:
                            viol.append(f"{where}: converter {action.type!r} is not the one of the annotation")
    # ---- get_first_doc_line --------------------------------------------------------------------------------------
    def mk(doc):
        def f():
            pass

        f.__doc__ = doc
        return f

    for doc in (None, "", " ", "\n", "One line.", "First.\n\nMore.", "   indented\n   more"):
        try:
            r = helpers.get_first_doc_line(mk(doc))
        except Exception as e:
            viol.append(f"get_first_doc_line of a member with docstring {doc!r} raised {type(e).__name__}: {e} (the command cannot be registered)")
            continue
        if (r is None) != (doc is None) or (r is not None and not isinstance(r, str)):
            viol.append(f"get_first_doc_line({doc!r}) = {r!r}")
    # ---- the converter wrapper: only the SUPPRESS sentinel object passes unconverted --------------------------------
    w = parser_mod._get_arg_type_wrapper(int)
    if w(SUPPRESS) is not SUPPRESS:
        viol.append("the wrapper converted the SUPPRESS sentinel")
    look_alike = "".join(["==SUPP", "RESS=="])  # an equal string that is a different object
    for arg in (look_alike, "x"):
        try:
            r = w(arg)
            viol.append(f"the wrapper let the client token {arg!r} through unconverted as {r!r}")
        except (ArgumentTypeError, TypeError, ValueError):
            pass
        except Exception as e:
            viol.append(f"the wrapper let {type(e).__name__} escape")
    # ---- tokenisation and replies of a session --------------------------------------------------------------------------
    from replay.dummy_pool import Echo as Pool

    pool = Pool()
    session = ControlSession(MagicMock(pool=pool, client_class_name="X"), MagicMock(), MagicMock())
    session._parser = ControlParser(stream=session._response_buffer, terminal_width=80, prog="")
    session._parser.add_subparsers(title="Commands")
    session._parser.add_class_commands(Pool)

    async def send(line):
        await session._parse_command(line)
        out = session._response_buffer.getvalue()
        session._response_buffer.seek(0)
        session._response_buffer.truncate()
        return out

    for line, want_words in (("echo a b", ("a", "b")), ("echo a\tb", ("a\tb",)), ("echo a\u00a0b c", ("a\u00a0b", "c")), ("echo a  b", ("a", "", "b"))):
        pool.seen.clear()
        rep = await send(line)
        if pool.seen != [want_words]:
            viol.append(f"the line {line!r} called echo with {pool.seen}, the pieces between single blanks are {want_words} (reply {rep[:40]!r})")
    for line, want in (("nothing", "ok"), ("blank", ""), ("empty", "[]"), ("boom", ""), ("level", "0"), ("level 3", "ok"), ("level -1", "")):
        rep = await send(line)
        if rep != want:
            viol.append(f"reply to {line!r} is {rep!r}; 'ok' stands for None only, otherwise str() of the result or exception: expected {want!r}")
    return viol


async def s_control_two_sessions() -> List[str]:
    """two sessions on the same pool class with the same terminal width, overlapping in time and interleaved line by line:
    every reply goes to the session that sent the line and equals what a lone session gets (C16, C18: "each reply contains
    only the output of its own command"); a third session connects after the first has gone"""
    import contextlib
    import io
    import json as _json
    from unittest.mock import MagicMock

    from asyncio_taskpool.control.session import ControlSession

    from replay.dummy_pool import Dummy

    viol: List[str] = []

    class Conn:
        def __init__(self, pool, name):
            self.name, self.inq, self.sent = name, asyncio.Queue(), []
            reader = MagicMock(readline=self.inq.get)

            async def drain():
                return None

            writer = MagicMock(write=self.sent.append, drain=drain)
            server = MagicMock(pool=pool, client_class_name=name, is_serving=lambda: True)
            self.session = ControlSession(server, reader, writer)
            self.task = None

        async def run(self):
            await self.session.client_handshake()
            await self.session.listen()

        async def start(self, width=80):
            self.task = asyncio.ensure_future(self.run())
            await self.send_raw(_json.dumps({"terminal_width": width}).encode() + b"\n")

        async def send_raw(self, data):
            n = len(self.sent)
            await self.inq.put(data)
            for _ in range(200):
                await asyncio.sleep(0)
                if len(self.sent) > n or self.task.done():
                    break
            return self.sent[n].decode() if len(self.sent) > n else None

        async def send(self, line):
            return await self.send_raw(line.encode() + b"\n")

        async def close(self):
            await self.inq.put(b"")
            for _ in range(50):
                await asyncio.sleep(0)

    script = [("A", "add -h"), ("B", "add 1"), ("A", "add"), ("B", "add x"), ("A", "-h"), ("B", "nope"), ("A", "limit x"), ("B", "limit"), ("A", "clamp -h"), ("B", "add 1 -b 5"),
              ("A", "nothing"), ("B", "many 1 2 --sep")]
    out, err = io.StringIO(), io.StringIO()
    with contextlib.redirect_stdout(out), contextlib.redirect_stderr(err):
        # reference: each line answered by a lone session on a fresh pool
        expected = {}
        for who in ("A", "B"):
            solo = Conn(Dummy(), "solo" + who)
            await solo.start()
            expected[who] = [await solo.send(line) for w, line in script if w == who]
            await solo.close()
        pool = Dummy()
        conns = {"A": Conn(pool, "A"), "B": Conn(pool, "B")}
        await conns["A"].start()
        await conns["B"].start()
        got = {"A": [], "B": []}
        for who, line in script:
            before_other = len(conns["B" if who == "A" else "A"].sent)
            rep = await conns[who].send(line)
            got[who].append(rep)
            if len(conns["B" if who == "A" else "A"].sent) != before_other:
                viol.append(f"line {line!r} of session {who} produced output in the other session")
        for who in ("A", "B"):
            lines = [line for w, line in script if w == who]
            for line, rep, exp in zip(lines, got[who], expected[who]):
                if rep is None:
                    viol.append(f"session {who}: no reply to {line!r}")
                elif not rep.strip():
                    viol.append(f"session {who}: empty reply to {line!r} (a lone session answers {exp[:50]!r})")
                elif exp is not None and rep != exp and not line.startswith(("add 1", "limit")):
                    viol.append(f"session {who}: reply to {line!r} is {rep[:50]!r}, a lone session answers {exp[:50]!r}")
        # a later session after A has gone
        await conns["A"].close()
        c = Conn(pool, "C")
        await c.start()
        for line in ("add -h", "add", "limit x"):
            rep = await c.send(line)
            if rep is None or not rep.strip():
                viol.append(f"later session C: {'no' if rep is None else 'empty'} reply to {line!r}")
        for k in ("B",):
            n = len(conns[k].sent)
            await asyncio.sleep(0)
            if len(conns[k].sent) != n:
                viol.append("output of session C appeared in session B")
        for x in list(conns.values()) + [c]:
            if x.task is not None and not x.task.done():
                x.task.cancel()
        for x in list(conns.values()) + [c]:
            if x.task is not None and x.task.done() and not x.task.cancelled() and x.task.exception() is not None:
                viol.append(f"session {x.name} crashed: {type(x.task.exception()).__name__}: {x.task.exception()}")
    if out.getvalue() or err.getvalue():
        viol.append(f"a session printed on stdout/stderr: {(out.getvalue() + err.getvalue())[:100]!r}")
    return viol


async def s_dotted_paths() -> List[str]:
    """helpers.resolve_dotted_path (the converter of every callable-typed command argument, C17) on a freshly built package
    tree, for every combination of "already imported / reachable as an attribute of its parent / not imported yet" of the
    intermediate packages - the classes of situations the verifier's counter-models of the loop invariant fall into.
    Oracle: the object importlib + getattr give for the same dotted path."""
    import importlib
    import os
    import shutil
    import sys
    import tempfile

    from asyncio_taskpool.internals.helpers import resolve_dotted_path

    viol: List[str] = []
    root = tempfile.mkdtemp(prefix="dotted_")
    try:
        n = 0
        for preload_sub in (False, True):
            for preload_leaf in (False, True):
                for init_imports_sub in (False, True):
                    n += 1
                    pkg = f"vpkg{n}"
                    os.makedirs(os.path.join(root, pkg, "sub", "deep"))
                    open(os.path.join(root, pkg, "__init__.py"), "w").write("from . import sub\n" if init_imports_sub else "")
                    open(os.path.join(root, pkg, "sub", "__init__.py"), "w").write("")
                    open(os.path.join(root, pkg, "sub", "deep", "__init__.py"), "w").write("")
                    open(os.path.join(root, pkg, "sub", "deep", "mod.py"), "w").write("class K:\n    attr = 41\n\ndef work():\n    return 1\n")
                    open(os.path.join(root, pkg, "other.py"), "w").write("def job():\n    return 2\n")
                    if root not in sys.path:
                        sys.path.insert(0, root)
                    importlib.invalidate_caches()
                    if preload_sub:
                        importlib.import_module(f"{pkg}.sub")
                    if preload_leaf:
                        importlib.import_module(f"{pkg}.sub.deep.mod")
                    for path in (f"{pkg}.other.job", f"{pkg}.sub.deep.mod.work", f"{pkg}.sub.deep.mod.K.attr", f"{pkg}.sub.deep", f"{pkg}"):
                        tag = f"[sub preloaded={preload_sub}, leaf preloaded={preload_leaf}, package imports sub={init_imports_sub}] {path.replace(pkg, 'pkg')}"
                        try:
                            got = resolve_dotted_path(path)
                        except Exception as e:
                            viol.append(f"{tag}: a well-formed dotted path is rejected: {type(e).__name__}: {e}")
                            continue
                        parts = path.split(".")
                        want = None
                        for k in range(len(parts), 0, -1):
                            try:
                                want = importlib.import_module(".".join(parts[:k]))
                            except ImportError:
                                continue
                            for a in parts[k:]:
                                want = getattr(want, a)
                            break
                        if got is not want:
                            viol.append(f"{tag}: resolved to {got!r}, expected {want!r}")
        for bad in ("vpkg1.nope.thing", "vpkg1.other.nothing", "no_such_top_level_module_xyz.f"):
            try:
                r = resolve_dotted_path(bad)
                viol.append(f"{bad}: a path that does not exist resolved to {r!r}")
            except (ImportError, AttributeError):
                pass
            except Exception as e:
                viol.append(f"{bad}: unexpected {type(e).__name__}: {e}")
    finally:
        for m in [m for m in sys.modules if m.startswith("vpkg")]:
            del sys.modules[m]
        if root in sys.path:
            sys.path.remove(root)
        shutil.rmtree(root, ignore_errors=True)
    return viol


SCENARIOS: Dict[str, Callable] = {
    "lifecycle_mix": s_lifecycle_mix,
    "exception_in_body_map": s_exception_in_body_map,
    "slow_callbacks_flush": s_slow_callbacks_flush,
    "cancel_semantics": s_cancel_semantics,
    "blocked_spawners": s_blocked_spawners,
    "group_cancel": s_group_cancel,
    "close": s_close,
    "lock_unlock": s_lock_unlock,
    "stop_lifo": s_stop_lifo,
    "lock_while_spawner_waits": s_lock_while_spawner_waits,
    "queue": s_queue,
    "control_session": s_control_session,
    "control_two_sessions": s_control_two_sessions,
    "control_contracts": s_control_contracts,
    "pool_names": s_pool_names,
    "cancelled_flush": s_cancelled_flush,
    "double_cancel_turns": s_double_cancel_turns,
    "flush_with_cancelled_meta": s_flush_with_cancelled_meta,
    "pool_size_assign": s_pool_size_assign,
    "dotted_paths": s_dotted_paths,
}

BY_PROPERTY = {
    "C01": ["blocked_spawners", "lifecycle_mix", "lock_while_spawner_waits", "exception_in_body_map", "cancelled_flush"],
    "C02": ["blocked_spawners", "lifecycle_mix", "slow_callbacks_flush", "exception_in_body_map", "lock_while_spawner_waits", "cancelled_flush", "flush_with_cancelled_meta"],
    "C03": ["lifecycle_mix", "slow_callbacks_flush", "cancel_semantics", "double_cancel_turns"],
    "C04": ["blocked_spawners", "lifecycle_mix"],
    "C05": ["exception_in_body_map", "group_cancel"],
    "C06": ["cancel_semantics", "double_cancel_turns"],
    "C07": ["group_cancel", "blocked_spawners"],
    "C08": ["close", "lock_unlock"],
    "C09": ["lock_unlock"],
    "C10": ["group_cancel", "blocked_spawners"],
    "C11": ["blocked_spawners", "lifecycle_mix", "pool_names"],
    "C12": ["exception_in_body_map", "lifecycle_mix", "lock_unlock"],
    "C13": ["slow_callbacks_flush", "flush_with_cancelled_meta"],
    "C14": ["stop_lifo"],
    "C15": ["lock_while_spawner_waits", "pool_size_assign", "blocked_spawners"],
    "C20": ["queue"],
    "C16": ["control_session", "control_two_sessions", "control_contracts"],
    "C17": ["control_session", "control_two_sessions", "control_contracts", "dotted_paths"],
    "C18": ["control_session", "control_two_sessions", "control_contracts"],
}


def candidates(prop: str, obligation: str, path: str, all_failed) -> List[str]:
    """scenario families to try for a failed obligation, most specific first"""
    first: List[str] = []
    text = obligation + " " + " ".join(all_failed)
    hints = [("flush", "slow_callbacks_flush"), ("gather_and_close", "close"), ("cancel_group", "group_cancel"), ("cancel_all", "group_cancel"),
             ("_cancel_and_remove", "group_cancel"), ("_start_task", "blocked_spawners"), ("_task_wrapper", "lifecycle_mix"), ("_task_wrapper", "exception_in_body_map"),
             ("_task_wrapper", "slow_callbacks_flush"), ("cancel-callback", "cancel_semantics"), (".cancel#", "cancel_semantics"), ("stop", "stop_lifo"),
             ("lock", "lock_unlock"), ("_arg_consumer", "exception_in_body_map"), ("release_callback", "exception_in_body_map"), ("_apply_spawner", "blocked_spawners"),
             ("_start_num", "stop_lifo"), ("queue_context", "queue"), ("pool_size", "pool_size_assign"), ("G11", "pool_names"), ("_add_pool", "pool_names"), ("__str__", "pool_names"), ("pool_size", "lock_while_spawner_waits"), ("_generate_group_name", "group_cancel"),
             ("apply", "blocked_spawners"), ("map", "exception_in_body_map"), ("add_function_arg", "control_contracts"), ("get_first_doc_line", "control_contracts"),
             ("_get_arg_type_wrapper", "control_contracts"), ("_parse_command", "control_contracts"), ("_and_respond", "control_contracts"), ("return_or_exception", "control_session"), ("resolve_dotted_path", "dotted_paths")]
    for key, sc in hints:
        if key in text and sc not in first:
            first.append(sc)
    for sc in BY_PROPERTY.get(prop, []):
        if sc not in first:
            first.append(sc)
    return first
