"""F5 (C15): pool_size reports the free room instead of the configured maximum; assigning a new value
overwrites the free room (ignores tasks in flight) and wakes no waiter.  exit 0 = held, 1 = violated."""
import asyncio
import sys

from asyncio_taskpool import TaskPool


async def main() -> int:
    async def work():
        await asyncio.sleep(3600)

    problems = []
    pool = TaskPool(pool_size=3)
    pool.apply(work, num=2)
    await asyncio.sleep(0.01)
    if pool.pool_size != 3:
        problems.append(f"(a) configured 3, two running: pool_size reports {pool.pool_size}")
    pool.pool_size = 3  # re-assign the same limit while 2 run
    pool.apply(work, num=3)
    await asyncio.sleep(0.01)
    if pool.num_running > 3:
        problems.append(f"(b) limit 3 assigned while 2 were running: {pool.num_running} tasks run at once")
    pool2 = TaskPool(pool_size=1)
    pool2.apply(work, num=3)
    await asyncio.sleep(0.01)
    pool2.pool_size = 3
    await asyncio.sleep(0.01)
    if pool2.num_running != 3:
        problems.append(f"(c) limit raised 1 -> 3 with two tasks waiting: {pool2.num_running} running, expected 3")
    for p in (pool, pool2):
        p.cancel_all()
    await asyncio.sleep(0.01)
    for p in problems:
        print("VIOLATED:", p)
    return 1 if problems else 0


if __name__ == "__main__":
    sys.exit(asyncio.run(main()))
