"""F2 (C02/C12/C13): flush() forgets tasks that arrived in the cancelled/ended registries while it was
waiting.  History: task 0 sits in a slow cancel callback; flush() starts and waits for it; task 1 is
cancelled and enters its slow cancel callback; task 0 finishes; flush resumes and clears the registries
=> task 1's ending raises KeyError, its slot is never released, its end callback never fires.
exit 0 = property held, 1 = violated."""
import asyncio
import sys

from asyncio_taskpool import TaskPool


async def main() -> int:
    gates = {0: asyncio.Event(), 1: asyncio.Event()}
    ended = []

    async def work():
        await asyncio.sleep(3600)

    async def slow_cancel_cb(task_id):
        await gates[task_id].wait()

    pool = TaskPool(pool_size=2)
    pool.apply(work, num=2, cancel_callback=slow_cancel_cb, end_callback=ended.append)
    await asyncio.sleep(0.01)
    pool.cancel(0)
    await asyncio.sleep(0.01)  # task 0 is now inside its cancel callback
    flusher = asyncio.create_task(pool.flush(return_exceptions=True))
    await asyncio.sleep(0.01)  # flush waits for task 0
    pool.cancel(1)
    await asyncio.sleep(0.01)  # task 1 is inside its cancel callback, registered as cancelled
    gates[0].set()
    await asyncio.sleep(0.01)
    await flusher
    mid_cancelled = pool.num_cancelled
    gates[1].set()
    await asyncio.sleep(0.01)
    problems = []
    if mid_cancelled != 1:
        problems.append(f"task 1 was forgotten while inside its cancel callback (num_cancelled={mid_cancelled})")
    if sorted(ended) != [0, 1]:
        problems.append(f"end callbacks fired for {sorted(ended)}, expected [0, 1]")
    free = pool._enough_room._value
    if free != 2:
        problems.append(f"only {free} of 2 slots free after all work finished")
    for p in problems:
        print("VIOLATED:", p)
    return 1 if problems else 0


if __name__ == "__main__":
    sys.exit(asyncio.run(main()))
