"""F4 (C08; C07): a group created and cancelled in the same tick leaves a never-started cancelled spawner; the
first gather of gather_and_close raises CancelledError at once, it is suppressed, and the pool is closed
while a map consumer is still producing: the remaining elements die on PoolIsClosed.
exit 0 = property held, 1 = violated."""
import asyncio
import sys

from asyncio_taskpool import TaskPool


async def main() -> int:
    done = []

    async def work(x):
        await asyncio.sleep(0.01)
        done.append(x)

    pool = TaskPool(pool_size=2)
    pool.map(work, range(4), num_concurrent=1)
    await asyncio.sleep(0)
    g = pool.apply(work, args=(99,))
    pool.cancel_group(g)  # its spawner never started: it will finish cancelled
    problems = []
    try:
        await pool.gather_and_close()
    except Exception as e:
        problems.append(f"gather_and_close raised {type(e).__name__}")
    finished_at_return = sorted(done)
    await asyncio.sleep(0.2)
    if finished_at_return != [0, 1, 2, 3]:
        problems.append(f"gather_and_close returned with map elements {finished_at_return} of [0, 1, 2, 3] finished")
    for p in problems:
        print("VIOLATED:", p)
    return 1 if problems else 0


if __name__ == "__main__":
    sys.exit(asyncio.run(main()))
