"""F3 (C04/C08/C12): lock() / gather_and_close() after apply(num=3) was accepted on a size-1 pool: the spawner's
next _start_task raises PoolIsLocked, the remaining invocations are lost, gather_and_close raises
PoolIsLocked.  exit 0 = property held, 1 = violated."""
import asyncio
import sys

from asyncio_taskpool import TaskPool


async def main() -> int:
    ran = []

    async def work(i):
        ran.append(i)
        await asyncio.sleep(0.01)

    pool = TaskPool(pool_size=1)
    pool.apply(work, args=(7,), num=3)
    await asyncio.sleep(0)
    problems = []
    try:
        await pool.gather_and_close()
    except Exception as e:
        problems.append(f"gather_and_close raised {type(e).__name__} although no task or callback raised")
    await asyncio.sleep(0.1)
    if len(ran) != 3:
        problems.append(f"{len(ran)} of the 3 accepted invocations ran")
    for p in problems:
        print("VIOLATED:", p)
    return 1 if problems else 0


if __name__ == "__main__":
    sys.exit(asyncio.run(main()))
