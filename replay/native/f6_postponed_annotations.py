"""F6 (C16/C17): the handshake of a control session fails for both shipped pool classes because pool.py uses
postponed annotations: ControlParser.add_class_commands reads `annotation.__name__` of a str.
exit 0 = property held, 1 = violated."""
import asyncio
import json
import sys
from unittest.mock import AsyncMock, MagicMock

from asyncio_taskpool import SimpleTaskPool, TaskPool
from asyncio_taskpool.control.session import ControlSession


async def main() -> int:
    problems = []
    for pool in (TaskPool(), SimpleTaskPool(asyncio.sleep)):
        server = MagicMock(pool=pool, client_class_name="X")
        reader = MagicMock(readline=AsyncMock(return_value=json.dumps({"terminal_width": 80}).encode() + b"\n"))
        writer = MagicMock(drain=AsyncMock())
        session = ControlSession(server, reader, writer)
        try:
            await session.client_handshake()
        except Exception as e:
            problems.append(f"handshake with a {type(pool).__name__} fails: {type(e).__name__}: {e}")
    for p in problems:
        print("VIOLATED:", p)
    return 1 if problems else 0


if __name__ == "__main__":
    sys.exit(asyncio.run(main()))
