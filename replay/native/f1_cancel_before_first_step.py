"""F1 (C02/C03): a cancellation that reaches a pool task before its first step.  The wrapper coroutine is
thrown into before it runs a single statement: the task stays counted as running forever, its slot is
never released and neither callback fires.  exit 0 = property held, 1 = violated."""
import asyncio
import sys

from asyncio_taskpool import TaskPool


async def main() -> int:
    calls = []

    async def work():
        await asyncio.sleep(0)

    pool = TaskPool(pool_size=1)
    pool.apply(work, end_callback=lambda i: calls.append(("end", i)), cancel_callback=lambda i: calls.append(("cancel", i)))
    await asyncio.sleep(0)  # the spawner has created task 0; task 0 has not taken its first step yet
    pool.cancel(0)
    for _ in range(20):
        await asyncio.sleep(0)
    problems = []
    if pool.num_running != 0:
        problems.append(f"the cancelled task is counted as running forever (num_running={pool.num_running})")
    if pool._enough_room._value != 1:
        problems.append(f"its slot was never released ({pool._enough_room._value} of 1 free)")
    if calls != [("cancel", 0), ("end", 0)]:
        problems.append(f"callbacks fired: {calls}, expected cancel then end")
    for p in problems:
        print("VIOLATED:", p)
    return 1 if problems else 0


if __name__ == "__main__":
    sys.exit(asyncio.run(main()))
