"""F7 (C17): a property-setter command whose setter raises is answered 'ok' instead of the str() of the
exception.  History: `pool-size -1` on any pool.  exit 0 = property held, 1 = violated."""
import asyncio
import sys
from io import StringIO
from unittest.mock import MagicMock

from asyncio_taskpool import TaskPool
from asyncio_taskpool.control.session import ControlSession


async def main() -> int:
    pool = TaskPool(pool_size=3)
    server = MagicMock(pool=pool, client_class_name="X")
    session = ControlSession(server, MagicMock(), MagicMock())
    await session._exec_property_and_respond(TaskPool.pool_size, value=-1)
    reply = session._response_buffer.getvalue()
    try:
        pool.pool_size = -1
        expected = "ok"
    except Exception as e:  # the reply must be the str() of what the call raised
        expected = str(e)
    if reply != expected:
        print(f"VIOLATED: reply to `pool-size -1` is {reply!r}, the call raises {expected!r}")
        return 1
    return 0


if __name__ == "__main__":
    sys.exit(asyncio.run(main()))
