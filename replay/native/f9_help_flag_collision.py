"""F9 (C16): an optional parameter whose name starts with "h" is given the short flag `-h`, which argparse already uses for
the help option of every sub-parser: `add_argument` raises ArgumentError (conflicting option string), so
`add_function_command` / `add_class_commands` fail - and with them the handshake - for any pool subclass that adds a public
method with such a parameter.  The verifier's counterexample: first letter of the parameter name == "h", not yet in `_flags`.
exit 0 = property held, 1 = violated."""
import io
import sys

from asyncio_taskpool.control.parser import ControlParser


def connect(self, target: int, host: str = "localhost") -> None:
    """Connects somewhere."""


def main() -> int:
    p = ControlParser(stream=io.StringIO(), terminal_width=80, prog="")
    p.add_subparsers(title="Commands")
    try:
        sub = p.add_function_command(connect, stream=io.StringIO(), terminal_width=80)
    except Exception as e:
        print(f"VIOLATED: the public method `connect(target, host='localhost')` cannot be exposed as a command: {type(e).__name__}: {e}")
        return 1
    try:
        ns = vars(sub.parse_args(["7", "--host", "example.org"]))
    except Exception as e:
        print(f"VIOLATED: the command cannot be parsed: {type(e).__name__}: {e}")
        return 1
    if ns.get("host") != "example.org" or ns.get("target") != 7:
        print(f"VIOLATED: parsed {ns}")
        return 1
    return 0


if __name__ == "__main__":
    sys.exit(main())
