"""F8 (C17): `resolve_dotted_path` (the converter of every callable-typed command argument: func, end_callback, ...)
extends the module name to import only by the components that needed an import before.  If an intermediate package is
already imported (its attribute lookup succeeds), the next missing submodule is imported under a wrong name and a
well-formed dotted path is rejected.  The verifier's counterexample: component k found as an attribute (path `attr:found`),
component k+1 missing.  History: `import email.mime`, then resolve "email.mime.text.MIMEText".
exit 0 = property held, 1 = violated."""
import sys

from asyncio_taskpool.internals.helpers import resolve_dotted_path


def main() -> int:
    import email.mime  # noqa: F401  an intermediate package that something else has already imported

    if "email.mime.text" in sys.modules:
        print("precondition of the replay not met (email.mime.text already imported)")
        return 0
    try:
        obj = resolve_dotted_path("email.mime.text.MIMEText")
    except Exception as e:
        print(f"VIOLATED: the well-formed dotted path 'email.mime.text.MIMEText' is rejected: {type(e).__name__}: {e}")
        return 1
    from email.mime.text import MIMEText

    if obj is not MIMEText:
        print(f"VIOLATED: resolved to {obj!r}")
        return 1
    return 0


if __name__ == "__main__":
    sys.exit(main())
