"""Replay layer: runs native scenarios against the real package under /venv/bin/python (a separate
process: z3 lives in the tooling venv, the package's dependencies in /venv)."""
from __future__ import annotations

import json
import os
import re
import subprocess

HERE = os.path.dirname(os.path.abspath(__file__))
ROOT = os.path.dirname(HERE)
REPO = os.environ.get("VERIF_REPO", "/repo")
PY = "/venv/bin/python"


def run_native(script: str, args=(), timeout=120, full=False):
    env = dict(os.environ)
    env["PYTHONPATH"] = os.path.join(REPO, "src")
    try:
        p = subprocess.run([PY, os.path.join(ROOT, script), *args], capture_output=True, text=True, timeout=timeout, env=env, cwd=ROOT)
        return p.returncode, (p.stdout if full else (p.stdout + p.stderr)[-3000:])
    except subprocess.TimeoutExpired:
        return 124, "timeout"


def replay_for(prop: str, ob: dict, all_failed) -> dict:
    """try to turn a failed obligation into a failing native history: scenario families keyed by the
    obligation; each scenario drives the *real* pool through its public API into the situation the
    counter-model describes and evaluates the property's observable oracle."""
    from . import scenarios

    tried = []
    for name in scenarios.candidates(prop, ob["name"], ob.get("path", ""), all_failed):
        code, out = run_native("replay/scenarios_run.py", [name])
        tried.append({"scenario": name, "exit": code, "output": out[-1200:]})
        if code == 1:
            return {"reproduced": True, "scenario": name, "command": f"PYTHONPATH={REPO}/src {PY} {ROOT}/replay/scenarios_run.py {name}", "output": out[-1200:], "tried": tried}
    if prop in ("C16", "C17", "C18"):
        seed = os.environ.get("VERIF_SEED", "0") or "0"
        code, out = run_native("replay/random_commands.py", [prop, seed, "600"], timeout=600, full=True)
        tried.append({"scenario": "random_commands", "exit": code, "output": out[-800:]})
        if code == 1 and '"violated": true' in out:
            return {"reproduced": True, "scenario": "random_commands", "command": f"PYTHONPATH={REPO}/src {PY} {ROOT}/replay/random_commands.py {prop} {seed} 600", "output": out[-1500:], "tried": tried}
    # last candidate for the pool properties: the seeded random-history explorer (its oracles are those of the properties)
    if re.fullmatch(r"C(0[1-9]|1[0-5])", prop):
        seed = os.environ.get("VERIF_SEED", "0") or "0"
        code, out = run_native("replay/random_histories.py", [prop, seed, "8000"], timeout=600, full=True)
        tried.append({"scenario": "random_histories", "exit": code, "output": out[-800:]})
        if code == 1 and '"violated": true' in out:
            return {"reproduced": True, "scenario": "random_histories", "command": f"PYTHONPATH={REPO}/src {PY} {ROOT}/replay/random_histories.py {prop} {seed} 8000", "output": out[-1500:], "tried": tried}
    return {"reproduced": False, "tried": tried, "note": "no native scenario of the families tried fails on this tree; the failed obligation and the verifier's counter-model are above"}


def rerun_known(findings, prop):
    out = []
    for f in findings:
        if prop in f["properties"] and f.get("native_replay"):
            code, o = run_native(f["native_replay"])
            want = 1 if f.get("status") == "open" else 0
            out.append({"finding": f["id"], "status": f.get("status"), "script": f["native_replay"], "exit": code, "as_expected": code == want, "output": o[-600:]})
    return out


def bounded_monitor(prop, seed):
    code, out = run_native("replay/monitor.py", [prop, str(seed)], timeout=600, full=True)
    try:
        doc = json.loads(out[out.index("{"): out.rindex("}") + 1])
    except Exception:
        doc = {"output": out[-800:]}
    doc["exit"] = code
    doc["bounded"] = True
    return doc


def assumed_contract_monitor():
    """bounded cross-check of the assumed dependency contracts against the real interpreter (never counted as proof)"""
    code, out = run_native("replay/assumed_contracts.py", timeout=600, full=True)
    try:
        doc = json.loads(out[out.index("{"): out.rindex("}") + 1])
        doc["clauses"] = [{"name": c["name"], "evaluations": c["evaluations"], "failures": c["failures"]} for c in doc["clauses"]]
    except Exception:
        doc = {"output": out[-800:]}
    doc["exit"] = code
    # the reference implementation of Future/Task (verified from source) against the accelerator that normally runs
    code2, out2 = run_native("replay/pytask_crosscheck.py", [os.environ.get("VERIF_SEED", "0") or "0", "5000"], timeout=900, full=True)
    try:
        d2 = json.loads(out2[out2.index("{"): out2.rindex("}") + 1])
    except Exception:
        d2 = {"output": out2[-800:]}
    d2["exit"] = code2
    doc["reference_vs_accelerator(Future/Task)"] = d2
    if code2 == 1:
        doc["refuted"] = list(doc.get("refuted") or []) + ["the C accelerator of Future/Task and the reference implementation differ on a history: " + out2[:600]]
    return doc
