"""stand-in pool class with *concrete* (non-postponed) annotations for the control-session scenario"""
import asyncio


class Dummy:
    def __init__(self):
        self.calls = []
        self._limit = 3

    def __str__(self):
        return "Dummy-7"

    def add(self, a: int, b: int = 2) -> int:
        """Adds two numbers."""
        self.calls.append(("add", a, b))
        return a + b

    def nothing(self) -> None:
        """Returns nothing."""
        self.calls.append(("nothing",))

    def empty(self) -> list:
        """Returns an empty list."""
        self.calls.append(("empty",))
        return []

    def many(self, *values: int, sep: str = ",") -> str:
        """Joins values."""
        self.calls.append(("many", values, sep))
        return sep.join(str(v) for v in values)

    def big(self) -> str:
        """Returns a large string."""
        return "x" * 120000

    async def wait_boom(self, flag: bool = False) -> None:
        """Raises after waiting."""
        self.calls.append(("wait_boom", flag))
        await asyncio.sleep(0)
        raise RuntimeError("boom")

    @staticmethod
    def clamp(value: int, low: int = 0) -> int:
        """Clamps a value from below."""
        return max(value, low)

    def _private(self) -> None:
        pass

    @property
    def limit(self) -> int:
        """The limit."""
        return self._limit

    @limit.setter
    def limit(self, value: int) -> None:
        """Sets the limit."""
        if value < 0:
            raise ValueError("negative")
        self._limit = value


class Echo:
    """second stand-in (concrete annotations): echoes its words, returns empty / None / raising results"""

    def __init__(self):
        self.seen = []

    def __str__(self):
        return "P"

    def echo(self, *words: str, sep: str = "|") -> str:
        """Echo."""
        self.seen.append(words)
        return sep.join(words)

    def blank(self) -> str:
        """Returns the empty string."""
        return ""

    def nothing(self) -> None:
        """Returns None."""

    def empty(self) -> list:
        """Returns []."""
        return []

    def boom(self) -> None:
        """Raises an exception without a message."""
        raise RuntimeError

    @property
    def level(self) -> int:
        """Level."""
        return 0

    @level.setter
    def level(self, value: int) -> None:
        if value < 0:
            raise ValueError
