#!/usr/bin/env python3-vt
"""show.py <replay file>: prints the failed obligation and re-runs its native scenario (if one was found)"""
import json, subprocess, sys
doc = json.load(open(sys.argv[1]))
print(json.dumps({k: doc[k] for k in ("property", "unit", "obligation", "path", "baseline")}, indent=1))
nat = doc.get("native_replay", {})
if nat.get("reproduced"):
    print("re-running:", nat["command"])
    sys.exit(subprocess.call(nat["command"], shell=True))
print("no native failing history was found for this obligation; verifier output:")
print(json.dumps(doc.get("verifier"), indent=1)[:4000])
sys.exit(1)
