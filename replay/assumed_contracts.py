"""Bounded cross-check of the ASSUMED dependency contracts (DESIGN 3.6) against the interpreter that runs the
package (CPython under /venv): asyncio.Semaphore as the transition system of DESIGN A.1, the Task contract T1-T5,
gather, Event, Queue.  The pool's own Semaphore class is replaced by a monitored subclass while the scenario
families run, so the contract is checked on exactly the call patterns the pool produces.

This is a *monitor* over finitely many histories: it can refute an assumed contract, it proves nothing and is never
counted towards `discharged`.  Prints JSON {checks: [{name, ok, detail}], transitions_checked}.  exit 1 = a contract
clause was refuted."""
import asyncio
import json
import os
import sys

sys.path.insert(0, os.path.dirname(os.path.dirname(os.path.abspath(__file__))))

CHECKS = []
STATS = {"semaphore_transitions": 0}


def check(name, ok, detail=""):
    CHECKS.append({"name": name, "ok": bool(ok), "detail": str(detail)[:200]})


class MonitoredSemaphore(asyncio.Semaphore):
    """abstraction (v, g, P): counter, granted-not-yet-resumed waiters, pending waiters; ghost `out` outstanding tokens"""

    def __init__(self, value=1):
        self._internal = 1
        self._out = 0
        super().__init__(value)
        self._size = value
        self._internal = 0

    # `_value` is also written directly by the pool_size setter: such a write re-defines the size (assumption U4)
    @property
    def _value(self):
        return self.__dict__["_v"]

    @_value.setter
    def _value(self, x):
        self.__dict__["_v"] = x
        if not self.__dict__.get("_internal"):
            self._size = x + self._out

    def _abs(self):
        ws = list(self._waiters or ())
        P = sum(1 for w in ws if not w.done())
        g = sum(1 for w in ws if w.done() and not w.cancelled())
        return self._value, g, P

    def _inv(self, where):
        v, g, P = self._abs()
        STATS["semaphore_transitions"] += 1
        if self._size != float("inf"):
            check(f"Semaphore:conservation v+g+out==size @{where}", v + g + self._out == self._size, (v, g, P, self._out, self._size))
        check(f"Semaphore:I12 pending waiters only when v==0 or a grant is in flight @{where}", (P == 0) or v == 0 or g > 0, (v, g, P))
        check(f"Semaphore:locked() <=> v==0 or live waiter @{where}", self.locked() == (v == 0 or P + g > 0), (v, g, P))

    async def acquire(self):
        v, g, P = self._abs()
        fast = v != 0 and P == 0 and g == 0
        check("Semaphore:acquire takes the fast path iff not locked()", fast == (not self.locked()), (v, g, P))
        self._internal += 1
        try:
            r = await super().acquire()
        except asyncio.CancelledError:
            self._internal -= 1
            self._inv("acquire-cancelled")
            raise
        self._internal -= 1
        self._out += 1
        if fast:
            check("Semaphore:fast path only decrements the counter", self._abs() == (v - 1, g, P), (self._abs(), (v, g, P)))
        self._inv("acquire-returned")
        return r

    def release(self):
        v, g, P = self._abs()
        self._internal += 1
        super().release()
        self._internal -= 1
        self._out -= 1
        want = (v, g + 1, P - 1) if P > 0 else (v + 1, g, P)
        check("Semaphore:release increments and grants to the first pending waiter", self._abs() == want, (self._abs(), want))
        self._inv("release")


async def task_contract():
    ran = []

    async def body():
        ran.append("started")
        try:
            await asyncio.sleep(3600)
        except asyncio.CancelledError:
            ran.append("cancelled-at-await")
            raise

    # T1: create_task runs nothing now
    t = asyncio.create_task(body())
    check("Task:T1 create_task runs no statement of the coroutine synchronously", ran == [])
    # T3: a task cancelled before its first step finishes cancelled without running any statement
    t.cancel()
    await asyncio.gather(t, return_exceptions=True)
    check("Task:T3 cancelled before the first step => coroutine never starts, task finishes cancelled", ran == [] and t.cancelled(), ran)
    # T4: a running task observes exactly one CancelledError at its current await
    ran.clear()
    t = asyncio.create_task(body())
    await asyncio.sleep(0)
    t.cancel()
    t.cancel()
    await asyncio.gather(t, return_exceptions=True)
    check("Task:T4 a started task gets one CancelledError at its current await (even if cancel() is called twice)", ran == ["started", "cancelled-at-await"], ran)
    # cancel() on a finished task is a no-op
    check("Task:cancel() on a done task returns False", t.cancel() is False)
    # T5: no spurious CancelledError
    async def quiet():
        await asyncio.sleep(0)
        return 1

    check("Task:T5 no spurious CancelledError", await asyncio.create_task(quiet()) == 1)


async def gather_contract():
    ev = asyncio.Event()
    state = {"slow_done": False}

    async def slow():
        await ev.wait()
        state["slow_done"] = True

    async def boom():
        raise ValueError("x")

    check("gather:empty returns at once", await asyncio.gather() == [])
    s = asyncio.create_task(slow())
    try:
        await asyncio.gather(s, asyncio.create_task(boom()))
        check("gather:return_exceptions=False raises the first child exception", False)
    except ValueError:
        check("gather:return_exceptions=False raises the first child exception while the others keep running", not s.done())
    never = asyncio.create_task(slow())
    never.cancel()  # cancelled before its first step
    s2 = asyncio.create_task(slow())
    try:
        await asyncio.gather(never, s2)
        check("gather:a child that finished cancelled raises CancelledError", False)
    except asyncio.CancelledError:
        check("gather:a child that finished cancelled makes gather raise CancelledError at once, the others keep running", not s2.done())
    res = await asyncio.gather(never, asyncio.create_task(boom()), return_exceptions=True)
    check("gather:return_exceptions=True never raises and returns the exceptions (CancelledError is not an Exception)",
          isinstance(res[0], asyncio.CancelledError) and not isinstance(res[0], Exception) and isinstance(res[1], ValueError))
    ev.set()
    await asyncio.gather(s, s2)
    check("gather:normal return => every child is done", s.done() and s2.done())
    # cancelling the awaiting task cancels the children
    ev2 = asyncio.Event()

    async def waiter():
        await ev2.wait()

    kids = [asyncio.create_task(waiter()) for _ in range(2)]
    async def awaiting():
        await asyncio.gather(*kids, return_exceptions=True)

    outer = asyncio.create_task(awaiting())
    await asyncio.sleep(0)
    outer.cancel()
    await asyncio.gather(outer, return_exceptions=True)
    await asyncio.sleep(0)
    check("gather:cancelling the awaiting task cancels every child", all(k.cancelled() for k in kids))


async def queue_contract():
    q = asyncio.Queue()
    q.put_nowait(1)
    check("Queue:put adds one item and one unfinished", q.qsize() == 1 and q._unfinished_tasks == 1)
    g = asyncio.create_task(q.get())
    await asyncio.sleep(0)
    check("Queue:get returns exactly one item", g.result() == 1 and q.qsize() == 0 and q._unfinished_tasks == 1)
    g2 = asyncio.create_task(q.get())
    await asyncio.sleep(0)
    g2.cancel()
    await asyncio.gather(g2, return_exceptions=True)
    q.put_nowait(2)
    check("Queue:a get() cancelled while waiting takes nothing", q.qsize() == 1)
    q.task_done()
    j = asyncio.create_task(q.join())
    await asyncio.sleep(0)
    check("Queue:join waits while unfinished > 0", not j.done())
    q.get_nowait()
    q.task_done()
    await asyncio.sleep(0)
    check("Queue:join returns when unfinished == 0", j.done())
    try:
        q.task_done()
        check("Queue:task_done at 0 raises ValueError", False)
    except ValueError:
        check("Queue:task_done at 0 raises ValueError", True)


def main():
    import asyncio_taskpool.pool as poolmod
    from replay import scenarios

    asyncio.run(task_contract())
    asyncio.run(gather_contract())
    asyncio.run(queue_contract())
    poolmod.Semaphore = MonitoredSemaphore  # the pool (and map calls) now build monitored semaphores
    names = ["lifecycle_mix", "blocked_spawners", "group_cancel", "exception_in_body_map", "slow_callbacks_flush", "close", "stop_lifo", "cancelled_flush"]
    for n in names:
        try:
            asyncio.run(asyncio.wait_for(scenarios.SCENARIOS[n](), 60))
        except Exception as e:  # the scenario oracles are not the point here
            check(f"scenario {n} ran under the monitor", False, repr(e))
    # de-duplicate (one line per clause with a failure count)
    agg = {}
    for c in CHECKS:
        a = agg.setdefault(c["name"], {"name": c["name"], "evaluations": 0, "failures": 0, "first_failure": ""})
        a["evaluations"] += 1
        if not c["ok"]:
            a["failures"] += 1
            a["first_failure"] = a["first_failure"] or c["detail"]
    out = sorted(agg.values(), key=lambda a: a["name"])
    bad = [a for a in out if a["failures"]]
    print(json.dumps({"bounded": True, "clauses": out, "semaphore_transitions_checked": STATS["semaphore_transitions"], "refuted": [a["name"] for a in bad]}))
    return 1 if bad else 0


if __name__ == "__main__":
    sys.exit(main())
