"""Bounded stand-in of last resort for the control properties (C16-C18): seeded random pool-like classes (evaluated annotations;
the shipped classes cannot be served on this tree - known finding F6) served through the REAL ControlSession / ControlParser,
random command lines (well-formed over every parameter kind the contract names, and malformed), and the observable oracles:

  C16  the handshake answers the pool's name; exactly the public methods/properties are commands, underscores as dashes;
       `<command> -h` is answered with a usage text naming the command
  C17  a well-formed command has exactly the effect of the direct call on a twin object with the converted arguments
       (ints, strs, floats, flags, repeated positionals, literal containers, dotted-path functions, omitted options taking
       the method's defaults); the reply is 'ok' for None, else str(result) / str(exception)
  C18  exactly one non-empty reply per non-blank line, no exception escapes, nothing is printed on the server's
       stdout/stderr, malformed lines call no method

    usage: random_commands.py <C16|C17|C18|all> [seed] [classes]        (under /venv/bin/python, PYTHONPATH=<repo>/src)
    exit 0 = no oracle violated, 1 = a violation (printed as JSON with the class source and the lines), 2 = harness crash
Testing, not proof: used when the deductive check is undecided, and as a monitor in the thorough tier; never counted as
discharged.  Bound: `classes` classes (default 100) of <= 6 members with <= 4 parameters, <= 14 lines per session."""


import asyncio
import contextlib
import io
import json
import logging
import random
import sys
from typing import List
from unittest.mock import MagicMock

KINDS = ("int", "int_opt", "str", "str_opt", "float_opt", "flag", "flag_true", "varargs", "kwonly_str", "literal", "dotted")
PRELUDE = """
import asyncio, math
from typing import Any, Iterable
from asyncio_taskpool.internals.types import ArgsT, KwArgsT, EndCB, CancelCB, AnyCoroutineFunc
"""
WORDS = ["alpha", "b", "zz", "x1", "Q", "mid_dle", "no-dash", "7up", "o.k", "UP", "a\tb", "nb\u00a0sp", "", "tab\t", "\x0bvt"]
DOTTED = ["math.sqrt", "math.floor", "os.path.join", "json.dumps", "asyncio.sleep"]
LITERALS = ["(1,2)", "[1,2,3]", "{'a':1}", "()", "[]", "('x',)"]


class Member:
    def __init__(self, name, kind, params, ret, is_async, static):
        self.name, self.kind, self.params, self.ret, self.is_async, self.static = name, kind, params, ret, is_async, static


def gen_class(rnd: random.Random, n: int):
    names = rnd.sample(["run", "do_it", "fetch_all", "x", "make", "size_of", "heat_up", "go", "list_things", "a_b_c", "handle", "High"], rnd.randint(2, 6))
    members: List[Member] = []
    src = [f"class P{n}:", "    def __init__(self):", "        self.calls = []", "        self._val = 3", "    def __str__(self):", f"        return 'P-{n}'",
           "    def _hidden(self, a: int) -> int:", "        return a", "    def __private(self):", "        pass"]
    for nm in names:
        if rnd.random() < 0.2:
            # a property, with or without setter
            has_setter = rnd.random() < 0.6
            members.append(Member(nm, "property", [("value", "int")] if has_setter else [], "value", False, False))
            src += ["    @property", f"    def {nm}(self) -> int:", f"        '''The {nm}.'''", f"        self.calls.append(('{nm}.get',))", "        return self._val"]
            if has_setter:
                src += [f"    @{nm}.setter", f"    def {nm}(self, value: int) -> None:", f"        self.calls.append(('{nm}.set', value))", "        if value == 13:", "            raise ValueError('unlucky')", "        self._val = value"]
            continue
        params = []
        pool_kinds = list(KINDS)
        seen_var = False
        used = set()
        for _ in range(rnd.randint(0, 4)):
            k = rnd.choice(pool_kinds)
            if k == "varargs":
                if seen_var:
                    continue
                seen_var = True
            pname = rnd.choice([p for p in ["count", "text", "ratio", "deep", "items", "target", "extra", "mode", "key", "value_in", "s", "f", "el", "hot", "lf"] if p not in used])
            used.add(pname)
            params.append((pname, k))
        # python signature order: required positionals, optional positionals, *args, keyword-only
        req = [p for p in params if p[1] in ("int", "str", "literal", "dotted")]
        opt = [p for p in params if p[1] in ("int_opt", "str_opt", "float_opt", "flag", "flag_true")]
        var = [p for p in params if p[1] == "varargs"]
        kwo = [p for p in params if p[1] == "kwonly_str"]
        if kwo and not var:
            opt += kwo
            kwo = []
        params = req + opt + var + kwo
        ret = rnd.choice(["none", "tuple", "str", "raise", "int", "empty", "raise_empty", "big"] if rnd.random() < 0.35 else ["none", "tuple", "str", "raise", "int"])
        is_async = rnd.random() < 0.3
        static = rnd.random() < 0.15
        sig = [] if static else ["self"]
        for pname, k in params:
            sig.append({"int": f"{pname}: int", "str": f"{pname}: str", "literal": f"{pname}: ArgsT", "dotted": f"{pname}: EndCB", "int_opt": f"{pname}: int = 5", "str_opt": f"{pname}: str = 'dflt'",
                        "float_opt": f"{pname}: float = 0.5", "flag": f"{pname}: bool = False", "flag_true": f"{pname}: bool = True", "varargs": f"*{pname}: int", "kwonly_str": f"{pname}: str = 'kw'"}[k])
        rec = "(" + ", ".join([repr(nm)] + [(f"getattr({p}, '__name__', {p})" if k == "dotted" else p) for p, k in params]) + ",)"
        body = rnd.choice([[f"        '''Does {nm}.", "", "        Longer text.'''"], ["        ''''''"], [], [f"        '''{nm} in one line.'''"]])
        body.append(f"        rec = {rec}")
        body.append("        CALLS.append(rec)" if static else "        self.calls.append(rec)")
        if is_async:
            body.append("        await asyncio.sleep(0)")
        body.append({"none": "        return None", "tuple": "        return rec[1:]", "str": "        return '<' + str(len(rec)) + '>'", "raise": "        raise KeyError('no ' + str(rec[1:]))", "int": "        return len(rec) - 1", "empty": "        return ''", "raise_empty": "        raise ValueError()", "big": "        return 'x' * 120000"}[ret])
        if static:
            src.append("    @staticmethod")
        src.append(f"    {'async ' if is_async else ''}def {nm}({', '.join(sig)}):")
        src += body
        members.append(Member(nm, "method", params, ret, is_async, static))
    return "\n".join(src) + "\n", members


def gen_value(rnd, kind):
    if kind in ("int", "int_opt", "varargs"):
        return str(rnd.randint(0, 99)), None
    if kind in ("str", "str_opt", "kwonly_str"):
        return rnd.choice(WORDS), None
    if kind == "float_opt":
        return rnd.choice(["1.5", "2", "0.25"]), None
    if kind == "literal":
        return rnd.choice(LITERALS), None
    if kind == "dotted":
        return rnd.choice(DOTTED), None
    raise ValueError(kind)


def py_value(kind, tok):
    import ast
    import importlib

    if kind in ("int", "int_opt", "varargs"):
        return int(tok)
    if kind == "float_opt":
        return float(tok)
    if kind == "literal":
        return ast.literal_eval(tok)
    if kind == "dotted":
        parts = tok.split(".")
        obj = importlib.import_module(parts[0])
        for p in parts[1:]:
            try:
                obj = getattr(obj, p)
            except AttributeError:
                obj = importlib.import_module(obj.__name__ + "." + p)
        return obj
    return tok


def gen_line(rnd: random.Random, m: Member):
    """-> (line, call) where call is None for a malformed line, ('get',) / ('set', v) / (args, kwargs) otherwise"""
    cmd = m.name.replace("_", "-")
    if m.kind == "property":
        if m.params and rnd.random() < 0.5:
            v = rnd.choice([1, 7, 13, 40])
            return f"{cmd} {v}", ("set", v)
        return cmd, ("get",)
    toks, args, kwargs = [cmd], [], {}
    opts = []
    for pname, k in m.params:
        if k in ("int", "str", "literal", "dotted"):
            t, _ = gen_value(rnd, k)
            toks.append(t)
            args.append(py_value(k, t))
        elif k == "varargs":
            vals = [gen_value(rnd, k)[0] for _ in range(rnd.randint(0, 3))]
            toks += vals
            kwargs[("*", pname)] = [int(v) for v in vals]
        elif k in ("flag", "flag_true"):
            # a bool parameter whose default is True is outside C17 (parser.py documents that the parser default is False then;
            # the shipped classes have no such parameter): the flag is always given for it, so both readings agree
            if k == "flag_true" or rnd.random() < 0.5:
                opts.append([f"--{pname.replace('_', '-')}"])
                kwargs[pname] = True
        else:
            if rnd.random() < 0.6:
                t, _ = gen_value(rnd, k)
                opts.append([f"--{pname.replace('_', '-')}", t])
                kwargs[pname] = py_value(k, t)
    rnd.shuffle(opts)
    # options after the positionals (an option directly before a `*` positional would swallow nothing but reads ambiguously)
    for o in opts:
        toks += o
    if len(toks) > 1 and (toks[-1] == "" or toks[-1] != toks[-1].strip()):
        return gen_line(rnd, m)  # a value with outer white space (or the empty string) cannot be the last token: the line is stripped
    return " ".join(toks), (args, kwargs)


def malformed(rnd: random.Random, members: List[Member]):
    m = rnd.choice(members)
    cmd = m.name.replace("_", "-")
    return rnd.choice(["nope", "-x", cmd + " --no-such-option 1", cmd + " 1 2 3 4 5 6 7 8 x", "???", cmd.upper() + "!", "'", "\\", "help", "-h", cmd + " -h", m.name + "_", "--" + cmd,
                       cmd + " notanumber" if any(k == "int" for _p, k in m.params) else cmd + " --zzz",
                       cmd + " ==SUPPRESS==" if (m.kind == "property" and m.params) or (m.params and m.params[0][1] == "int") else cmd + " --yyy"])


async def direct(obj, m: Member, call):
    CMD_OK = "ok"  # the reply the property names
    try:
        if call[0] == "get":
            out = getattr(obj, m.name)
        elif call[0] == "set":
            setattr(obj, m.name, call[1])
            out = None
        else:
            import inspect

            args, kwargs = call
            args = list(args)
            f = getattr(obj, m.name)
            pos, var, kw = [], [], {}
            for p_ in inspect.signature(f).parameters.values():
                if p_.kind == p_.VAR_POSITIONAL:
                    var = kwargs.get(("*", p_.name), [])
                elif p_.kind == p_.KEYWORD_ONLY:
                    if p_.name in kwargs:
                        kw[p_.name] = kwargs[p_.name]
                elif p_.default is p_.empty:
                    pos.append(args.pop(0))
                else:
                    pos.append(kwargs.get(p_.name, p_.default))  # an omitted option takes the method's own default
            out = f(*pos, *var, **kw)
            if m.is_async:
                out = await out
    except Exception as e:
        return str(e)
    return CMD_OK if out is None else str(out)


async def one(seed: int):
    from asyncio_taskpool.control.session import ControlSession

    rnd = random.Random(seed)
    src, members = gen_class(rnd, seed % 1000)
    ns_a, ns_b = {"CALLS": []}, {"CALLS": []}
    exec(PRELUDE + src, ns_a)
    exec(PRELUDE + src, ns_b)
    cls_a, cls_b = ns_a[f"P{seed % 1000}"], ns_b[f"P{seed % 1000}"]
    pool, twin = cls_a(), cls_b()
    lines, calls = [], []
    for _ in range(rnd.randint(4, 14)):
        if rnd.random() < 0.3:
            lines.append(malformed(rnd, members))
            calls.append(None)
        else:
            m = rnd.choice(members)
            ln, c = gen_line(rnd, m)
            lines.append(ln)
            calls.append((m, c))
    bigs = [m for m in members if m.kind == "method" and m.ret == "big" and not any(k in ("int", "str", "literal", "dotted") for _p, k in m.params)]
    if bigs:
        # a very large reply followed by help requests (each reply must carry only its own output)
        m = bigs[0]
        ln, c = gen_line(rnd, m)
        lines += [ln, "-h", m.name.replace("_", "-") + " -h"]
        calls += [(m, c), None, None]
    viol = []

    def v(props, what):
        viol.append({"props": props, "what": what})

    width = rnd.choice([20, 80, 200])
    feed = [json.dumps({"terminal_width": width}).encode() + b"\n"] + [l.encode() + b"\n" for l in lines] + [b""]
    sent: List[bytes] = []

    async def readline():
        return feed.pop(0)

    async def drain():
        return None

    reader = MagicMock(readline=readline)
    writer = MagicMock(write=sent.append, drain=drain)
    server = MagicMock(pool=pool, client_class_name="X", is_serving=lambda: True)
    out, err = io.StringIO(), io.StringIO()
    session = ControlSession(server, reader, writer)
    crashed = None
    second = rnd.random() < 0.35
    sent2: List[bytes] = []
    lines2 = [rnd.choice(members).name.replace("_", "-") + " -h", "nope", "-h"]
    with contextlib.redirect_stdout(out), contextlib.redirect_stderr(err):
        try:
            await session.client_handshake()
            if second:
                # another client of the same pool, same terminal width, connects before the first one talks
                feed2 = [json.dumps({"terminal_width": width}).encode() + b"\n"] + [l.encode() + b"\n" for l in lines2] + [b""]

                async def readline2():
                    return feed2.pop(0)

                session2 = ControlSession(MagicMock(pool=cls_a(), client_class_name="Y", is_serving=lambda: True), MagicMock(readline=readline2), MagicMock(write=sent2.append, drain=drain))
                await session2.client_handshake()
            if session._parser is not None:
                await session.listen()
            if second and session2._parser is not None:
                await session2.listen()
        except BaseException as e:  # noqa
            crashed = e
    if second and crashed is None:
        rep2 = [b.decode() for b in sent2[1:]]
        if len(rep2) != len(lines2) or any(not r.strip() for r in rep2):
            v(["C18", "C16"], f"second session on the same class and width: {len(lines2)} lines sent, replies {[r[:30] for r in rep2]}")
        elif lines2[0].split()[0] not in rep2[0]:
            v(["C16", "C18"], f"second session: help request {lines2[0]!r} answered {rep2[0][:80]!r}")
    if crashed is not None:
        in_handshake = len(sent) == 0
        v(["C16"] if in_handshake else ["C18", "C17"], f"an exception escaped the session {'during the handshake' if in_handshake else f'after {len(sent) - 1} replies'}: {type(crashed).__name__}: {crashed}")
    if not sent or sent[0] != f"P-{seed % 1000}\n".encode():
        v(["C16"], f"handshake reply is {sent[:1]}, expected the pool's name")
    cmds = set(session._parser._commands.choices) if session._parser is not None and session._parser._commands else set()
    want = {m.name.replace("_", "-") for m in members}
    if cmds != want:
        v(["C16"], f"commands exposed: {sorted(cmds)}, expected {sorted(want)}")
    replies = [b.decode() for b in sent[1:]]
    nonblank = [l for l in lines if l.strip()]
    if crashed is None and len(replies) != len(nonblank):
        v(["C18"], f"{len(nonblank)} non-blank lines sent, {len(replies)} replies written")
    it = iter(replies)
    for line, c in zip(lines, calls):
        if not line.strip():
            continue
        rep = next(it, None)
        if rep is None:
            break
        if not rep.endswith("\n"):
            v(["C18"], f"reply to {line!r} is not a line: {rep[-20:]!r}")
            continue
        if c is None and not rep.strip():
            v(["C16", "C18"] if line.split()[-1:] == ["-h"] else ["C18"], f"the malformed line / help request {line!r} is answered with an empty message")
            continue
        if c is None:
            if line.strip().endswith(" -h") and line.split()[0] in want and (line.split()[0] not in rep or len(rep) > 20000):
                v(["C16", "C18"], f"help request {line!r} answered {rep[:80]!r} ({len(rep)} characters)")
            if line.strip() == "-h" and ("usage" not in rep.lower() or len(rep) > 20000):
                v(["C16", "C18"], f"help request '-h' answered {rep[:80]!r} ({len(rep)} characters)")
            continue
        m, call = c
        exp = await direct(twin, m, call)
        if rep != exp + "\n":
            # a well-formed command that the parser itself refuses means the command is not really available (C16 as well)
            v(["C17", "C16"] if rep.startswith("usage:") else ["C17"], f"reply to {line!r} is {rep[:80]!r}, the direct call gives {exp[:80]!r}")
    eff_a, eff_b = pool.calls + ns_a["CALLS"], twin.calls + ns_b["CALLS"]
    if crashed is None and eff_a != eff_b:
        k0 = next((i for i, (a, b) in enumerate(zip(eff_a, eff_b)) if a != b), min(len(eff_a), len(eff_b)))
        v(["C17", "C18"], f"effects differ from the direct calls at position {k0}: {eff_a[k0:k0 + 3]} vs {eff_b[k0:k0 + 3]} ({len(eff_a)} vs {len(eff_b)} calls)")
    if out.getvalue() or err.getvalue():
        v(["C18"], f"the session printed on stdout/stderr: {(out.getvalue() + err.getvalue())[:100]!r}")
    return src, lines, viol


def main():
    prop = sys.argv[1] if len(sys.argv) > 1 else "all"
    seed0 = int(sys.argv[2]) if len(sys.argv) > 2 else 0
    n = int(sys.argv[3]) if len(sys.argv) > 3 else 100
    logging.disable(logging.CRITICAL)
    for k in range(n):
        seed = seed0 * 100003 + k
        loop = asyncio.new_event_loop()
        try:
            src, lines, viol = loop.run_until_complete(asyncio.wait_for(one(seed), 60))
        finally:
            loop.close()
        mine = [x for x in viol if prop == "all" or prop in x["props"]]
        if mine:
            print(json.dumps({"violated": True, "property": prop, "seed": seed, "class": src, "lines": lines, "violations": mine[:3], "classes_tried": k + 1}))
            return 1
    print(json.dumps({"violated": False, "property": prop, "classes": n, "bound": "<=6 members, <=4 parameters each, <=14 lines per session"}))
    return 0


if __name__ == "__main__":
    try:
        rc = main()
    except BaseException as e:  # noqa: BLE001 - a crash of the harness is never a verdict
        import traceback

        print(json.dumps({"violated": False, "harness_crash": f"{type(e).__name__}: {e}", "traceback": traceback.format_exc(limit=4)[-800:]}))
        rc = 2
    sys.exit(rc)
