"""Bounded cross-check of the one assumption the Future/Task units leave open: "the C accelerator `_asyncio.Future/Task`
that normally runs behaves like the reference implementation `asyncio.futures._PyFuture` / `asyncio.tasks._PyTask`"
(the classes verified from source by spec/asyncio_units2.py).

The seeded random histories of replay/random_histories.py are run twice against the REAL pool - once on the
interpreter's default classes, once with the reference classes patched in (tasks created by the loop, futures created by
`loop.create_future`, hence the waiters of Semaphore / Event / Queue) - and the complete observable logs and oracle verdicts
are compared.

    usage: pytask_crosscheck.py [seed] [histories]         (under /venv/bin/python, PYTHONPATH=<repo>/src)
    exit 0 = identical on every history; 1 = a history on which the two implementations differ (printed); 2 = harness crash
Testing, not proof; thorough tier only."""
from __future__ import annotations

import asyncio
import asyncio.base_events
import asyncio.futures
import asyncio.tasks
import json
import logging
import os
import sys

sys.path.insert(0, os.path.dirname(os.path.abspath(__file__)))
import random_histories as rh  # noqa: E402

C_TASK, C_FUT = asyncio.tasks.Task, asyncio.futures.Future
PY_TASK, PY_FUT = asyncio.tasks._PyTask, asyncio.futures._PyFuture


def patch(py: bool):
    t, f = (PY_TASK, PY_FUT) if py else (C_TASK, C_FUT)
    asyncio.tasks.Task = asyncio.Task = t
    asyncio.futures.Future = asyncio.Future = f
    asyncio.base_events.tasks.Task = t
    asyncio.base_events.futures.Future = f


def run_one(seed: int, py: bool):
    patch(py)
    loop = asyncio.new_event_loop()
    loop.set_exception_handler(lambda *_a: None)
    kinds = set()
    if py:
        orig = loop.create_task

        def create_task(coro, **kw):
            t = orig(coro, **kw)
            kinds.add(type(t).__module__ + "." + type(t).__qualname__)
            return t

        loop.create_task = create_task
    try:
        h = loop.run_until_complete(rh.one(seed))
        loop.run_until_complete(asyncio.sleep(0))
    finally:
        loop.close()
        patch(False)
    return h, kinds


def main():
    seed0 = int(sys.argv[1]) if len(sys.argv) > 1 else 0
    n = int(sys.argv[2]) if len(sys.argv) > 2 else 300
    logging.disable(logging.CRITICAL)
    used_py = set()
    for k in range(n):
        seed = seed0 * 100003 + k
        hc, _ = run_one(seed, False)
        hp, kinds = run_one(seed, True)
        used_py |= kinds
        a = json.dumps({"log": hc.log, "viol": hc.viol}, sort_keys=True, default=str)
        b = json.dumps({"log": hp.log, "viol": hp.viol}, sort_keys=True, default=str)
        if a != b:
            print(json.dumps({"identical": False, "seed": seed, "accelerator": json.loads(a), "reference": json.loads(b), "histories_tried": k + 1}))
            return 1
    ok = used_py == {"asyncio.tasks.Task"} and PY_TASK is not C_TASK
    print(json.dumps({"identical": True, "histories": n, "reference_classes_really_used": ok, "task_classes_seen_in_reference_runs": sorted(used_py),
                      "accelerator_present": PY_TASK is not C_TASK, "bound": "<=14 operations per history, pools of size 1/2/3/unbounded"}))
    return 0 if ok or PY_TASK is C_TASK else 2


if __name__ == "__main__":
    try:
        rc = main()
    except BaseException as e:  # noqa: BLE001 - a crash of the harness is never a verdict
        print(json.dumps({"identical": None, "harness_crash": f"{type(e).__name__}: {e}"}))
        rc = 2
    sys.exit(rc)
