"""Exhaustive enumeration over the *finite* command surface of the two shipped pool classes (C16, C17): runs the
real ControlParser.add_class_commands / ControlSession.client_handshake with run-time contracts wrapped around
the real functions (sidecar, nothing in /repo is edited) and checks, for EVERY member returned by getmembers and
EVERY parameter of every exposed member, the clauses of the properties.  Prints JSON: a list of obligations
{name, verdict: proved|failed, detail}.  Run under /venv/bin/python with PYTHONPATH=<repo>/src."""
import asyncio
import inspect
import io
import json
import sys
from inspect import Parameter, getmembers, isfunction, signature
from unittest.mock import AsyncMock, MagicMock

from asyncio_taskpool import SimpleTaskPool, TaskPool
from asyncio_taskpool.control import parser as parser_mod
from asyncio_taskpool.control.parser import ControlParser
from asyncio_taskpool.control.session import ControlSession
from asyncio_taskpool.exceptions import HelpRequested, ParserError

OBL = []


C17_CLAUSES = ("registered", "positional-iff-no-default", "long-option", "repeated-positional", "flag-for-bool", "omitted-option", "getter-does-not-return-None")


def ob(name, ok, detail=""):
    props = ["C17"] if any(c in name for c in C17_CLAUSES) else ["C16"]
    if "converter-precondition" in name:
        props = ["C16", "C17"]
    OBL.append({"name": "enum:" + name, "verdict": "proved" if ok else "failed", "detail": str(detail)[:300], "props": props})


def build(cls, width=80):
    """real add_class_commands with a contract on _get_arg_type_wrapper: its precondition (the converter class is a
    callable with a __name__) is checked for every parameter; on a violation the violation is recorded and a
    pass-through converter is substituted so that the enumeration can go on"""
    violations = []
    real = parser_mod._get_arg_type_wrapper

    def checked(c):
        if callable(c) and hasattr(c, "__name__"):
            return real(c)
        violations.append(c)

        def passthrough(arg):
            return arg

        passthrough.__name__ = str(c)
        return passthrough

    parser_mod._get_arg_type_wrapper = checked
    try:
        stream = io.StringIO()
        p = ControlParser(stream=stream, terminal_width=width, prog="", usage="x")
        p.add_subparsers(title="Commands")
        parsers = p.add_class_commands(cls)
    finally:
        parser_mod._get_arg_type_wrapper = real
    return p, parsers, stream, violations


def enumerate_class(cls):
    cn = cls.__name__
    # (0) the real thing, unshimmed: can the class be served at all?
    try:
        stream = io.StringIO()
        p0 = ControlParser(stream=stream, terminal_width=80, prog="", usage="x")
        p0.add_subparsers(title="Commands")
        p0.add_class_commands(cls)
        ob(f"{cn}:add_class_commands:converter-precondition:no-error", True)
    except Exception as e:
        ob(f"{cn}:add_class_commands:converter-precondition:no-error", False, f"{type(e).__name__}: {e}")
    p, parsers, stream, _v = build(cls)
    members = getmembers(cls)
    for name, member in members:
        public = not name.startswith("_")
        kind = "function" if isfunction(member) else ("property" if isinstance(member, property) else None)
        should = public and kind is not None
        ob(f"{cn}.{name}:exposed-iff-public-method-or-property", (name in parsers) == should, f"exposed={name in parsers} public={public} kind={kind}")
        if not should or name not in parsers:
            continue
        cmd = name.replace("_", "-")
        sub = parsers[name]
        choices = p._commands.choices
        ob(f"{cn}.{name}:command-name-is-member-name-with-dashes", cmd in choices and choices[cmd] is sub, sorted(choices)[:5])
        ob(f"{cn}.{name}:command-maps-back-to-the-member", sub.get_default("command") is member)
        # -h / --help describe the command and go to the session stream, not to stdout
        for flag in ("-h", "--help"):
            stream.seek(0)
            stream.truncate()
            try:
                p.parse_args([cmd, flag])
                ob(f"{cn}.{name}:{flag}:raises-HelpRequested", False, "returned")
            except HelpRequested:
                ob(f"{cn}.{name}:{flag}:raises-HelpRequested", True)
            except Exception as e:
                ob(f"{cn}.{name}:{flag}:raises-HelpRequested", False, f"{type(e).__name__}")
            ob(f"{cn}.{name}:{flag}:help-text-written-to-the-session-stream", cmd in stream.getvalue())
        # per-parameter registration contract
        if kind == "function":
            params = [q for q in signature(member).parameters.values() if q.name != "self"]
        else:
            params = []
            if member.fset is not None:
                params = list(signature(member.fset).parameters.values())[1:]
        actions = {a.dest: a for a in sub._actions}
        for q in params:
            a = actions.get(q.name)
            key = f"{cn}.{name}.{q.name}"
            ob(f"{key}:registered", a is not None)
            if a is None:
                continue
            ann = q.annotation
            if kind == "function":
                positional = q.default is Parameter.empty
                ob(f"{key}:positional-iff-no-default", (not a.option_strings) == positional, a.option_strings)
                if not positional:
                    ob(f"{key}:long-option-is-the-dashed-name", f"--{q.name.replace('_', '-')}" in a.option_strings, a.option_strings)
                if q.kind == Parameter.VAR_POSITIONAL:
                    ob(f"{key}:repeated-positional(nargs=*)", a.nargs == "*", a.nargs)
                is_bool = ann is bool or ann == "bool"
                if is_bool and not positional:
                    ob(f"{key}:flag-for-bool(store_true)", type(a).__name__ == "_StoreTrueAction", type(a).__name__)
                elif not positional:
                    ob(f"{key}:omitted-option-takes-the-method's-default", a.default == q.default or (a.default is q.default), (a.default, q.default))
            if ann is not Parameter.empty:
                ob(f"{key}:converter-precondition:annotation-is-a-callable-class", callable(ann) and hasattr(ann, "__name__"), repr(ann))


def handshake(cls):
    async def run():
        pool = cls(asyncio.sleep) if cls is SimpleTaskPool else cls()
        server = MagicMock(pool=pool, client_class_name="X")
        reader = MagicMock(readline=AsyncMock(return_value=json.dumps({"terminal_width": 80}).encode() + b"\n"))
        writer = MagicMock(drain=AsyncMock())
        session = ControlSession(server, reader, writer)
        await session.client_handshake()
        return writer.write.call_args[0][0], str(pool)

    try:
        sent, name = asyncio.run(run())
        ob(f"{cls.__name__}:handshake:succeeds-and-sends-the-pool-name", sent == name.encode() + b"\n", sent)
    except Exception as e:
        ob(f"{cls.__name__}:handshake:succeeds-and-sends-the-pool-name:converter-precondition", False, f"{type(e).__name__}: {e}")


def getters_never_none(cls):
    """domain fact used by the deductive unit _exec_property_and_respond[get]: property getters of the shipped classes do not return None"""
    pool = cls(asyncio.sleep) if cls is SimpleTaskPool else cls()
    for name, member in getmembers(cls):
        if isinstance(member, property) and not name.startswith("_"):
            ob(f"{cls.__name__}.{name}:getter-does-not-return-None", member.fget(pool) is not None)


def main():
    for cls in (TaskPool, SimpleTaskPool):
        enumerate_class(cls)
        handshake(cls)
        getters_never_none(cls)
    print(json.dumps({"exhaustive": True, "domain": "every member of TaskPool and SimpleTaskPool x every parameter of every exposed member", "obligations": OBL}))


if __name__ == "__main__":
    main()
