"""Bounded stand-in of last resort for the pool properties (C01-C15): seeded random histories of public-API operations
against the REAL pool, with gate-controlled task bodies and the observable oracles of the properties.

    usage: random_histories.py <property id|all> [seed] [histories]      (run under /venv/bin/python, PYTHONPATH=<repo>/src)
    exit 0 = no oracle violated, 1 = a violation (first one printed as JSON with the history that produced it), 2 = harness crash

Bound (stated in the evidence): `histories` histories (default 150) of <= 14 operations on pools of size 1, 2, 3 or unbounded,
<= 3 invocations per apply/start, <= 4 elements per map.  Every history avoids the triggers of the OPEN known findings so that
a violation here is a new one: F1 (a task is only cancelled after it took its first step), F3 (no lock()/gather_and_close()
while an apply()/start() spawner is still spawning), F5 (pool_size is not assigned while tasks are in flight).
This is testing, not proof: it is used only when the deductive check is undecided, and never counted as discharged."""
from __future__ import annotations

import asyncio
import json
import os
import random
import sys
from typing import Dict, List


async def drain(n: int = 12):
    for _ in range(n):
        await asyncio.sleep(0)


class Req:
    def __init__(self, kind, group, n, args):
        self.kind, self.group, self.n, self.args = kind, group, n, args
        self.started: List = []  # arguments of the invocations that began, in order
        self.cancelled = False
        self.ids: List[int] = []


class H:
    """one history"""

    def __init__(self, rnd: random.Random, simple: bool, size):
        from asyncio_taskpool import SimpleTaskPool, TaskPool

        self.rnd, self.simple, self.size = rnd, simple, size
        self.log: List[str] = []
        self.viol: List[dict] = []
        self.reqs: List[Req] = []
        self.gates: Dict[int, asyncio.Event] = {}
        self.live: Dict[int, dict] = {}  # invocation serial -> info (running bodies)
        self.serial = 0
        self.max_live = 0
        self.end_cb: List[int] = []
        self.cancel_cb: List[int] = []
        self.cb_state: List[tuple] = []
        self.created = 0
        self.forgotten = 0
        self.req_by_tag: Dict[int, Req] = {}
        self.simple_started = 0
        self.pending_flush: List = []
        self.closing = None
        self.closing_checked = False
        self.fault_injected = False
        self.raising_cb_ids = set()
        self.cb_gates: Dict = {}
        self.cb_live = set()
        self.by_tid: Dict[int, dict] = {}
        kw = {} if size is None else {"pool_size": size}
        if simple:
            ecb, ccb = self.callbacks()
            self.pool = SimpleTaskPool(self.work, args=(-1, "simple"), end_callback=ecb, cancel_callback=ccb, **kw)
        else:
            self.pool = TaskPool(**kw)
        self.locked = False

    # ---- instrumented user code -------------------------------------------------------------------------
    async def work(self, tag, x):
        me = self.serial
        self.serial += 1
        ev = self.gates.setdefault(me, asyncio.Event())
        info = {"tag": tag, "x": x, "fail": False, "cancels_seen": 0, "stubborn": (not self.simple) and self.rnd.random() < 0.12}
        try:
            info["tid"] = int(asyncio.current_task().get_name().rsplit("-", 1)[1])
            self.by_tid[info["tid"]] = info
        except Exception:
            info["tid"] = None
        self.live[me] = info
        self.max_live = max(self.max_live, len(self.live))
        r = self.req_by_tag.get(tag) if tag != -1 else self.simple_req()
        if r is not None:
            r.started.append(x)
        try:
            while True:
                try:
                    await ev.wait()
                    break
                except asyncio.CancelledError:
                    info["cancels_seen"] += 1
                    if info["stubborn"] and info["cancels_seen"] == 1:
                        continue  # a worker that shrugs off its first cancellation and carries on (C06: a later cancel() must reach it)
                    raise
            if info["fail"]:
                raise RuntimeError(f"boom {me}")
            return me
        finally:
            del self.live[me]

    def simple_req(self):
        # SimpleTaskPool: all invocations are alike; requests are checked through their group's ids instead
        self.simple_started += 1
        return None

    def snap(self, i):
        # runs inside user callbacks: a failure of the harness's own introspection must not raise into the pool
        p = self.pool
        try:
            return (i in p._tasks_running, i in p._tasks_cancelled, i in p._tasks_ended)
        except AttributeError as e:
            self.harness_broken = f"{type(e).__name__}: {e}"
            return (None, None, None)

    def on_end(self, i):
        self.end_cb.append(i)
        if self.snap(i) != (False, False, True):
            self.v("C03", f"end callback of task {i}: (running,cancelled,ended)={self.snap(i)}")

    def on_cancel(self, i):
        self.cancel_cb.append(i)
        if self.snap(i) != (False, True, False):
            self.v("C03", f"cancel callback of task {i}: (running,cancelled,ended)={self.snap(i)}")
        if i in self.end_cb:
            self.v("C03", f"cancel callback of task {i} after its end callback")

    # slow (really suspending) variants: the callback parks on a gate that a later operation opens
    async def slow_end(self, i):
        self.on_end(i)
        await self.park(("end", i))

    async def slow_cancel(self, i):
        self.on_cancel(i)
        await self.park(("cancel", i))

    async def park(self, key):
        ev = self.cb_gates.setdefault(key, asyncio.Event())
        self.cb_live.add(key)
        try:
            await ev.wait()
        finally:
            self.cb_live.discard(key)

    def raising_end(self, i):
        self.on_end(i)
        self.fault_injected = True
        raise RuntimeError(f"end callback of {i} fails")

    def callbacks(self):
        r = self.rnd.random()
        if r < 0.35:
            return (self.slow_end, self.slow_cancel)
        if r < 0.5:
            return (self.raising_end, self.on_cancel)
        return (self.on_end, self.on_cancel)

    async def op_release_callback(self):
        if self.cb_live:
            key = self.rnd.choice(sorted(self.cb_live))
            self.cb_gates[key].set()
            self.log.append(f"callback {key} returns")

    def v(self, props, what):
        props = list(props) if isinstance(props, list) else [props]
        # C12 "a failing task or callback harms only itself": once a failure was injected, lost slots / lost invocations /
        # lost callbacks of OTHER tasks are also violations of C12
        if self.fault_injected and set(props) & {"C02", "C03", "C04", "C05", "C08"} and "C12" not in props:
            props.append("C12")
        # C07 "tasks and pending requests of other groups are untouched and keep progressing": once a group was cancelled, lost
        # invocations / elements of requests that were NOT cancelled are also violations of C07
        if any(r.cancelled for r in self.reqs) and set(props) & {"C04", "C05"} and "C07" not in props:
            props.append("C07")
        self.viol.append({"props": props, "what": what})

    # ---- operations --------------------------------------------------------------------------------------
    def spawner_pending(self) -> bool:
        """an apply()/start() request that has not produced all of its tasks yet (F3 trigger when locking)"""
        return any(r.kind in ("apply", "start") and not r.cancelled and len(r.ids_now(self)) < r.n for r in self.reqs)

    async def op_spawn(self):
        p, rnd = self.pool, self.rnd
        tag = len(self.reqs)
        if self.simple:
            n = rnd.randint(1, 3)
            try:
                g = p.start(n)
            except Exception as e:
                return self.rejected("start", e)
            r = Req("start", g, n, None)
        else:
            kind = rnd.choice(["apply", "apply", "map", "starmap", "doublestarmap"])
            ecb, ccb = self.callbacks()
            # sometimes an explicit group name out of a small set: a name that is taken must be rejected without a trace,
            # a name that was cancelled / never used is accepted at once (C09, C07, C10)
            gname = rnd.choice(["named-0", "named-1"]) if rnd.random() < 0.3 else None
            gkw = {} if gname is None else {"group_name": gname}
            if gname is not None and gname in p._task_groups:
                from asyncio_taskpool import exceptions as ex

                before = (set(p._task_groups), {k: len(v) for k, v in p._group_meta_tasks_running.items()}, p._num_started, self.serial)
                touched = []

                def gen():
                    touched.append(1)
                    yield (tag, 0)

                try:
                    if kind == "apply":
                        p.apply(self.work, args=(tag, "dup"), num=2, **gkw)
                    else:
                        getattr(p, kind)(self.work_pair if kind == "map" else self.work, gen(), **gkw)
                    self.v(["C09", "C10"], f"{kind} with the taken group name {gname!r} was accepted")
                except ex.TaskGroupAlreadyExists:
                    pass
                except (ex.PoolIsLocked, ex.PoolIsClosed):
                    pass
                await drain()
                after = (set(p._task_groups), {k: len(v) for k, v in p._group_meta_tasks_running.items()}, p._num_started, self.serial)
                if after != before or touched:
                    self.v("C09", f"a rejected {kind} (taken name {gname!r}) left a trace: {before} -> {after}, iterable touched: {bool(touched)}")
                self.log.append(f"{kind} with taken name {gname} (rejected)")
                return
            if kind == "apply":
                n = rnd.randint(1, 3)
                try:
                    g = p.apply(self.work, args=(tag, "a"), num=n, end_callback=ecb, cancel_callback=ccb, **gkw)
                except Exception as e:
                    return self.rejected("apply", e)
                r = Req("apply", g, n, [(tag, "a")] * n)
            else:
                m = rnd.randint(1, 4)
                nc = rnd.randint(1, 2)
                xs = list(range(m))
                it = {"map": [(tag, x) for x in xs], "starmap": [(tag, x) for x in xs], "doublestarmap": [{"tag": tag, "x": x} for x in xs]}[kind]
                fn = self.work if kind != "map" else self.work_pair
                try:
                    g = getattr(p, kind)(fn, iter(it), num_concurrent=nc, end_callback=ecb, cancel_callback=ccb, **gkw)
                    if gname is not None and g != gname:
                        self.v("C10", f"{kind}(group_name={gname!r}) returned the group name {g!r}")
                except Exception as e:
                    return self.rejected(kind, e)
                r = Req(kind, g, m, xs)
                r.nc = nc
        self.log.append(f"{r.kind}->{r.group} n={r.n}")
        self.reqs.append(r)
        self.req_by_tag[tag] = r
        if self.locked:
            self.v(["C09", "C08"], f"{r.kind} accepted while the pool is locked / closing")

    async def work_pair(self, pair):
        return await self.work(pair[0], pair[1])

    def rejected(self, kind, e):
        from asyncio_taskpool import exceptions as ex

        self.log.append(f"{kind} rejected: {type(e).__name__}")
        if self.closing is not None and isinstance(e, (ex.PoolIsLocked, ex.PoolIsClosed)):
            return
        if not (self.locked and isinstance(e, ex.PoolIsLocked)):
            self.v(["C09", "C04"], f"{kind} on an open, unlocked pool raised {type(e).__name__}: {e}")

    async def op_finish(self, fail=False):
        if not self.live:
            return
        me = self.rnd.choice(sorted(self.live))
        self.live[me]["fail"] = fail
        self.fault_injected = self.fault_injected or fail
        self.gates[me].set()
        self.log.append(f"finish {me}{' failing' if fail else ''}")

    async def op_cancel(self):
        p = self.pool
        ids = sorted(p._tasks_running)
        if not ids:
            return
        i = self.rnd.choice(ids)
        before = set(p._tasks_running)
        info = self.by_tid.get(i)
        if info is not None and info["stubborn"] and info["cancels_seen"] <= 1 and info in self.live.values():
            # a worker that swallows its first CancelledError: it legitimately keeps running, stays cancellable, and the next
            # cancel() naming it must deliver a new CancelledError (C06 'each named running task receives a cancellation')
            first = info["cancels_seen"] == 0
            p.cancel(i)
            self.log.append(f"cancel {i} (stubborn worker, {'first' if first else 'second'} request)")
            await drain()
            if first:
                if info["cancels_seen"] != 1 or i not in p._tasks_running:
                    self.v("C06", f"first cancel({i}) of a worker that swallows it: cancellations seen {info['cancels_seen']}, still running: {i in p._tasks_running}")
                    return
                try:
                    p.cancel(i)
                except Exception as e:
                    self.v("C06", f"cancel({i}) of a still running task (it swallowed an earlier cancellation) raised {type(e).__name__}")
                    return
                self.log.append(f"cancel {i} again")
                await drain()
            if info["cancels_seen"] != 2:
                self.v("C06", f"cancel({i}) returned normally for a running task that swallowed an earlier cancellation, but the task received no new CancelledError")
            elif i in p._tasks_running:
                self.v("C06", f"task {i} still running after its second cancellation was delivered")
            return
        p.cancel(i)
        self.log.append(f"cancel {i}")
        await drain()
        if i in p._tasks_running:
            self.v("C06", f"task {i} still running after cancel()")
        others = before - {i}
        gone = [j for j in others if j not in p._tasks_running]
        if gone:
            self.v("C06", f"cancel({i}) also removed {gone} from running")
        try:
            p.cancel(i)
            self.v("C06", f"second cancel({i}) did not raise")
        except Exception:
            pass

    async def op_stop(self):
        if not self.simple:
            return
        p = self.pool
        running = list(p._tasks_running)  # creation order
        n = self.rnd.choice([-1, 0, 1, 2, len(running), len(running) + 1, 2 * len(running) - 1, 2 * len(running) + 1])
        got = p.stop(n)
        self.log.append(f"stop({n}) -> {got}")
        k = max(0, min(n, len(running)))
        want = list(reversed(running))[:k]
        if list(got) != want:
            self.v("C14", f"stop({n}) with running {running} returned {list(got)}, expected {want}")
        await drain()
        left = [i for i in running if i in p._tasks_running]
        if left != running[: len(running) - k]:
            self.v("C14", f"after stop({n}) the running ids are {sorted(p._tasks_running)}, expected {running[: len(running) - k]}")

    async def op_close_now(self):
        """gather_and_close() in the middle of the history: it may only return after everything requested before has finished"""
        if self.spawner_pending() or self.closing is not None:
            return
        self.log.append("gather_and_close (background)")
        self.closing = asyncio.ensure_future(self.pool.gather_and_close(return_exceptions=True))
        self.locked = True

    def check_closing(self, where):
        ft = self.closing
        if ft is None or not ft.done() or self.closing_checked:
            return
        self.closing_checked = True
        p = self.pool
        if ft.exception() is not None:
            self.v(["C08", "C12"], f"{where}: gather_and_close(return_exceptions=True) raised {type(ft.exception()).__name__}: {ft.exception()}")
        if self.live or self.cb_live:
            self.v("C08", f"{where}: gather_and_close() returned while task bodies {sorted(self.live)} / callbacks {sorted(self.cb_live)} are still busy")
        for r in self.reqs:
            if not r.cancelled and r.kind == "apply" and len(r.started) != r.n:
                self.v(["C08", "C04"], f"{where}: gather_and_close() returned although {r.group} ran only {len(r.started)} of {r.n} invocations")
            if not r.cancelled and r.kind in ("map", "starmap", "doublestarmap") and r.started != r.args:
                self.v(["C08", "C05"], f"{where}: gather_and_close() returned although {r.group} ran only elements {r.started} of {r.args}")
        if not p._closed.is_set() or p._tasks_running or p._tasks_cancelled or p._tasks_ended:
            self.v("C08", f"{where}: after gather_and_close() the pool is not closed / still holds tasks")

    async def op_cancel_group(self):
        live = [r for r in self.reqs if not r.cancelled and r.group in self.pool._task_groups]
        if not live:
            return
        r = self.rnd.choice(live)
        # every request sharing that group name (SimpleTaskPool/explicit names never share here)
        self.pool.cancel_group(r.group)
        r.cancelled = True
        r.started_at_cancel = len(r.started)
        self.log.append(f"cancel_group {r.group}")
        try:
            self.pool.get_group_ids(r.group)
            self.v("C07", f"group {r.group} still known after cancel_group")
        except Exception:
            pass

    async def op_cancel_and_reuse(self):
        """cancel_group(g) and, in the same tick, a new map under the same explicit name g: the old request must stop, the new
        one must run completely (C07 'its name is free')"""
        if self.simple or self.locked:
            return
        p = self.pool
        live = [r for r in self.reqs if not r.cancelled and r.group in p._task_groups and r.group.startswith("named-")]
        if not live:
            return
        r = self.rnd.choice(live)
        p.cancel_group(r.group)
        r.cancelled = True
        r.started_at_cancel = len(r.started)
        tag = len(self.reqs)
        xs = list(range(self.rnd.randint(1, 3)))
        try:
            g = p.map(self.work_pair, iter([(tag, x) for x in xs]), num_concurrent=1, group_name=r.group, end_callback=self.on_end, cancel_callback=self.on_cancel)
        except Exception as e:
            self.v(["C07", "C10"], f"the name {r.group!r} is not free right after cancel_group: {type(e).__name__}")
            return
        nr = Req("map", g, len(xs), xs)
        nr.nc = 1
        self.reqs.append(nr)
        self.req_by_tag[tag] = nr
        self.log.append(f"cancel_group {r.group} + map->{g} n={len(xs)} in the same tick")

    async def op_flush(self):
        p = self.pool
        running_before = dict(p._tasks_running)
        n_forget = len(p._tasks_ended) + len(p._tasks_cancelled)
        self.log.append("flush")
        re = self.rnd.random() < 0.6
        busy = {i: t for reg in (p._tasks_cancelled, p._tasks_ended) for i, t in reg.items() if not t.done()}
        finished_before = {i: t for reg in (p._tasks_cancelled, p._tasks_ended) for i, t in reg.items() if t.done()}
        ft = asyncio.ensure_future(p.flush(return_exceptions=re))
        await drain()
        if ft.done() and not ft.cancelled() and ft.exception() is None:
            left = [i for i, t in finished_before.items() if p._tasks_ended.get(i) is t or p._tasks_cancelled.get(i) is t]
            if left:
                self.v("C13", f"flush() has returned but tasks {left}, which had finished before the call, are still remembered")
        if busy and not ft.done():
            # flush waits for tasks that are still inside a slow callback: meanwhile those tasks must stay known
            for i in busy:
                if not busy[i].done() and i not in p._tasks_cancelled and i not in p._tasks_ended:
                    self.v(["C13", "C03"], f"during flush task {i}, still inside its callback, is no longer known to the pool")
            self.pending_flush.append(ft)
            return
        if not ft.done():
            self.v("C13", "flush() does not return although no task is busy in a callback")
            ft.cancel()
            return
        if ft.exception() is not None and (re or not isinstance(ft.exception(), RuntimeError)):
            self.v(["C13", "C12"], f"flush(return_exceptions={re}) raised {type(ft.exception()).__name__}: {ft.exception()}")
        for i, t in running_before.items():
            if not t.done() and i not in p._tasks_running:
                self.v("C13", f"flush forgot task {i} that is still running")
        for i, t in busy.items():
            if not t.done() and i not in p._tasks_cancelled and i not in p._tasks_ended:
                self.v(["C13", "C03", "C02"], f"flush forgot task {i} that is still inside its callback")

    async def op_lock_probe(self):
        if self.spawner_pending() or self.closing is not None:
            return
        p = self.pool
        p.lock()
        self.locked = True
        self.log.append("lock")
        await self.op_spawn()
        p.lock()
        p.unlock()
        p.unlock()
        self.locked = False
        self.log.append("unlock")
        if p.is_locked:
            self.v("C09", "unlock() left the pool locked")

    # ---- invariants after every step ---------------------------------------------------------------------
    def check_now(self, where):
        p = self.pool
        self.check_closing(where)
        if self.closing is not None and self.closing.done():
            return
        size = float("inf") if self.size is None else self.size
        if len(self.live) > size or self.max_live > size:
            self.v("C01", f"{where}: {max(len(self.live), self.max_live)} task bodies active in a pool of size {size}")
        if p.num_running > size:
            self.v("C01", f"{where}: num_running={p.num_running} > size {size}")
        # a task parked inside its end / cancel callback counts as ended / cancelled - nothing (in particular no flush) forgets it
        for kind, i in sorted(self.cb_live):
            reg = p._tasks_ended if kind == "end" else p._tasks_cancelled
            if i not in reg:
                self.v(["C13", "C03"], f"{where}: task {i} is inside its {kind} callback but is not counted as {'ended' if kind == 'end' else 'cancelled'} "
                                       f"(running={i in p._tasks_running}, cancelled={i in p._tasks_cancelled}, ended={i in p._tasks_ended})")
        ids = sorted(list(p._tasks_running) + list(p._tasks_cancelled) + list(p._tasks_ended))
        if len(ids) != len(set(ids)):
            self.v("C03", f"{where}: a task id is in two registries: {ids}")
        if ids and max(ids) >= p._num_started:
            self.v("C11", f"{where}: id {max(ids)} >= number of tasks created {p._num_started}")
        for i, t in p._tasks_running.items():
            if not t.get_name().endswith(f"_Task-{i}"):
                self.v("C11", f"{where}: task {i} is named {t.get_name()}")
        # quiescent and no callbacks in progress: slots in use == tasks in flight; is_full <=> running == size
        if not p._tasks_cancelled and not self.cb_live and self.size is not None:
            free = p._enough_room._value
            waiters = [w for w in (p._enough_room._waiters or ()) if not w.cancelled()]
            granted = [w for w in waiters if w.done()]
            if free + len(granted) + p.num_running != self.size:
                self.v(["C02", "C01"], f"{where}: free {free} + granted {len(granted)} + running {p.num_running} != size {self.size}")
            if not granted and p.is_full != (p.num_running == self.size) and not (p.num_running < self.size and waiters):
                self.v("C01", f"{where}: is_full={p.is_full} with {p.num_running} running of {self.size}")
        # groups partition the tasks
        seen = {}
        for g, reg in p._task_groups.items():
            for i in reg:
                if i in seen:
                    self.v("C10", f"{where}: task {i} is in groups {seen[i]} and {g}")
                seen[i] = g
        for r in self.reqs:
            if not r.cancelled and r.group in p._task_groups:
                got = set(p.get_group_ids(r.group))
                if len(got) > r.n:
                    self.v(["C10", "C04"], f"{where}: group {r.group} reports {len(got)} ids for a request of {r.n}")
                if r.kind != "start" and len(got) < len(r.started) and not any(o is not r and o.group == r.group and not o.cancelled for o in self.reqs):
                    self.v("C10", f"{where}: {len(r.started)} invocations of {r.group} have started but the group reports only the ids {sorted(got)}")
            if r.cancelled and r.kind != "start" and len(r.started) > getattr(r, "started_at_cancel", 99):
                self.v("C07", f"{where}: a task of the cancelled group {r.group} started after cancel_group")
            if r.kind in ("map", "starmap", "doublestarmap"):
                if r.started != r.args[: len(r.started)]:
                    self.v("C05", f"{where}: {r.kind} ran elements {r.started}, expected a prefix of {r.args}")

    # ---- driver --------------------------------------------------------------------------------------------
    async def run(self, nops: int):
        ops = [(self.op_spawn, 5), (self.op_finish, 5), (lambda: self.op_finish(fail=True), 1), (self.op_cancel, 2), (self.op_cancel_group, 2), (self.op_flush, 3), (self.op_lock_probe, 1), (self.op_release_callback, 3), (self.op_stop, 2), (self.op_close_now, 2), (self.op_cancel_and_reuse, 2)]
        bag = [f for f, w in ops for _ in range(w)]
        closing_bag = [self.op_finish] * 4 + [self.op_release_callback] * 4 + [self.op_cancel, self.op_spawn]
        for k in range(nops):
            # once gather_and_close() is under way only finishing tasks / returning callbacks / cancelling move things on
            op = self.rnd.choice(closing_bag if self.closing is not None and not self.closing.done() else bag)
            try:
                await op()
            except Exception as e:
                if not raised_inside_package(e):
                    # the harness itself failed (e.g. it looked at a private attribute that a refactoring renamed): that is not
                    # a property violation - the explorer gives up (exit 2), it must never turn a harmless change into an alarm
                    raise HarnessError(f"{type(e).__name__}: {e}") from e
                self.v(["C06", "C07", "C09", "C10", "C13"], f"operation {getattr(op, '__name__', 'finish-failing')} raised {type(e).__name__}: {e} after {self.log[-3:]}")
                return
            await drain()
            self.check_now(f"step {k}")
            if self.viol:
                return
        # ---- quiescence: let everything finish ------------------------------------------------------------------
        for _ in range(200):
            for me in sorted(self.live):
                self.gates[me].set()
            for key in sorted(self.cb_live):
                self.cb_gates[key].set()
            await drain()
            if not self.live and not self.cb_live and not any(not t.done() for s in self.pool._group_meta_tasks_running.values() for t in s) and not self.pool._tasks_running and not self.pool._tasks_cancelled:
                break
        else:
            self.v(["C02", "C04", "C05"], f"the pool does not become quiescent: live bodies {sorted(self.live)}, running {sorted(self.pool._tasks_running)}, "
                                          f"pending spawners {sum(1 for s in self.pool._group_meta_tasks_running.values() for t in s if not t.done())}")
            return
        self.check_now("quiescent")
        p = self.pool
        await drain()
        for ft in self.pending_flush:
            if not ft.done():
                self.v("C13", "a flush() that waited for slow callbacks never returned")
                ft.cancel()
            elif ft.exception() is not None and not isinstance(ft.exception(), RuntimeError):
                self.v(["C13", "C12"], f"flush() raised {type(ft.exception()).__name__}: {ft.exception()}")
        for r in self.reqs:
            if r.cancelled:
                continue
            if r.kind == "apply" and len(r.started) != r.n:
                self.v("C04", f"apply request {r.group} ran {len(r.started)} of {r.n} invocations")
            if r.kind == "start":
                got = len(p.get_group_ids(r.group)) if r.group in p._task_groups else 0
                if got != r.n:
                    self.v("C04", f"start request {r.group} created {got} of {r.n} tasks")
        if self.simple and self.simple_started != p._num_started:
            self.v("C04", f"{self.simple_started} invocations began for {p._num_started} tasks created")
        for r in []:
            if False:
                pass
            if r.kind in ("map", "starmap", "doublestarmap") and r.started != r.args:
                self.v("C05", f"{r.kind} request {r.group} ran elements {r.started}, expected {r.args}")
        if self.size is not None and p._enough_room._value != self.size:
            self.v("C02", f"after all work finished {p._enough_room._value} of {self.size} slots are free")
        created = p._num_started
        n_end, n_can = len(self.end_cb), len(self.cancel_cb)
        if sorted(self.end_cb) != sorted(set(self.end_cb)) or n_end != created:
            self.v(["C03", "C02"], f"end callbacks ran for {sorted(self.end_cb)}; {created} tasks were created (each exactly once expected)")
        if sorted(self.cancel_cb) != sorted(set(self.cancel_cb)):
            self.v("C03", f"a cancel callback ran twice: {sorted(self.cancel_cb)}")
        # close
        if self.closing is not None:
            await drain()
            self.check_closing("quiescent")
            if not self.closing.done():
                self.v("C08", "gather_and_close() does not return on a quiescent pool")
                self.closing.cancel()
            return
        try:
            await asyncio.wait_for(p.gather_and_close(return_exceptions=True), 5)
        except asyncio.TimeoutError:
            self.v("C08", "gather_and_close() does not return on a quiescent pool")
            return
        except Exception as e:
            self.v(["C08", "C12"], f"gather_and_close(return_exceptions=True) raised {type(e).__name__}: {e}")
            return
        if p._tasks_running or p._tasks_ended or p._tasks_cancelled or not p._closed.is_set():
            self.v("C08", "the pool still holds tasks / is not closed after gather_and_close()")
        try:
            (p.start(1) if self.simple else p.apply(self.work, args=(0, 0)))
            self.v(["C08", "C09"], "a spawn request was accepted after close")
        except Exception:
            pass


def ids_now(self: Req, h: H):
    try:
        return h.pool.get_group_ids(self.group) if self.group in h.pool._task_groups else set(range(self.n)) if len(self.started) >= self.n else set()
    except Exception:
        return set()


Req.ids_now = ids_now


class HarnessError(Exception):
    pass


def raised_inside_package(e: BaseException) -> bool:
    """was the exception raised by code of the package under test (or deeper), as opposed to this harness?"""
    tb = e.__traceback__
    last = None
    while tb is not None:
        last = tb.tb_frame.f_code.co_filename
        tb = tb.tb_next
    return last is not None and os.path.abspath(last) != os.path.abspath(__file__)


async def one(seed: int):
    rnd = random.Random(seed)
    h = H(rnd, simple=rnd.random() < 0.3, size=rnd.choice([1, 1, 2, 2, 3, None]))
    try:
        await asyncio.wait_for(h.run(rnd.randint(4, 14)), 60)
    except asyncio.TimeoutError:
        h.v(["C02", "C08"], "history timed out (a pool operation hangs)")
    # silence tasks still pending
    for t in asyncio.all_tasks():
        if t is not asyncio.current_task():
            t.cancel()
    return h


def main():
    prop = sys.argv[1] if len(sys.argv) > 1 else "all"
    seed0 = int(sys.argv[2]) if len(sys.argv) > 2 else 0
    n = int(sys.argv[3]) if len(sys.argv) > 3 else 150
    import logging

    logging.disable(logging.CRITICAL)
    tried = 0
    for k in range(n):
        seed = seed0 * 100003 + k
        loop = asyncio.new_event_loop()
        loop.set_exception_handler(lambda *_a: None)
        try:
            h = loop.run_until_complete(one(seed))
            loop.run_until_complete(asyncio.sleep(0))
        finally:
            loop.close()
        tried += 1
        if getattr(h, "harness_broken", None):
            raise HarnessError(h.harness_broken)
        mine = [v for v in h.viol if prop == "all" or prop in v["props"]]
        if mine:
            print(json.dumps({"violated": True, "property": prop, "seed": seed, "pool": ("SimpleTaskPool" if h.simple else "TaskPool"), "size": h.size, "history": h.log,
                              "violations": mine[:3], "other_oracles_violated": [v for v in h.viol if v not in mine][:3], "histories_tried": tried}))
            return 1
    print(json.dumps({"violated": False, "property": prop, "histories": tried, "bound": "<=14 operations, pools of size 1/2/3/unbounded, <=3 invocations per apply/start, <=4 elements per map"}))
    return 0


if __name__ == "__main__":
    try:
        rc = main()
    except BaseException as e:  # noqa: BLE001 - a crash of the harness is never a verdict
        import traceback

        print(json.dumps({"violated": False, "harness_crash": f"{type(e).__name__}: {e}", "traceback": traceback.format_exc(limit=4)[-800:]}))
        rc = 2
    sys.exit(rc)
