"""usage: scenarios_run.py <scenario name>|--all [names...]   (run under /venv/bin/python with PYTHONPATH=<repo>/src)
exit 0 = every oracle held, 1 = a property oracle was violated (printed), 2 = the scenario itself crashed"""
import asyncio
import json
import os
import sys
import traceback

sys.path.insert(0, os.path.dirname(os.path.dirname(os.path.abspath(__file__))))
from replay import scenarios  # noqa: E402


def run(name):
    fn = scenarios.SCENARIOS[name]
    scenarios.HARNESS_BROKEN = None
    try:
        viol = asyncio.run(asyncio.wait_for(fn(), 60))
    except Exception:
        return [], traceback.format_exc(limit=6)
    if scenarios.HARNESS_BROKEN:
        return [], "the harness's own introspection failed: " + scenarios.HARNESS_BROKEN
    return viol, None


def main():
    names = sys.argv[1:]
    if names and names[0] == "--all":
        names = names[1:] or list(scenarios.SCENARIOS)
    rc = 0
    for n in names:
        viol, err = run(n)
        for v in viol:
            print(f"VIOLATED[{n}]: {v}")
        if err:
            print(f"SCENARIO-CRASH[{n}]: {err}")
            rc = max(rc, 2)
        if viol:
            rc = 1 if rc != 2 else rc
        if not viol and not err:
            print(f"ok[{n}]")
    return rc


if __name__ == "__main__":
    sys.exit(main())
