#!/usr/bin/env python3-vt
"""check.py <property id> [--tier quick|thorough]

Decides one property: re-reads /repo's working tree, runs every verification unit that carries
obligations of the property, discharges them, matches failures against known_findings.json, replays
new failures, writes /verif/evidence/<id>.json.

exit 0  every obligation of the property discharged (or only listed known findings failed)
exit 1  + "VIOLATION property=<id> replay=<path>"   an obligation failed that is not a listed finding
exit 2  undecided (construct outside the subset, solver unknown, missing contract) - no VIOLATION line
exit 3  checker crash
"""
from __future__ import annotations

import argparse
import hashlib
import json
import os
import re
import subprocess
import sys
import time

HERE = os.path.dirname(os.path.abspath(__file__))
sys.path.insert(0, HERE)
# a run against a scratch copy (VERIF_REPO set by tools/seed_matrix.sh) must not overwrite the evidence of /repo
SCRATCH = os.environ.get("VERIF_REPO", "/repo") not in ("/repo", "/repo/")
OUT = os.path.join(HERE, "out", "scratch", os.environ.get("VERIF_OUT_TAG", "")) if SCRATCH else HERE  # parallel scratch runs keep apart

from pyvc import front  # noqa: E402
from pyvc.run import run_units  # noqa: E402


def load_units():
    from spec import registry

    return registry.all_units()


LEVELS = {}


def registry_mod():
    from spec import registry

    return registry


def sh(cmd, timeout=600, env=None):
    try:
        p = subprocess.run(cmd, shell=True, capture_output=True, text=True, timeout=timeout, env=env)
        return p.returncode, (p.stdout + p.stderr)[-4000:]
    except subprocess.TimeoutExpired:
        return 124, "timeout"


def match_finding(findings, prop, ob):
    """prop=None: any property's open finding"""
    for f in findings:
        if (prop is not None and prop not in f["properties"]) or f.get("status") == "fixed":
            continue
        if "obligation" in f and not re.search(f["obligation"], ob["name"]):
            continue
        if "path" in f and not re.search(f["path"], ob.get("path", "")):
            continue
        return f
    return None


def cross_check(sample):
    """re-decide a sample of obligations with cvc5 1.0.3 and z3 4.8.12 through SMT-LIB2 (thorough tier).  The export is the
    stage-1 query (hypotheses + negated goal, quantifiers intact): `unsat` from another solver confirms a proof,
    `sat` would contradict it (reported as a disagreement => exit 3); `unknown`/timeout says nothing."""
    import tempfile

    out = {"sampled": len(sample), "cvc5": {"unsat": 0, "sat": 0, "unknown": 0}, "z3-4.8.12": {"unsat": 0, "sat": 0, "unknown": 0}, "disagreements": []}
    tmp = tempfile.mkdtemp(prefix="xcheck_")
    try:
        for k, o in enumerate(sample[:60]):
            fn = os.path.join(tmp, f"q{k}.smt2")
            open(fn, "w").write("(set-logic ALL)\n" + o["smt2"] + "\n")
            for solver, cmd in (("cvc5", f"/usr/bin/cvc5 --tlimit=8000 {fn}"), ("z3-4.8.12", f"/usr/bin/z3 -T:8 {fn}")):
                code, txt = sh(cmd, timeout=20)
                first = (txt.strip().splitlines() or ["unknown"])[0].strip()
                v = first if first in ("sat", "unsat") else "unknown"
                out[solver][v] += 1
                if (v == "sat" and o["verdict"] == "proved"):
                    out["disagreements"].append({"obligation": o["name"], "solver": solver})
    finally:
        import shutil

        shutil.rmtree(tmp, ignore_errors=True)
    for o in sample:
        o.pop("smt2", None)
    return out


def _explorer_found(code: int, out: str) -> bool:
    """an explorer reports a violation by exit 1 AND a JSON document saying so; a crash of the harness (a traceback, exit 1
    from the interpreter, exit 2) is never a verdict"""
    if code != 1:
        return False
    for ln in reversed(out.strip().splitlines()):
        if ln.startswith("{"):
            try:
                return bool(json.loads(ln).get("violated"))
            except Exception:
                return False
    return False


def _inputs_key(tier: str, seed: int) -> str:
    """hash of EVERYTHING a unit's result depends on: the current sources of the package under verification, the verifier, the
    specifications, the baseline (alpha-renaming), the interpreter's library files that are verified from source, the solver
    version and the environment switches"""
    import glob

    h = hashlib.sha256()
    repo_src = os.path.join(os.environ.get("VERIF_REPO", "/repo"), "src", "asyncio_taskpool")
    files = sorted(glob.glob(os.path.join(repo_src, "**", "*.py"), recursive=True))
    files += sorted(glob.glob(os.path.join(HERE, "pyvc", "*.py"))) + sorted(glob.glob(os.path.join(HERE, "spec", "*.py"))) + [os.path.join(HERE, "baseline_obligations.json")]
    for f in files:
        h.update(os.path.relpath(f, HERE if f.startswith(HERE) else repo_src).encode() + b"\0")
        h.update(open(f, "rb").read())
    try:
        from spec.asyncio_units import stdlib_file

        for mod in ("asyncio.locks", "asyncio.queues", "asyncio.tasks", "asyncio.futures", "argparse"):
            h.update(open(stdlib_file(mod), "rb").read())
    except Exception as e:  # the units will report the problem themselves
        h.update(repr(e).encode())
    import z3

    h.update(z3.get_version_string().encode() + sys.version.encode())
    for k in sorted(os.environ):
        if k.startswith("VERIF_") and k not in ("VERIF_REPO", "VERIF_OUT_TAG", "VERIF_TIER", "VERIF_SEED", "VERIF_NO_CACHE"):
            h.update(f"{k}={os.environ[k]}".encode())
    if tier == "thorough":
        h.update(f"thorough:{seed}".encode())  # the SMT-LIB sample exported for the other solvers depends on the seed
    return h.hexdigest()[:24]


def cached_run_units(units, jobs, tier, seed):
    """the 15 pool properties are proved from one invariant over the same 38 units: a unit's result is memoised under a key that
    covers every input (see _inputs_key), so that the checks of one tree share the work.  A hit is marked in the evidence.
    VERIF_NO_CACHE=1 switches the memo off."""
    if os.environ.get("VERIF_NO_CACHE") == "1":
        return run_units(units, None, jobs)
    key = _inputs_key(tier, seed)
    cdir = os.path.join(HERE, "out", "cache", key)
    os.makedirs(cdir, exist_ok=True)
    res, todo = {}, []
    for u in units:
        f = os.path.join(cdir, hashlib.sha256(u.name.encode()).hexdigest()[:20] + ".json")
        try:
            r = json.load(open(f))
            r["cache"] = "hit:" + key
            res[u.name] = r
        except Exception:
            todo.append((u, f))
    if todo:
        for (u, f), r in zip(todo, run_units([u for u, _f in todo], None, jobs)):
            if r["status"] != "crash":
                # the memo is an optimisation only: a failure to store (e.g. a concurrent check of another tree pruning the
                # cache) must never affect the verdict
                try:
                    os.makedirs(cdir, exist_ok=True)
                    tmp = f + f".{os.getpid()}.tmp"
                    json.dump(r, open(tmp, "w"))
                    os.replace(tmp, f)
                except OSError:
                    pass
            r["cache"] = "computed:" + key
            res[u.name] = r
    # keep the cache small: only the newest few keys stay; never the current one, never one that was used in the last half hour
    # (concurrent checks of other trees may be writing there)
    try:
        import shutil
        import time as _time

        root = os.path.join(HERE, "out", "cache")
        keys = sorted(os.listdir(root), key=lambda d: os.path.getmtime(os.path.join(root, d)))
        for d in keys[:-4]:
            pth = os.path.join(root, d)
            if d != key and _time.time() - os.path.getmtime(pth) > 1800:
                shutil.rmtree(pth, ignore_errors=True)
    except Exception:
        pass
    return [res[u.name] for u in units]


def engine_selftest():
    """vacuity guard of the discharge pipeline itself: a deliberately false obligation must come back `failed`, a true
    quantified one `proved` (otherwise nothing this run reports can be believed => exit 3)"""
    import z3

    from pyvc import quant

    x = z3.Int("selftest_x")
    a = z3.Const("selftest_a", z3.ArraySort(z3.IntSort(), z3.BoolSort()))
    i = z3.Int("selftest_i")
    bad, _m, _s = quant.check([x > 0], x > 1, 5000)
    good, _m, _s = quant.check([z3.ForAll([i], z3.Implies(z3.Select(a, i), i >= 0)), z3.Select(a, x)], x >= 0, 5000)
    badq, _m, _s = quant.check([z3.ForAll([i], z3.Implies(z3.Select(a, i), i >= 0))], z3.ForAll([i], z3.Implies(z3.Select(a, i), i >= 1)), 5000)
    return {"false_obligation_refuted": bad == "sat", "true_quantified_obligation_proved": good == "unsat", "false_quantified_obligation_refuted": badq == "sat"}


def main() -> int:
    ap = argparse.ArgumentParser()
    ap.add_argument("prop")
    ap.add_argument("--tier", default=os.environ.get("VERIF_TIER", "quick"))
    ap.add_argument("--jobs", type=int, default=0)
    args = ap.parse_args()
    prop, tier = args.prop, args.tier
    seed = int(os.environ.get("VERIF_SEED", "0") or 0)
    t0 = time.time()
    selftest = engine_selftest()
    if not all(selftest.values()):
        print("ENGINE-SELFTEST-FAILED", selftest)
        return 3
    if tier == "thorough":
        os.environ.setdefault("VERIF_SMT2_SAMPLE_MOD", "8")
    units = [u for u in load_units() if prop in u.props]
    if not units and prop not in getattr(registry_mod(), "NATIVE_SOURCES", {}):
        print(f"no unit carries obligations of {prop}")
        return 3
    results = cached_run_units(units, args.jobs, tier, seed) if units else []
    findings_doc = json.load(open(os.path.join(HERE, "known_findings.json")))
    findings = findings_doc["findings"]
    baseline = {}
    bpath = os.path.join(HERE, "baseline_obligations.json")
    if os.path.exists(bpath):
        baseline = json.load(open(bpath)).get("obligations", {})
    crashed = [r for r in results if r["status"] == "crash"]
    undecided_units = [r for r in results if r["status"] == "undecided"]
    obls = []
    supporting = []  # obligations of the same units that carry other properties' tags: the proof of this property
    # rests on the whole invariant, so a *new* failure among them undermines it as well
    for r in results:
        for o in r["obligations"]:
            o["unit"] = r["unit"]
            if prop in o["props"]:
                obls.append(o)
            else:
                supporting.append(o)
    # exhaustive native enumerations (finite domains) contribute obligations too
    native_info = []
    for script in getattr(registry_mod(), "NATIVE_SOURCES", {}).get(prop, []):
        from replay import driver

        code, out = driver.run_native(script, timeout=300, full=True)
        try:
            doc = json.loads(out[out.index("{"):])
        except Exception:
            crashed.append({"unit": script, "error": out[-500:], "status": "crash"})
            continue
        native_info.append({"script": script, "exhaustive": doc.get("exhaustive"), "domain": doc.get("domain"), "obligations": len(doc["obligations"])})
        for o in doc["obligations"]:
            if prop in o["props"]:
                obls.append({"name": o["name"], "path": "", "props": o["props"], "verdict": o["verdict"], "ms": 0, "hyps": 0, "backend": "runtime-contract-enumeration",
                             "unit": script, "model": {"detail": o.get("detail", "")}})
    covers = [o for o in obls if o.get("kind") == "cover"]
    goals = [o for o in obls if o.get("kind") != "cover"]
    proved = [o for o in goals if o["verdict"] == "proved"]
    failed = [o for o in goals if o["verdict"] == "failed"]
    unknown = [o for o in goals if o["verdict"] == "unknown"]
    # a cover (reach:<point>) is emitted on every path that arrives at the point; the point is vacuous only if the
    # hypotheses of ALL those paths are contradictory (single infeasible paths are normal)
    by_cover = {}
    for o in covers:
        by_cover.setdefault((o["unit"], o["name"]), []).append(o["verdict"])
    vacuous = [{"name": k[1], "unit": k[0]} for k, vs in by_cover.items() if all(v == "vacuous" for v in vs)]
    known_hits = {}
    violations = []
    attributed_unknown = []
    for o in failed:
        f = match_finding(findings, prop, o)
        if f is not None:
            known_hits.setdefault(f["id"], (f, []))[1].append(o)
        else:
            violations.append(o)
    supporting_failed = [o for o in supporting if o["verdict"] == "failed" and match_finding(findings, None, o) is None]
    for o in supporting_failed:
        o["supporting"] = True
        violations.append(o)
    still_unknown = []
    for o in unknown:
        f = match_finding(findings, prop, o)
        if f is not None and ("path" in f or f.get("covers_unknown")):
            attributed_unknown.append(o)
            known_hits.setdefault(f["id"], (f, []))[1].append(o)
        else:
            still_unknown.append(o)
    # ---- replay new violations ---------------------------------------------------------------------
    os.makedirs(os.path.join(OUT, "replays"), exist_ok=True)
    lines = []
    replays = []
    if violations:
        from replay import driver

        by_unit = {}
        for o in violations:
            by_unit.setdefault(o["unit"], []).append(o)
        for unit_name, os_ in by_unit.items():
            first = sorted(os_, key=lambda o: (o["hyps"], o["name"]))[0]
            h = hashlib.sha256((first["name"] + first.get("path", "")).encode()).hexdigest()[:10]
            rp = os.path.join(OUT, "replays", f"{prop}-{h}.json")
            label = "regressed" if baseline.get(first["name"]) == "proved" else ("new-site" if first["name"] not in baseline else "failing-on-baseline")
            native = driver.replay_for(prop, first, [o["name"] for o in os_])
            doc = {"property": prop, "unit": unit_name, "obligation": first["name"], "path": first.get("path"), "baseline": label,
                   "verifier": {"backend": first.get("backend"), "verdict": first["verdict"], "counter_model": first.get("model", {})},
                   "other_failed_obligations": sorted({o["name"] for o in os_})[:40], "native_replay": native}
            json.dump(doc, open(rp, "w"), indent=1)
            replays.append(rp)
            tail = "" if native.get("reproduced") else " no-failing-input-found"
            lines.append(f"VIOLATION property={prop} replay={rp}{tail}")
    # ---- bounded stand-in when the deductive check is undecided ------------------------------------------
    # (a construct outside the verified subset, a solver unknown): run the property's native scenario families
    # against the real code.  A failing scenario is a real failing history => VIOLATION (labelled bounded);
    # passing scenarios prove nothing and the check stays undecided.
    bounded_fallback = None
    if not violations and (undecided_units or still_unknown) and not crashed:
        from replay import driver, scenarios

        bounded_fallback = {"ran": [], "bounded": True}
        for name in scenarios.BY_PROPERTY.get(prop, []):
            code, out = driver.run_native("replay/scenarios_run.py", [name])
            bounded_fallback["ran"].append({"scenario": name, "exit": code})
            if code == 1:
                h = hashlib.sha256(name.encode()).hexdigest()[:10]
                rp = os.path.join(OUT, "replays", f"{prop}-scenario-{h}.json")
                doc = {"property": prop, "unit": "; ".join(r["unit"] for r in undecided_units) or "(unknown obligations)", "obligation": "(deductive check undecided: " + "; ".join(str(r["error"]) for r in undecided_units)[:300] + ")",
                       "path": "", "baseline": "n/a", "verifier": {"verdict": "undecided"}, "found_by": "bounded native scenario (stand-in, not a proof)",
                       "native_replay": {"reproduced": True, "scenario": name, "command": f"PYTHONPATH={driver.REPO}/src {driver.PY} {HERE}/replay/scenarios_run.py {name}", "output": out[-1500:]}}
                json.dump(doc, open(rp, "w"), indent=1)
                replays.append(rp)
                lines.append(f"VIOLATION property={prop} replay={rp}")
                violations.append({"name": f"scenario:{name}", "unit": "replay/scenarios.py", "verdict": "failed", "hyps": 0})
                break
        # last resort for the pool properties: seeded random histories of public-API operations with the properties'
        # observable oracles (bounded: 8000 histories of <= 14 operations; labelled so, never counted as proved)
        if not violations and re.fullmatch(r"C(0[1-9]|1[0-5])", prop):
            code, out = driver.run_native("replay/random_histories.py", [prop, str(seed), "8000"], timeout=600, full=True)
            bounded_fallback["random_histories"] = {"exit": code, "bound": "8000 histories, <=14 operations each, pools of size 1/2/3/unbounded", "output": out[-600:]}
            if _explorer_found(code, out):
                rp = os.path.join(OUT, "replays", f"{prop}-random-history-{seed}.json")
                try:
                    found = json.loads(out[out.index("{"):])
                except Exception:
                    found = {"raw": out[-1500:]}
                doc = {"property": prop, "unit": "; ".join(r["unit"] for r in undecided_units) or "(unknown obligations)", "obligation": "(deductive check undecided: " + "; ".join(str(r["error"]) for r in undecided_units)[:300] + ")",
                       "path": "", "baseline": "n/a", "verifier": {"verdict": "undecided"}, "found_by": "bounded random-history explorer (stand-in, not a proof)",
                       "native_replay": {"reproduced": True, "failing_history": found, "command": f"PYTHONPATH={driver.REPO}/src {driver.PY} {HERE}/replay/random_histories.py {prop} {seed} 8000"}}
                json.dump(doc, open(rp, "w"), indent=1)
                replays.append(rp)
                lines.append(f"VIOLATION property={prop} replay={rp}")
                violations.append({"name": "random-history", "unit": "replay/random_histories.py", "verdict": "failed", "hyps": 0})
        # last resort for the control properties: seeded random pool-like classes served through the real session / parser,
        # random well-formed and malformed command lines, the observable oracles of C16-C18 (bounded; never counted as proved)
        if not violations and prop in ("C16", "C17", "C18"):
            code, out = driver.run_native("replay/random_commands.py", [prop, str(seed), "600"], timeout=600, full=True)
            bounded_fallback["random_commands"] = {"exit": code, "bound": "600 classes of <=6 members with <=4 parameters, <=17 lines per session, optional second session", "output": out[-600:]}
            if _explorer_found(code, out):
                rp = os.path.join(OUT, "replays", f"{prop}-random-commands-{seed}.json")
                try:
                    found = json.loads(out[out.index("{"):])
                except Exception:
                    found = {"raw": out[-1500:]}
                doc = {"property": prop, "unit": "; ".join(r["unit"] for r in undecided_units) or "(unknown obligations)", "obligation": "(deductive check undecided: " + "; ".join(str(r["error"]) for r in undecided_units)[:300] + ")",
                       "path": "", "baseline": "n/a", "verifier": {"verdict": "undecided"}, "found_by": "bounded random-command explorer (stand-in, not a proof)",
                       "native_replay": {"reproduced": True, "failing_session": found, "command": f"PYTHONPATH={driver.REPO}/src {driver.PY} {HERE}/replay/random_commands.py {prop} {seed} 600"}}
                json.dump(doc, open(rp, "w"), indent=1)
                replays.append(rp)
                lines.append(f"VIOLATION property={prop} replay={rp}")
                violations.append({"name": "random-commands", "unit": "replay/random_commands.py", "verdict": "failed", "hyps": 0})
    # ---- thorough extras -----------------------------------------------------------------------------
    extras = {}
    if tier == "thorough":
        from replay import driver

        extras["known_finding_replays"] = driver.rerun_known(findings, prop)
        extras["cross_check"] = cross_check([o for o in obls if o.get("smt2")])
        extras["bounded_monitor"] = driver.bounded_monitor(prop, seed)
        if re.fullmatch(r"C(0[1-9]|1[0-5])", prop):
            code, out = driver.run_native("replay/random_histories.py", [prop, str(seed), "20000"], timeout=900, full=True)
            extras["bounded_monitor"]["random_histories"] = {"exit": code, "bound": "20000 histories, <=14 operations each", "output": out[-600:]}
            if _explorer_found(code, out):
                extras["bounded_monitor"]["violations"] = extras["bounded_monitor"].get("violations", 0) + 1
        if prop in ("C16", "C17", "C18"):
            code, out = driver.run_native("replay/random_commands.py", [prop, str(seed), "4000"], timeout=900, full=True)
            extras["bounded_monitor"]["random_commands"] = {"exit": code, "bound": "4000 classes, <=17 lines per session", "output": out[-600:]}
            if _explorer_found(code, out):
                extras["bounded_monitor"]["violations"] = extras["bounded_monitor"].get("violations", 0) + 1
        extras["assumed_contract_monitor"] = driver.assumed_contract_monitor()
    # sensitivity canaries (thorough tier): independently seeded property-breaking changes of this property (seeded/<id>*/) are
    # applied to scratch copies of the current tree and the quick check is run on them; a canary that comes back "held"
    # (exit 0) means the machinery has lost its teeth => exit 3, nothing this run reports can be believed
    if tier == "thorough" and not SCRATCH and os.environ.get("VERIF_NO_CANARIES") != "1":
        import glob
        import shutil
        import tempfile

        extras["canaries"] = []
        names = sorted(os.path.basename(d) for d in glob.glob(os.path.join(HERE, "seeded", prop + "*")) if os.path.exists(os.path.join(d, "meta.json")))
        k = seed % max(len(names), 1)
        for name in (names[k:] + names[:k]):
            if len([c for c in extras["canaries"] if "exit" in c]) >= 2:
                break  # two applicable canaries have been run (seeds whose patch no longer applies are listed and skipped)
            tmp = tempfile.mkdtemp(prefix="canary_")
            try:
                shutil.copytree(os.path.join(os.environ.get("VERIF_REPO", "/repo"), "src"), os.path.join(tmp, "repo", "src"))
                code, out = sh(f"cd {tmp}/repo && git init -q . && git apply {HERE}/seeded/{name}/patch.diff", timeout=60)
                if code != 0:
                    extras["canaries"].append({"seed": name, "result": "patch does not apply to the current tree"})
                    continue
                env = dict(os.environ)
                env.update({"VERIF_REPO": os.path.join(tmp, "repo"), "VERIF_OUT_TAG": "canary-" + name, "VERIF_TIER": "quick"})
                code, out = sh(f"{sys.executable} {os.path.join(HERE, 'check.py')} {prop} --tier quick", timeout=1800, env=env)
                extras["canaries"].append({"seed": name, "exit": code, "detected": code == 1, "last_line": out.strip().splitlines()[-1][:200] if out.strip() else ""})
            finally:
                shutil.rmtree(tmp, ignore_errors=True)
    # a failing native history found by the bounded monitor of the thorough tier is a real violation even when every
    # obligation was discharged (it would mean that an assumption of the proof does not hold for the code as it runs)
    bm = extras.get("bounded_monitor") or {}
    if tier == "thorough" and bm.get("violations") and not violations:
        rp = os.path.join(OUT, "replays", f"{prop}-bounded-monitor-{seed}.json")
        json.dump({"property": prop, "found_by": "bounded monitor of the thorough tier (native histories against the real code)", "monitor": bm,
                   "note": "all deductive obligations were discharged: an assumption listed in the trusted base is violated by this history, or the specification is too weak"}, open(rp, "w"), indent=1)
        replays.append(rp)
        lines.append(f"VIOLATION property={prop} replay={rp}")
        violations.append({"name": "bounded-monitor", "unit": "replay", "verdict": "failed", "hyps": 0})
    # ---- report ------------------------------------------------------------------------------------------
    for fid, (f, os_) in sorted(known_hits.items()):
        print(f"KNOWN-FINDING: property={prop} {fid}: {f['what_fails']} [{len(os_)} obligation(s), e.g. {os_[0]['name']}]")
    for ln in lines:
        print(ln)
    for r in undecided_units:
        print(f"UNDECIDED unit={r['unit']}: {r['error']}")
    for r in crashed:
        print(f"CRASH unit={r['unit']}: {r['error']}")
    for o in still_unknown[:10]:
        print(f"UNDECIDED obligation={o['name']} path={o.get('path','')[-80:]} ({o.get('reason','')})")
    for o in vacuous:
        print(f"VACUOUS cover={o['name']}: the hypotheses of this path are contradictory - the specification is broken")
    # ---- evidence ----------------------------------------------------------------------------------------
    funcs = {}
    for r in results:
        funcs.update(r.get("functions", {}))
    by_backend = {}
    for o in goals:
        k = f"{o.get('backend','?')}:{o['verdict']}"
        by_backend[k] = by_backend.get(k, 0) + 1
    trusted = sorted({t for u in units for t in u.trusted})
    from spec import registry

    samples = [{"obligation": o["name"], "path": o.get("path", "")[-120:], "verdict": o["verdict"], "backend": o.get("backend"), "ms": o["ms"], "hypotheses": o["hyps"]}
               for o in (proved[:: max(1, len(proved) // 6)][:6] + failed[:3])]
    wall = round(time.time() - t0, 2)
    n_known = sum(len(v[1]) for v in known_hits.values())
    ev = {
        "property_id": prop, "tier": tier, "seed": seed, "level": LEVELS.get(prop, "proof"),
        "coverage": {
            # obligations attributed to a listed known finding are itemised separately (they are *not* discharged and
            # the property is then not proved on this tree); `obligations` counts the remaining ones
            "obligations": len(goals) - n_known, "discharged": len(proved),
            "total_generated": len(goals), "known_finding_obligations": n_known,
            "checker_cmd": f"python3-vt check.py {prop} --tier {tier}",
            "trusted_base": trusted,
            "samples": samples,
            "explanation": ("every obligation generated from /repo's current source for this property was discharged" if len(proved) == len(goals) else
                            (f"the property is NOT proved on this tree: {n_known} obligation(s) fail because of the listed known finding(s) {sorted(known_hits)} "
                             f"(genuine defects, see known_findings.json); all {len(proved)} other obligations were discharged") if (len(proved) + n_known == len(goals)) else
                            f"NOT fully proved on this tree: {len(goals) - len(proved)} obligation(s) are not discharged "
                            f"({len(failed)} failed, {len(unknown)} unknown); failures matching known_findings.json: {sorted(known_hits)}; "
                            f"new violations: {len(violations)}"),
            "units": [{"unit": r["unit"], "status": r["status"], "obligations": len(r["obligations"]), "wall_s": r["wall_s"], "error": r["error"], "memo": r.get("cache", "")} for r in results],
            "functions_under_contract": funcs,
            "by_backend": by_backend,
            "solver_time_s": round(sum(o["ms"] for o in obls) / 1000.0, 2),
            "reach_covers": {"points": len(by_cover), "paths_checked": len(covers), "vacuous_points": len(vacuous)},
            "engine_selftest": selftest,
            "exhaustive_enumerations": native_info,
            "extraction_drops": front.EXTRACTION_DROPS,
            "assumed_contracts": registry.ASSUMED_CONTRACTS,
            "supporting_obligations": {"total": len(supporting), "discharged": len([o for o in supporting if o["verdict"] in ("proved", "reachable")]),
                                       "new_failures": [o["name"] for o in supporting_failed][:20],
                                       "note": "obligations of the same units tagged with other properties (the invariant is proved as a whole); failures among them that are not a listed finding of any property are reported as violations of this property too"},
            "known_findings": {fid: {"what_fails": f["what_fails"], "obligations": sorted({o['name'] for o in os_})[:20]} for fid, (f, os_) in known_hits.items()},
            "undecided": [o["name"] for o in still_unknown][:40] + [r["unit"] + ": " + str(r["error"]) for r in undecided_units],
            "replays": replays,
            "bounded_fallback": bounded_fallback,
            "bounded_parts": extras.get("bounded_monitor", {"note": "the bounded monitor runs in the thorough tier only; it is never counted towards `discharged`"}),
            "known_finding_replays": extras.get("known_finding_replays", []),
            "canaries": extras.get("canaries", {"note": "thorough tier only: seeded property-breaking changes must be detected"}),
            "cross_check_other_solvers": extras.get("cross_check", {"note": "thorough tier only"}),
            "assumed_contract_monitor": extras.get("assumed_contract_monitor", {"note": "thorough tier only: the assumed Semaphore/Task/gather/Queue contracts are cross-checked against the real interpreter on bounded histories"}),
        },
        "assumptions": trusted + registry.ASSUMED_CONTRACTS,
        "wall_s": wall,
        "violations": len(violations),
    }
    os.makedirs(os.path.join(OUT, "evidence"), exist_ok=True)
    json.dump(ev, open(os.path.join(OUT, "evidence", f"{prop}.json"), "w"), indent=1)
    print(f"{prop}: {len(goals)} obligations, {len(proved)} discharged, {len(failed)} failed ({sum(len(v[1]) for v in known_hits.values())} attributed to known findings), "
          f"{len(still_unknown)} undecided, {len(units)} units, {wall}s")
    if violations:
        return 1
    missed_canaries = [c["seed"] for c in extras.get("canaries", []) if isinstance(c, dict) and c.get("exit") == 0]
    if missed_canaries:
        print("CANARY-MISSED:", missed_canaries, "- seeded property-breaking changes are no longer detected")
        return 3
    if crashed or extras.get("cross_check", {}).get("disagreements") or extras.get("assumed_contract_monitor", {}).get("refuted"):
        if extras.get("assumed_contract_monitor", {}).get("refuted"):
            print("ASSUMED-CONTRACT-REFUTED:", extras["assumed_contract_monitor"]["refuted"])
        return 3
    if undecided_units or still_unknown or vacuous:
        return 2
    if not goals:
        print("no obligations generated - refusing to report success")
        return 3
    return 0


if __name__ == "__main__":
    sys.exit(main())
