"""The Future / Task contract the pool proofs rely on (DESIGN 3.6, T1-T5) - verified on the *reference implementation*
that ships with the interpreter that runs the package: `asyncio/futures.py` (class `Future` = `_PyFuture`) and
`asyncio/tasks.py` (class `Task` = `_PyTask`), located and parsed on every run like `/repo`.

What this does and does not establish: CPython normally runs the C accelerator `_asyncio.Future/Task`; the Python classes
verified here are the specification CPython's own test-suite runs both implementations against.  "The C accelerator
behaves like the reference implementation" stays an assumption (listed in the evidence) and is cross-checked, bounded, by
`replay/assumed_contracts.py` in the thorough tier against the live interpreter.

  Future   concrete `_state` (PENDING/CANCELLED/FINISHED), `_result`, `_exception`, `_callbacks` (list of (fn, ctx))
           ghost    `$sched`: the sequence of `loop.call_soon(fn, <this future>)` issued by the method under verification
           invariant FJ:  a done future holds no callback;  `_cancelled_exc` is None or a cancellation
  Task     concrete `_must_cancel`, `_fut_waiter`, `_num_cancels_requested` + the Future part behind `super()`
           ghost    the resumptions of the coroutine, the continuations registered (wake-up on a future / scheduled step)
"""
from __future__ import annotations

import ast
from typing import List

import z3

from pyvc import sym
from pyvc.interp import NORMAL, ExcV, Exit, Frame, Interp, LoopSpec, SelfV, St
from pyvc.run import Unit
from pyvc.sym import B, I, NONE, BoolV, BuiltinV, ClassV, FuncV, IntV, NoneV, PlaceV, Ref, RefV, SeqV, StrV, TupleV, Unsupported, V, fresh
from pyvc.theory import ArrV, Theory

from .asyncio_units import StdRepo, TRUSTED_ASYNCIO, arr_b, stdlib_file

UNITS: List[Unit] = []
F_PENDING, F_CANCELLED, F_FINISHED = 0, 1, 2
FUT_PROPS = ("C02", "C03", "C07", "C08", "C12", "C13")

TRUSTED_FUT = [
    "the C accelerator `_asyncio.Future` / `_asyncio.Task` behaves like the reference implementation asyncio.futures._PyFuture / asyncio.tasks._PyTask verified here (bounded cross-check against the live interpreter in the thorough tier)",
    "loop.call_soon(fn, *args) runs fn(*args) exactly once, later, in FIFO order, and nothing now",
    "repr()/format of a future or task and contextvars.copy_context() have no effect on the state",
    "cooperative atomicity; list as a sequence ADT (append, copy, clear)",
]


class PairL(sym.Layout):
    """(fn, ctx) entries of Future._callbacks"""

    def sorts(self):
        return [Ref, Ref]

    def pack(self, v):
        if not (isinstance(v, TupleV) and len(v.items) == 2):
            raise Unsupported(f"expected a (callback, context) pair, got {v!r}")
        out = []
        for x in v.items:
            if isinstance(x, NoneV):
                out.append(NONE)
            elif isinstance(x, RefV):
                out.append(x.t)
            else:
                raise Unsupported(f"callback entry component {x!r}")
        return out

    def unpack(self, ts):
        return TupleV([RefV(ts[0]), RefV(ts[1])])


def pairs(prefix, n=None) -> SeqV:
    return SeqV(fresh(prefix + "_n", I) if n is None else n, [fresh(prefix + "_fn", z3.ArraySort(I, Ref)), fresh(prefix + "_ctx", z3.ArraySort(I, Ref))], PairL(), mutable=True)


IS_CANC = "is_cancellation_object"
IS_CLASS = "is_a_class"
IS_STOPITER = "its_type_is_StopIteration"


class FutTheory(Theory):
    """theory for the bodies of asyncio/futures.py::Future"""

    LOOP = BuiltinV("<loop>")

    def initial(self) -> St:
        st = St()
        st.me = fresh("me", Ref)
        st.assume(st.me != NONE)
        st.sh = {"_state": IntV(fresh("state", I)), "_result": RefV(fresh("result", Ref)), "_exception": RefV(fresh("exception", Ref)), "_exception_tb": RefV(fresh("tb", Ref)),
                 "_cancel_message": RefV(fresh("cmsg", Ref)), "_cancelled_exc": RefV(fresh("cexc", Ref)), "_callbacks": pairs("cbs"), "_loop": self.LOOP,
                 "__log_traceback": BoolV(fresh("logtb", B)), "_asyncio_future_blocking": BoolV(fresh("blocking", B)), "_source_traceback": RefV(fresh("srctb", Ref)),
                 "$sched": pairs("sched", z3.IntVal(0))}
        for _n, f in self.FJ(st.sh):
            st.assume(f)
        return st

    @staticmethod
    def FJ(sh) -> List:
        s = sh["_state"].t
        return [("FJ.state-is-one-of-pending/cancelled/finished", z3.And(s >= 0, s <= 2)),
                ("FJ.a-done-future-holds-no-callback", z3.And(sh["_callbacks"].n >= 0, z3.Implies(s != F_PENDING, sh["_callbacks"].n == 0))),
                ("FJ._cancelled_exc-is-None-or-a-cancellation", z3.Or(sh["_cancelled_exc"].t == NONE, z3.Select(arr_b(IS_CANC), sh["_cancelled_exc"].t))),
                ("FJ.only-a-finished-future-carries-an-exception", z3.Implies(s != F_FINISHED, sh["_exception"].t == NONE))]

    def check_FJ(self, st, label, props):
        for n, f in self.FJ(st.sh):
            self.ip.require(st, f"inv:{n}@{label}", f, props)

    # ---- plumbing ----------------------------------------------------------------------------------------
    def may_set_field(self, st, fr, obj, attr) -> bool:
        return attr in st.sh and not attr.startswith("$")

    def coerce_field(self, st, attr, old, new):
        if isinstance(old, RefV) and isinstance(new, ExcV):
            if new.ref is None:
                raise Unsupported("an exception value without identity stored in a field")
            return RefV(new.ref)
        if isinstance(old, BuiltinV) and isinstance(new, BuiltinV):
            return new
        return super().coerce_field(st, attr, old, new)

    def equal(self, st, a, b, identity):
        for x, y in ((a, b), (b, a)):
            if isinstance(x, RefV) and isinstance(y, NoneV):
                return x.t == NONE
            if isinstance(x, BuiltinV) and isinstance(y, NoneV):
                return z3.BoolVal(False)
            if isinstance(x, ExcV) and isinstance(y, NoneV):
                return z3.BoolVal(False)
            if isinstance(x, RefV) and isinstance(y, ClassV) and y.name == "StopIteration" and getattr(x, "is_type_of", None) is not None:
                return z3.Select(arr_b(IS_STOPITER), x.is_type_of)
            if isinstance(x, RefV) and isinstance(y, SelfV):
                return x.t == st.me
        if isinstance(a, RefV) and isinstance(b, RefV):
            return a.t == b.t if identity else z3.Or(a.t == b.t, z3.Select(z3.Select(z3.Const("VALEQ", z3.ArraySort(Ref, z3.ArraySort(Ref, B))), a.t), b.t))
        if isinstance(a, NoneV) and isinstance(b, NoneV):
            return z3.BoolVal(True)
        return super().equal(st, a, b, identity)

    def to_str(self, st, fr, v):
        return [(st, StrV(fresh("rendered", sym.S)))]

    def value_attr(self, st, fr, v, attr):
        if isinstance(v, BuiltinV) and v.recv is None:
            return [(st, BuiltinV(f"{v.name}.{attr}"))]
        if isinstance(v, RefV):
            if attr == "__traceback__":
                return [(st, RefV(z3.Select(z3.Const("traceback_of", z3.ArraySort(Ref, Ref)), v.t)))]
            return [(st, BuiltinV(attr, recv=v))]
        if isinstance(v, ExcV):
            if attr == "value" and v.cls == "StopIteration":
                return [(st, v.args[0] if v.args else NoneV())]
            return [(st, BuiltinV(attr, recv=v))]
        return super().value_attr(st, fr, v, attr)

    def setattr(self, st, fr, obj, attr, v):
        if isinstance(obj, (RefV, ExcV)) and attr == "__context__":
            return [(st, NORMAL)]  # exception chaining: no effect on the state machine
        return super().setattr(st, fr, obj, attr, v)

    def raise_opaque(self, st, fr, v):
        canc = z3.Select(arr_b(IS_CANC), v.t)
        return [(canc, ExcV("CancelledError", [], ref=v.t)), (z3.Not(canc), ExcV("StoredException", [], ref=v.t))]

    def empty_list(self, st, fr, hint):
        return [(st, pairs("newlist", z3.IntVal(0)))]

    def subscript(self, st, fr, c, key):
        from pyvc.interp import SliceV

        if isinstance(c, SeqV) and isinstance(key, SliceV) and key.lower is None and key.upper is None and key.step is None:
            return [(st, SeqV(c.n, list(c.arrs), c.layout, mutable=True))]  # seq[:] - a copy
        return super().subscript(st, fr, c, key)

    def setitem(self, st, fr, cont, key, v):
        from pyvc.interp import SliceV

        ip = self.ip
        if isinstance(cont, PlaceV) and isinstance(key, SliceV) and key.lower is None and key.upper is None and key.step is None:
            c = ip.place_get(st, cont)
            v = ip.deref(st, v)
            if isinstance(c, SeqV) and isinstance(v, SeqV):
                ip.place_set(st, cont, SeqV(v.n, list(v.arrs), c.layout, mutable=True))  # seq[:] = other  (same list object, new contents)
                return [(st, NORMAL)]
        return super().setitem(st, fr, cont, key, v)

    def do_yield(self, st, fr, v, node):
        """`yield self` in Future.__await__: the task that awaits is suspended; meanwhile other code may complete the future
        (rely = the guarantees proved for the writers above: FJ holds, a done future never changes)"""
        ip = self.ip
        st.trace.append(("yield", v, st.sh["_asyncio_future_blocking"].t, st.sh["_state"].t))
        st.aux["at_yield"] = dict(st.sh)
        old = dict(st.sh)
        from pyvc.theory import havoc_like

        for k in ("_state", "_result", "_exception", "_exception_tb", "_callbacks", "_cancelled_exc", "_cancel_message", "_asyncio_future_blocking", "__log_traceback"):
            st.sh[k] = havoc_like(st.sh[k], "resumed_" + k.strip("_"))
        for _n, f in self.FJ(st.sh):
            st.assume(f)
        st.assume(z3.Implies(old["_state"].t != F_PENDING, z3.And(st.sh["_state"].t == old["_state"].t, st.sh["_result"].t == old["_result"].t, st.sh["_exception"].t == old["_exception"].t)))
        st.aux["resumed"] = dict(st.sh)
        out = []
        s1 = st.fork()
        s1.tags.append("resumed:send")
        out.append((s1, NoneV()))
        s2 = st.fork()
        s2.tags.append("resumed:throw")
        e = ExcV("ThrownIn", [])
        out.append((s2, Exit(Exit.RAISE, e)))
        return out

    def new_cancellation(self, st, msg=None):
        e = fresh("cancelled_error", Ref)
        st.assume(z3.And(e != NONE, z3.Select(arr_b(IS_CANC), e)))
        return RefV(e)

    def call_ref(self, st, fr, f, pos, kws, rest_kw, node):
        # exception = exception()   (an exception *class* was given)
        inst = fresh("instance", Ref)
        st.assume(z3.And(inst != NONE, z3.Not(z3.Select(arr_b(IS_CLASS), inst)), z3.Select(arr_b(IS_CANC), inst) == z3.Select(arr_b("class_of_cancellations"), f.t)))
        return [(st, RefV(inst))]

    def call_builtin(self, st, fr, f, pos, kws, rest_kw, node):
        ip = self.ip
        if f.recv is not None:
            return self.call_method(st, fr, f.recv, f.name, pos, kws, node)
        n = f.name
        if n == "exceptions.CancelledError":
            return [(st, self.new_cancellation(st))]
        if n == "exceptions.InvalidStateError":
            return [(st, ExcV("InvalidStateError", pos))]
        if n == "events.get_event_loop":
            return [(st, self.LOOP)]
        if n == "<loop>.get_debug":
            return [(st, BoolV(fresh("debug", B)))]
        if n in ("sys._getframe", "format_helpers.extract_stack", "contextvars.copy_context"):
            r = fresh(n.split(".")[-1], Ref)
            st.assume(r != NONE)
            return [(st, RefV(r))]
        if n == "<loop>.call_soon":
            # ghost: one more scheduled call; the argument must be this future
            fn = ip.deref(st, pos[0])
            ctx = ip.deref(st, kws.get("context", NoneV()))
            arg_is_self = len(pos) == 2 and isinstance(pos[1], SelfV)
            ip.require(st, "call_soon:a-done-callback-is-scheduled-with-the-future-itself-as-its-only-argument", z3.BoolVal(arg_is_self), FUT_PROPS)
            st.sh["$sched"] = st.sh["$sched"].append(TupleV([fn, ctx]))
            return [(st, NoneV())]
        if n == "isinstance":
            obj, cls = ip.deref(st, pos[0]), pos[1]
            if isinstance(obj, RefV) and isinstance(cls, BuiltinV) and cls.name == "type":
                return [(st, BoolV(z3.Select(arr_b(IS_CLASS), obj.t)))]
        if n == "type" and len(pos) == 1:
            obj = ip.deref(st, pos[0])
            if isinstance(obj, RefV):
                r = RefV(z3.Select(z3.Const("type_of", z3.ArraySort(Ref, Ref)), obj.t))
                r.is_type_of = obj.t
                return [(st, r)]
        if n == "len" and len(pos) == 1:
            v = ip.deref(st, pos[0])
            if isinstance(v, SeqV):
                return [(st, IntV(v.n))]
        raise Unsupported(f"builtin {n}()")

    def call_method(self, st, fr, recv, name, pos, kws, node):
        ip = self.ip
        val = ip.deref(st, recv)
        if isinstance(val, SeqV) and isinstance(recv, PlaceV) and name == "append":
            ip.place_set(st, recv, val.append(ip.deref(st, pos[0])))
            return [(st, NoneV())]
        if isinstance(val, RefV) and name == "with_traceback":
            return [(st, val)]
        raise Unsupported(f"method .{name}() on {type(val).__name__}")


VERIFIED_METHODS = {  # the bodies that are executed symbolically (everything else of the class is not under contract)
    "Future": {"__init__", "cancel", "__schedule_callbacks", "cancelled", "done", "result", "exception", "add_done_callback", "set_result", "set_exception", "__await__", "_make_cancelled_error"},
    "Task": {"__init__", "cancel", "uncancel", "__step", "__step_run_and_handle_result", "__wakeup"},
}


def fut_unit(name, props, theory=None, mod="asyncio.futures", short="futures", cls="Future", trusted=None):
    def deco(fn):
        def wrapped(ip: Interp, th):
            std = StdRepo(stdlib_file(mod), short)
            std.exc.update({"InvalidStateError": "Exception", "StoredException": "BaseException", "CancelledError": "BaseException", "ThrownIn": "BaseException"})
            ip.repo = std
            ip.extra_functions = {f"{mod}.{cls}.{m}": fi.src_hash for m, fi in std.classes[cls].methods.items() if m in VERIFIED_METHODS[cls]}
            ip.extra_functions[mod.replace(".", "/") + ".py"] = std.file_hash
            ip.consts = dict(ip.consts)
            ip.consts.update({"_PENDING": IntV(F_PENDING), "_CANCELLED": IntV(F_CANCELLED), "_FINISHED": IntV(F_FINISHED)})
            return fn(ip, th, std)

        UNITS.append(Unit(name, wrapped, props, [], theory_factory=theory or (lambda: FutTheory()), trusted=(trusted or TRUSTED_FUT)))
        return fn

    return deco


def _same_pairs(a: SeqV, b: SeqV):
    j = z3.Int("j!sp")
    return z3.And(a.n == b.n, z3.ForAll([j], z3.Implies(z3.And(0 <= j, j < a.n), z3.And(z3.Select(a.arrs[0], j) == z3.Select(b.arrs[0], j), z3.Select(a.arrs[1], j) == z3.Select(b.arrs[1], j)))))


@fut_unit("asyncio.futures.Future", FUT_PROPS)
def u_future(ip: Interp, th: FutTheory, std: StdRepo):
    P = FUT_PROPS
    Q = "futures.Future."
    SELF = SelfV("Future")

    def run(st, name, args):
        fi = std.get(Q + name)
        return ip.exec_function(st, fi, SELF, args)

    # loop of __schedule_callbacks: the copies visited so far have been scheduled, in order, each once; nothing else
    def inv_sched(c):
        s = c.st
        cbs = c.loc0("callbacks")
        sched = s.sh["$sched"]
        j = z3.Int("j!sc")
        return [("the-callbacks-visited-so-far-are-scheduled-once-each-in-registration-order",
                 z3.And(sched.n == c.i, z3.ForAll([j], z3.Implies(z3.And(0 <= j, j < c.i), z3.And(z3.Select(sched.arrs[0], j) == z3.Select(cbs.arrs[0], j), z3.Select(sched.arrs[1], j) == z3.Select(cbs.arrs[1], j)))))),
                ("state-and-list-untouched-while-scheduling", z3.And(s.sh["_state"].t == c.st0.sh["_state"].t, s.sh["_callbacks"].n == c.st0.sh["_callbacks"].n))]

    ip.loopspecs[(Q + "__schedule_callbacks", 1)] = LoopSpec(inv_sched, P, name="schedule-callbacks")

    def frame_untouched(s, sh0, keys):
        return z3.And([z3.And([x == y for x, y in zip(sym_terms(s.sh[k]), sym_terms(sh0[k]))]) for k in keys])

    def sym_terms(v):
        from pyvc.theory import terms_of

        return terms_of(v)

    def transitions(mname, args_of, new_state, stores):
        """cancel / set_result / set_exception: the three writers of `_state`"""
        st = th.initial()
        sh0 = dict(st.sh)
        args = args_of(st)
        s0 = sh0["_state"].t
        cbs0 = sh0["_callbacks"]
        for s, v in run(st, mname, args):
            was_pending = s0 == F_PENDING
            if isinstance(v, Exit) and v.kind == Exit.RAISE:
                cls = v.val.cls
                if mname == "set_exception" and cls == "TypeError":
                    ip.require(s, f"{mname}:TypeError-only-for-a-StopIteration,nothing-changed", z3.And(was_pending, s.sh["_state"].t == s0, _same_pairs(s.sh["_callbacks"], cbs0), s.sh["$sched"].n == 0), P)
                    continue
                ip.require(s, f"{mname}:raises-only-InvalidStateError:{cls}", z3.BoolVal(cls == "InvalidStateError" and mname != "cancel"), P)
                ip.require(s, f"{mname}:InvalidStateError-exactly-when-already-done,nothing-changed(no-transition-leaves-a-done-state)",
                           z3.And(z3.Not(was_pending), frame_untouched(s, sh0, ["_state", "_result", "_exception", "_callbacks"]), s.sh["$sched"].n == 0), P)
                continue
            sched = s.sh["$sched"]
            ret_true = v.t if isinstance(v, BoolV) else z3.BoolVal(True)
            if mname == "cancel":
                ip.require(s, "cancel:returns-True-exactly-when-the-future-was-pending", z3.BoolVal(isinstance(v, BoolV)) if not isinstance(v, BoolV) else v.t == was_pending, P)
            else:
                ip.require(s, f"{mname}:returns-normally-only-when-the-future-was-pending", was_pending, P)
            ip.require(s, f"{mname}:a-done-future-is-left-exactly-as-it-was(no-transition-leaves-a-done-state)",
                       z3.Implies(z3.Not(was_pending), z3.And(frame_untouched(s, sh0, ["_state", "_result", "_exception", "_callbacks"]), sched.n == 0)), P)
            ip.require(s, f"{mname}:a-pending-future-moves-to-{['pending', 'cancelled', 'finished'][new_state]}", z3.Implies(was_pending, s.sh["_state"].t == new_state), P)
            for label, f in stores(s, sh0, args):
                ip.require(s, f"{mname}:{label}", z3.Implies(was_pending, f), P)
            j = z3.Int("j!post")
            ip.require(s, f"{mname}:every-registered-callback-is-scheduled-exactly-once,in-registration-order,and-the-list-is-emptied",
                       z3.Implies(was_pending, z3.And(sched.n == cbs0.n, s.sh["_callbacks"].n == 0,
                                                      z3.ForAll([j], z3.Implies(z3.And(0 <= j, j < cbs0.n), z3.And(z3.Select(sched.arrs[0], j) == z3.Select(cbs0.arrs[0], j), z3.Select(sched.arrs[1], j) == z3.Select(cbs0.arrs[1], j)))))), P)
            th.check_FJ(s, mname, P)

    transitions("cancel", lambda st: {"msg": RefV(fresh("msg", Ref))}, F_CANCELLED,
                lambda s, sh0, a: [("result-and-exception-untouched", z3.And(s.sh["_result"].t == sh0["_result"].t, s.sh["_exception"].t == sh0["_exception"].t))])
    transitions("set_result", lambda st: {"result": RefV(fresh("given_result", Ref))}, F_FINISHED,
                lambda s, sh0, a: [("stores-exactly-the-given-result,no-exception", z3.And(s.sh["_result"].t == a["result"].t, s.sh["_exception"].t == sh0["_exception"].t))])

    def exc_arg(st):
        e = fresh("given_exception", Ref)
        st.assume(e != NONE)
        return {"exception": RefV(e)}

    def exc_stores(s, sh0, a):
        e, stored = a["exception"].t, s.sh["_exception"].t
        isc = z3.Select(arr_b(IS_CLASS), e)
        return [("stores-the-given-exception(or-an-instance-of-the-given-class),result-untouched", z3.And(stored != NONE, z3.Implies(z3.Not(isc), stored == e), s.sh["_result"].t == sh0["_result"].t))]

    transitions("set_exception", exc_arg, F_FINISHED, exc_stores)

    # ---- the pure queries ----------------------------------------------------------------------------------
    for mname, want in (("done", lambda sh: sh["_state"].t != F_PENDING), ("cancelled", lambda sh: sh["_state"].t == F_CANCELLED)):
        st = th.initial()
        sh0 = dict(st.sh)
        for s, v in run(st, mname, {}):
            ip.require(s, f"{mname}:reports-the-state,pure", z3.And(v.t == want(sh0) if isinstance(v, BoolV) else z3.BoolVal(False), z3.BoolVal(all(s.sh[k] is sh0[k] for k in sh0))), P)

    # ---- result() / exception() ----------------------------------------------------------------------------
    for mname in ("result", "exception"):
        st = th.initial()
        sh0 = dict(st.sh)
        s0 = sh0["_state"].t
        for s, v in run(st, mname, {}):
            ip.require(s, f"{mname}:state,outcome,callbacks-untouched;nothing-scheduled", z3.And(frame_untouched(s, sh0, ["_state", "_result", "_exception", "_callbacks"]), s.sh["$sched"].n == 0), P)
            th.check_FJ(s, mname, P)
            if isinstance(v, Exit) and v.kind == Exit.RAISE:
                cls = v.val.cls
                if cls in ("CancelledError", "StoredException") and v.val.ref is not None:
                    # either the future was cancelled (a cancellation is raised), or - result() only - it is finished and the
                    # exception raised is the very object that was stored (which may itself be a CancelledError instance)
                    stored = z3.And(s0 == F_FINISHED, sh0["_exception"].t != NONE, v.val.ref == sh0["_exception"].t, z3.BoolVal(mname == "result"))
                    ip.require(s, f"{mname}:raises-a-cancellation-exactly-for-a-cancelled-future,else-exactly-the-stored-exception-of-a-finished-one(never-a-different-one)",
                               z3.Or(z3.And(s0 == F_CANCELLED, z3.BoolVal(cls == "CancelledError")), stored), P)
                elif cls == "InvalidStateError":
                    ip.require(s, f"{mname}:InvalidStateError-exactly-for-a-pending-future", s0 == F_PENDING, P)
                else:
                    ip.require(s, f"{mname}:no-other-exception:{cls}", z3.BoolVal(False), P)
                continue
            if mname == "result":
                ip.require(s, "result:returns-exactly-the-stored-result-of-a-finished-future-without-exception", z3.And(s0 == F_FINISHED, sh0["_exception"].t == NONE, v.t == sh0["_result"].t if isinstance(v, RefV) else z3.BoolVal(False)), P)
            else:
                ip.require(s, "exception:returns-the-stored-exception-(None-if-none)-of-a-finished-future", z3.And(s0 == F_FINISHED, v.t == sh0["_exception"].t if isinstance(v, RefV) else z3.BoolVal(False)), P)

    # ---- add_done_callback ---------------------------------------------------------------------------------
    st = th.initial()
    sh0 = dict(st.sh)
    s0 = sh0["_state"].t
    fn = fresh("fn", Ref)
    st.assume(fn != NONE)
    for ctx_given in (False, True):
        st1 = st.fork()
        ctx = RefV(fresh("ctx", Ref)) if ctx_given else NoneV()
        if ctx_given:
            st1.assume(ctx.t != NONE)
        for s, v in run(st1, "add_done_callback", {"fn": RefV(fn), "context": ctx}):
            tag = f"add_done_callback[context={'given' if ctx_given else 'None'}]"
            if isinstance(v, Exit) and v.kind == Exit.RAISE:
                ip.require(s, f"{tag}:noraise:{v.val.cls}", z3.BoolVal(False), P)
                continue
            cbs, sched = s.sh["_callbacks"], s.sh["$sched"]
            j = z3.Int("j!adc")
            ip.require(s, f"{tag}:pending:appended-at-the-end-exactly-once,nothing-scheduled-now",
                       z3.Implies(s0 == F_PENDING, z3.And(cbs.n == sh0["_callbacks"].n + 1, z3.Select(cbs.arrs[0], sh0["_callbacks"].n) == fn, sched.n == 0,
                                                          z3.ForAll([j], z3.Implies(z3.And(0 <= j, j < sh0["_callbacks"].n), z3.And(z3.Select(cbs.arrs[0], j) == z3.Select(sh0["_callbacks"].arrs[0], j), z3.Select(cbs.arrs[1], j) == z3.Select(sh0["_callbacks"].arrs[1], j)))))), P)
            ip.require(s, f"{tag}:done:scheduled-at-once-exactly-once,list-untouched(so-it-runs-once-after-the-future-is-done)",
                       z3.Implies(s0 != F_PENDING, z3.And(sched.n == 1, z3.Select(sched.arrs[0], 0) == fn, cbs.n == sh0["_callbacks"].n)), P)
            ip.require(s, f"{tag}:state-and-outcome-untouched", frame_untouched(s, sh0, ["_state", "_result", "_exception"]), P)
            th.check_FJ(s, "add_done_callback", P)

    # ---- __init__ ------------------------------------------------------------------------------------------
    for loop_given in (False, True):
        st = th.initial()
        for k in ("_state", "_callbacks"):
            pass
        # class attributes are the initial values: _state = _PENDING, _result = _exception = None, ...
        cls_node = std.classes["Future"].node
        defaults = {t.id: ast.unparse(n.value) for n in cls_node.body if isinstance(n, ast.Assign) for t in n.targets if isinstance(t, ast.Name)}
        ip.require(st, "class-attributes:a-new-future-starts-pending-without-result,exception,cancellation", z3.BoolVal(
            defaults.get("_state") == "_PENDING" and defaults.get("_result") == "None" and defaults.get("_exception") == "None" and defaults.get("_cancelled_exc") == "None" and defaults.get("_asyncio_future_blocking") == "False"), P)
        st.sh["_state"] = IntV(F_PENDING)
        st.sh["_exception"] = RefV(NONE)
        st.sh["_cancelled_exc"] = RefV(NONE)
        st.sh["_callbacks"] = pairs("uninit")
        for s, v in run(st, "__init__", {"loop": th.LOOP if loop_given else NoneV()}):
            ip.require(s, f"__init__[loop={'given' if loop_given else 'None'}]:pending,no-callbacks,nothing-scheduled", z3.And(z3.BoolVal(not isinstance(v, Exit)), s.sh["_state"].t == F_PENDING, s.sh["_callbacks"].n == 0, s.sh["$sched"].n == 0), P)
            th.check_FJ(s, "__init__", P)

    # ---- who writes `_state` and `_callbacks`: only the methods verified above --------------------------------
    writers, cb_writers = set(), set()
    for m, fi in std.classes["Future"].methods.items():
        for n in ast.walk(fi.node):
            if isinstance(n, (ast.Assign, ast.AugAssign, ast.Delete)):
                for t in (n.targets if not isinstance(n, ast.AugAssign) else [n.target]):
                    for x in ast.walk(t):
                        if isinstance(x, ast.Attribute) and x.attr == "_state":
                            writers.add(m)
                        if isinstance(x, ast.Attribute) and x.attr == "_callbacks":
                            cb_writers.add(m)
            if isinstance(n, ast.Call) and isinstance(n.func, ast.Attribute) and isinstance(n.func.value, ast.Attribute) and n.func.value.attr == "_callbacks":
                cb_writers.add(m)
    ip.require(th.initial(), "callgraph:only-cancel/set_result/set_exception-write-the-state", z3.BoolVal(writers == {"cancel", "set_result", "set_exception"}), P)
    ip.require(th.initial(), "callgraph:only-__init__/add/remove_done_callback/__schedule_callbacks-touch-the-callback-list",
               z3.BoolVal(cb_writers <= {"__init__", "add_done_callback", "remove_done_callback", "__schedule_callbacks"} and "__schedule_callbacks" in cb_writers), P)

    # ---- __await__: the protocol between a future and the task that awaits it ------------------------------------
    st = th.initial()
    sh0 = dict(st.sh)
    s0 = sh0["_state"].t
    for s, v in run(st, "__await__", {}):
        ys = [e for e in s.trace if e[0] == "yield"]
        ip.require(s, "__await__:yields-at-most-once", z3.BoolVal(len(ys) <= 1), P)
        if not ys:
            ip.require(s, "__await__:no-suspension-exactly-when-the-future-is-already-done", s0 != F_PENDING, P)
            r = sh0
        else:
            ip.require(s, "__await__:suspends-exactly-when-the-future-is-pending,yielding-itself-with-the-blocking-flag-set(what-Task.__step-expects)",
                       z3.And(s0 == F_PENDING, z3.BoolVal(isinstance(ys[0][1], SelfV)), ys[0][2]), P)
            r = s.aux["resumed"]
            if "resumed:throw" in s.tags:
                ip.require(s, "__await__:an-exception-thrown-in-by-the-task(cancellation)-propagates-unchanged;the-future-is-not-touched",
                           z3.And(z3.BoolVal(isinstance(v, Exit) and v.kind == Exit.RAISE and v.val.cls == "ThrownIn"), frame_untouched(s, r, ["_state", "_result", "_exception", "_callbacks"])), P)
                continue
        rs = r["_state"].t
        ip.require(s, "__await__:the-future-itself-is-not-changed-by-being-awaited", frame_untouched(s, r, ["_state", "_result", "_exception", "_callbacks"]), P)
        if isinstance(v, Exit) and v.kind == Exit.RAISE:
            cls = v.val.cls
            if cls == "RuntimeError":
                ip.require(s, "__await__:RuntimeError-exactly-when-resumed-while-still-pending(never-with-Task:wake-up-is-a-done-callback)", z3.And(rs == F_PENDING, z3.BoolVal(bool(ys))), P)
            elif cls in ("CancelledError", "StoredException") and v.val.ref is not None:
                ip.require(s, "__await__:raises-a-cancellation-exactly-when-the-future-was-cancelled,else-exactly-its-stored-exception(never-a-different-one)",
                           z3.Or(z3.And(rs == F_CANCELLED, z3.BoolVal(cls == "CancelledError")), z3.And(rs == F_FINISHED, r["_exception"].t != NONE, v.val.ref == r["_exception"].t)), P)
            else:
                ip.require(s, f"__await__:no-other-exception:{cls}", z3.BoolVal(False), P)
            continue
        ip.require(s, "__await__:returns-normally-exactly-the-result-of-a-finished-future-without-exception(a-task-resumes-normally-only-then)",
                   z3.And(rs == F_FINISHED, r["_exception"].t == NONE, v.t == r["_result"].t if isinstance(v, RefV) else z3.BoolVal(False)), P)
    cls_node = std.classes["Future"].node
    ip.require(th.initial(), "anchor:__iter__-is-__await__", z3.BoolVal(any(isinstance(n, ast.Assign) and ast.unparse(n) == "__iter__ = __await__" for n in cls_node.body)), P)


# ======================================================================================================
# asyncio.tasks.Task  (reference implementation `_PyTask`)  -  the Task contract T1-T5 of DESIGN 3.6
#   The Future part of a task is reached through `self.done()` / `super().cancel()` / `super().set_result()` /
#   `super().set_exception()`: at those call sites the contracts proved by the unit above are applied.
#   The coroutine is opaque: `coro.send(None)` / `coro.throw(exc)` run user code, which may call `task.cancel()` /
#   `uncancel()` on this very task (so `_must_cancel`, the request counter and the message are havocked) and ends in one of:
#   StopIteration(value) | CancelledError | KeyboardInterrupt/SystemExit | another exception | a yielded object.
#   Language semantics assumed: `throw(exc)` into a coroutine that has not started raises exactly `exc` and executes
#   no statement of the coroutine (this is T3, the root of finding F1).
# ======================================================================================================
TASK_PROPS = ("C02", "C03", "C06", "C07", "C08", "C12", "C14")
BLK_ABSENT, BLK_TRUE, BLK_FALSE = 0, 1, 2
TRUSTED_TASK = TRUSTED_FUT + [
    "coroutine objects: send(None)/throw(exc) resume the coroutine once and end in StopIteration(value), an exception, or a yielded object; throw(exc) into a coroutine that has not started raises exc itself without executing any of its statements",
    "user code running inside the coroutine touches the task only through cancel()/uncancel()/cancelling() (it cannot complete the task's own future: Task.set_result/set_exception raise RuntimeError)",
    "the event loop runs every handle it was given by call_soon exactly once; loop debug mode is off (no _source_traceback)",
    "Future contract of the awaited object as proved by unit asyncio.futures.Future (cancel() returns True exactly for a pending future and cancels it; a done-callback runs once after the future is done; result() raises/returns its outcome)",
]


class TaskTheory(FutTheory):
    THE_LOOP = z3.Const("the_loop", Ref)

    def initial(self) -> St:
        st = St()
        st.me = fresh("me", Ref)
        st.assume(z3.And(st.me != NONE, self.THE_LOOP != NONE))
        st.sh = {"_state": IntV(fresh("state", I)), "_must_cancel": BoolV(fresh("must_cancel", B)), "_fut_waiter": RefV(fresh("fut_waiter", Ref)), "_coro": RefV(fresh("coro", Ref)),
                 "_context": RefV(fresh("context", Ref)), "_loop": RefV(self.THE_LOOP), "_num_cancels_requested": IntV(fresh("ncancel", I)), "_cancel_message": RefV(fresh("cmsg", Ref)),
                 "_cancelled_exc": RefV(fresh("cexc", Ref)), "_log_traceback": BoolV(fresh("logtb", B)), "_name": StrV(fresh("name", sym.S)), "_log_destroy_pending": BoolV(True),
                 "_source_traceback": NoneV(), "$result": RefV(fresh("own_result", Ref)), "$exception": RefV(fresh("own_exception", Ref)),
                 "$fstate": ArrV(fresh("fstate", z3.ArraySort(Ref, I))), "$blk": ArrV(fresh("blk", z3.ArraySort(Ref, I))), "$started": BoolV(fresh("started", B))}
        x = z3.Const("x!ts", Ref)
        st.assume(z3.ForAll([x], z3.And(z3.Select(st.sh["$fstate"].t, x) >= 0, z3.Select(st.sh["$fstate"].t, x) <= 2, z3.Select(st.sh["$blk"].t, x) >= 0, z3.Select(st.sh["$blk"].t, x) <= 2)))
        st.assume(z3.And(st.sh["_state"].t >= 0, st.sh["_state"].t <= 2, st.sh["_num_cancels_requested"].t >= 0, st.sh["_coro"].t != NONE))
        st.assume(z3.Select(st.sh["$blk"].t, NONE) == BLK_ABSENT)
        return st

    def may_set_field(self, st, fr, obj, attr) -> bool:
        return attr in st.sh and not attr.startswith("$") and attr != "_state"

    def coerce_field(self, st, attr, old, new):
        if isinstance(old, NoneV) and isinstance(new, NoneV):
            return new
        return super().coerce_field(st, attr, old, new)

    def self_attr(self, st, fr, v, attr):
        if attr in ("done", "cancelled", "_make_cancelled_error"):
            return [(st, BuiltinV("self." + attr))]
        return super().self_attr(st, fr, v, attr)

    def value_attr(self, st, fr, v, attr):
        if isinstance(v, ExcV) and attr == "value" and v.cls == "StopIteration":
            return [(st, v.args[0] if v.args else NoneV())]
        return super().value_attr(st, fr, v, attr)

    def setattr(self, st, fr, obj, attr, v):
        if isinstance(obj, RefV) and attr == "_asyncio_future_blocking":
            v = self.ip.deref(st, v)
            if isinstance(v, BoolV):
                st.sh["$blk"] = ArrV(z3.Store(st.sh["$blk"].t, obj.t, z3.If(v.t, BLK_TRUE, BLK_FALSE)))
                st.trace.append(("set_blocking", obj.t, v.t))
                return [(st, NORMAL)]
        return super().setattr(st, fr, obj, attr, v)

    # ---- the Future part of this task: contracts proved by unit asyncio.futures.Future -------------------------
    def _super_transition(self, st, name, new_state, store=None):
        ip = self.ip
        s0 = st.sh["_state"].t
        if name == "cancel":
            ret = s0 == F_PENDING
            st.trace.append(("super.cancel", ret))
            st.sh["_state"] = IntV(z3.If(ret, z3.IntVal(F_CANCELLED), s0))
            return [(st, BoolV(ret))]
        out = []
        for s, pend in ip.branch(st, s0 == F_PENDING, "own-future-pending"):
            if not pend:
                out.append((s, Exit(Exit.RAISE, ExcV("InvalidStateError", []))))
                continue
            s.trace.append(("super." + name, store))
            s.sh["_state"] = IntV(F_FINISHED)
            if name == "set_result":
                s.sh["$result"] = store if isinstance(store, RefV) else RefV(NONE)
            else:
                s.sh["$exception"] = RefV(store.ref) if isinstance(store, ExcV) and store.ref is not None else RefV(fresh("stored_exc", Ref))
            out.append((s, NoneV()))
        return out

    def resume_outcomes(self, st, kind, exc):
        """coro.send(None) / coro.throw(exc)"""
        ip = self.ip
        started = st.sh["$started"].t
        st.trace.append(("resume", kind, exc, st.sh["_must_cancel"].t, st.sh["_fut_waiter"].t, st.sh["_state"].t, len([e for e in st.trace if e[0] == "enter"]) - len([e for e in st.trace if e[0] == "leave"])))
        out = []
        if kind == "throw":
            # not started: the exception comes straight back, no statement of the coroutine runs
            s = st.fork()
            s.assume(z3.Not(started))
            if ip.feasible(s):
                s.tags.append("coro:not-started:throw-comes-straight-back")
                s.trace.append(("body-ran", False))
                out.append((s, Exit(Exit.RAISE, exc)))
            st = st.fork()
            st.assume(started)
            if not ip.feasible(st):
                return out
        # user code runs: it may request / withdraw cancellations of this very task
        st.sh["$started"] = BoolV(True)
        st.trace.append(("body-ran", True))
        st.sh["_must_cancel"] = BoolV(fresh("must_cancel_after_user_code", B))
        st.sh["_num_cancels_requested"] = IntV(fresh("ncancel_after_user_code", I))
        st.sh["_cancel_message"] = RefV(fresh("cmsg_after_user_code", Ref))
        for tag, mk in (("StopIteration", lambda s: ExcV("StopIteration", [RefV(fresh("return_value", Ref))])),
                        ("CancelledError", lambda s: ExcV("CancelledError", [], ref=self.new_cancellation(s).t)),
                        ("KeyboardInterrupt", lambda s: ExcV("KeyboardInterrupt", [], ref=fresh("kbd", Ref))),
                        ("SystemExit", lambda s: ExcV("SystemExit", [], ref=fresh("sysexit", Ref))),
                        ("UserExc", lambda s: ExcV("UserExc", [], ref=fresh("user_exc", Ref))),
                        ("OtherBaseExc", lambda s: ExcV("OtherBaseExc", [], ref=fresh("base_exc", Ref)))):
            s = st.fork()
            s.tags.append("coro:raises:" + tag)
            out.append((s, Exit(Exit.RAISE, mk(s))))
        s = st.fork()
        s.tags.append("coro:yields")
        r = fresh("yielded", Ref)
        out.append((s, RefV(r)))
        return out

    def call_builtin(self, st, fr, f, pos, kws, rest_kw, node):
        ip = self.ip
        if f.recv is not None:
            return self.call_method(st, fr, f.recv, f.name, pos, kws, node)
        n = f.name
        if n == "self.done":
            return [(st, BoolV(st.sh["_state"].t != F_PENDING))]
        if n == "self.cancelled":
            return [(st, BoolV(st.sh["_state"].t == F_CANCELLED))]
        if n == "self._make_cancelled_error":
            # Future._make_cancelled_error: the saved cancellation if there is one, else a new one
            c = self.new_cancellation(st)
            st.sh["_cancelled_exc"] = RefV(NONE)
            return [(st, ExcV("CancelledError", [], ref=c.t))]
        if n == "super":
            return [(st, BuiltinV("<super>"))]
        if n == "<super>.cancel":
            return self._super_transition(st, "cancel", F_CANCELLED)
        if n == "<super>.set_result":
            return self._super_transition(st, "set_result", F_FINISHED, ip.deref(st, pos[0]))
        if n == "<super>.set_exception":
            return self._super_transition(st, "set_exception", F_FINISHED, ip.deref(st, pos[0]))
        if n == "<super>.__init__":
            st.trace.append(("super.__init__", kws.get("loop")))
            st.sh["_state"] = IntV(F_PENDING)
            return [(st, NoneV())]
        if n == "isinstance":
            obj, cls = ip.deref(st, pos[0]), pos[1]
            cname = cls.name.split(".")[-1] if isinstance(cls, BuiltinV) else (cls.name if isinstance(cls, ClassV) else None)
            if cname is not None and isinstance(obj, ExcV):
                return [(st, BoolV(ip.repo.is_subclass_exc(obj.cls, cname)))]
            if cname is not None and isinstance(obj, NoneV):
                return [(st, BoolV(False))]
        if n == "getattr" and len(pos) == 3 and isinstance(pos[1], StrV) and pos[1].lit == "_asyncio_future_blocking" and isinstance(pos[2], NoneV):
            obj = ip.deref(st, pos[0])
            if isinstance(obj, RefV):
                b = z3.Select(st.sh["$blk"].t, obj.t)
                out = []
                for tag, cond, val in (("blocking-attr:absent", b == BLK_ABSENT, NoneV()), ("blocking-attr:True", b == BLK_TRUE, BoolV(True)), ("blocking-attr:False", b == BLK_FALSE, BoolV(False))):
                    s = st.fork()
                    s.assume(cond)
                    if ip.feasible(s):
                        s.tags.append(tag)
                        out.append((s, val))
                return out
        if n == "futures._get_loop":
            obj = ip.deref(st, pos[0])
            return [(st, RefV(z3.Select(z3.Const("loop_of", z3.ArraySort(Ref, Ref)), obj.t)))]
        if n == "inspect.isgenerator":
            obj = ip.deref(st, pos[0])
            return [(st, BoolV(z3.Select(arr_b("is_generator"), obj.t)))]
        if n == "coroutines.iscoroutine":
            obj = ip.deref(st, pos[0])
            return [(st, BoolV(z3.Select(arr_b("is_coroutine"), obj.t)))]
        if n == "_task_name_counter":
            return [(st, IntV(fresh("task_no", I)))]
        if n == "str" and len(pos) == 1:
            return self.ip.to_str(st, fr, pos[0])
        if n == "futures.isfuture":
            obj = ip.deref(st, pos[0])
            return [(st, BoolV(z3.Select(arr_b("is_future"), obj.t)))]
        if n == "events.get_running_loop":
            return [(st, RefV(self.THE_LOOP))]
        if n == "contextvars.copy_context":
            r = fresh("new_context", Ref)
            st.assume(r != NONE)
            return [(st, RefV(r))]
        if n in ("exceptions.CancelledError", "exceptions.InvalidStateError", "events.get_event_loop"):
            return super().call_builtin(st, fr, f, pos, kws, rest_kw, node)
        raise Unsupported(f"builtin {n}()")

    def call_method(self, st, fr, recv, name, pos, kws, node):
        ip = self.ip
        val = ip.deref(st, recv)
        if isinstance(val, RefV):
            if name in ("send", "throw") and z3.eq(val.t, st.sh["_coro"].t):
                arg = ip.deref(st, pos[0])
                return self.resume_outcomes(st, name, arg)
            if name == "call_soon" and z3.eq(val.t, self.THE_LOOP):
                fn = pos[0]
                st.trace.append(("call_soon", fn.name if isinstance(fn, FuncV) else fn, [ip.deref(st, a) for a in pos[1:]], kws.get("context")))
                return [(st, NoneV())]
            if name == "create_task" and z3.eq(val.t, self.THE_LOOP):
                t = fresh("created_task", Ref)
                st.assume(t != NONE)
                st.trace.append(("loop.create_task", ip.deref(st, pos[0]) if pos else None, dict(kws), t))
                return [(st, RefV(t))]
            if name == "set_name":
                st.trace.append(("set_name", val.t, ip.deref(st, pos[0]) if pos else None))
                return [(st, NoneV())]
            if name == "is_running" and z3.eq(val.t, self.THE_LOOP):
                return [(st, BoolV(fresh("loop_running", B)))]
            if name == "add_done_callback":
                fn = pos[0]
                st.trace.append(("add_done_callback", val.t, fn.name if isinstance(fn, FuncV) else fn, kws.get("context")))
                return [(st, NoneV())]
            if name == "cancel":
                # Future.cancel of the awaited future (contract of unit asyncio.futures.Future)
                fs = st.sh["$fstate"].t
                ret = z3.Select(fs, val.t) == F_PENDING
                st.sh["$fstate"] = ArrV(z3.Store(fs, val.t, z3.If(ret, z3.IntVal(F_CANCELLED), z3.Select(fs, val.t))))
                st.trace.append(("waiter.cancel", val.t, ret, kws.get("msg")))
                return [(st, BoolV(ret))]
            if name == "result":
                fs = z3.Select(st.sh["$fstate"].t, val.t)
                out = []
                for tag, cond, mk in (("future:pending", fs == F_PENDING, lambda s: Exit(Exit.RAISE, ExcV("InvalidStateError", []))),
                                      ("future:cancelled", fs == F_CANCELLED, lambda s: Exit(Exit.RAISE, ExcV("CancelledError", [], ref=self.new_cancellation(s).t))),
                                      ("future:finished-with-exception", fs == F_FINISHED, lambda s: Exit(Exit.RAISE, ExcV("UserExc", [], ref=fresh("future_exception", Ref)))),
                                      ("future:finished-with-result", fs == F_FINISHED, lambda s: RefV(fresh("future_result", Ref)))):
                    s = st.fork()
                    s.assume(cond)
                    if ip.feasible(s):
                        s.tags.append(tag)
                        out.append((s, mk(s)))
                return out
        raise Unsupported(f"method .{name}() on {type(val).__name__}")


def _events(s, kind):
    return [e for e in s.trace if e[0] == kind]


@fut_unit("asyncio.tasks.Task", TASK_PROPS, theory=lambda: TaskTheory(), mod="asyncio.tasks", short="tasks", cls="Task", trusted=TRUSTED_TASK)
def u_task(ip: Interp, th: TaskTheory, std: StdRepo):
    P = TASK_PROPS
    Q = "tasks.Task."
    SELF = SelfV("Task")
    std.exc.update({"UserExc": "Exception", "OtherBaseExc": "BaseException", "KeyboardInterrupt": "BaseException", "SystemExit": "BaseException", "StopIteration": "Exception", "RuntimeError": "Exception", "TypeError": "Exception"})

    def c_enter(ip_, s, fr, selfv, args):
        s.trace.append(("enter",))
        return [(s, NoneV())]

    def c_leave(ip_, s, fr, selfv, args):
        s.trace.append(("leave",))
        return [(s, NoneV())]

    def c_register(ip_, s, fr, selfv, args):
        s.trace.append(("register",))
        return [(s, NoneV())]

    ip.contracts["tasks._enter_task"] = c_enter
    ip.contracts["tasks._leave_task"] = c_leave
    ip.contracts["tasks._register_task"] = c_register

    def run(st, name, args):
        fi = std.get(Q + name)
        return ip.exec_function(st, fi, SELF, args)

    def n_conts(s):
        return len(_events(s, "call_soon")) + len(_events(s, "add_done_callback"))

    # ================= __step (with __step_run_and_handle_result inlined) ==========================================
    for exc_kind in ("none", "cancelled", "other"):
        st = th.initial()
        sh0 = dict(st.sh)
        if exc_kind == "none":
            exc_in = NoneV()
        elif exc_kind == "cancelled":
            exc_in = ExcV("CancelledError", [], ref=th.new_cancellation(st).t)
        else:
            exc_in = ExcV("UserExc", [], ref=fresh("exc_in", Ref))
        T = f"__step[exc={exc_kind}]:"
        done0 = sh0["_state"].t != F_PENDING
        mc0 = sh0["_must_cancel"].t
        for s, v in run(st, "__step", {"exc": exc_in}):
            res = _events(s, "resume")
            raised = v.val.cls if isinstance(v, Exit) and v.kind == Exit.RAISE else None
            if not res:
                ip.require(s, T + "the-coroutine-is-not-resumed-exactly-when-the-task-is-already-done(InvalidStateError,nothing-changed)",
                           z3.And(done0, z3.BoolVal(raised == "InvalidStateError" and n_conts(s) == 0 and not _events(s, "enter")), s.sh["_state"].t == sh0["_state"].t, s.sh["_must_cancel"].t == mc0), P)
                continue
            ip.require(s, T + "the-coroutine-is-resumed-exactly-once-per-step,only-when-the-task-is-not-done", z3.And(z3.Not(done0), z3.BoolVal(len(res) == 1)), P)
            _k, kind, thrown, mc_at_resume, waiter_at_resume, _st, depth = res[0]
            ip.require(s, T + "at-the-resumption:_must_cancel-cleared,_fut_waiter-None,inside-exactly-one-_enter_task", z3.And(z3.Not(mc_at_resume), waiter_at_resume == NONE, z3.BoolVal(depth == 1)), P)
            ip.require(s, T + "_enter_task/_leave_task-balanced-on-every-exit", z3.BoolVal(len(_events(s, "enter")) == 1 and len(_events(s, "leave")) == 1), P)
            # T4 / T5: what is sent or thrown
            is_new_canc = z3.BoolVal(kind == "throw" and isinstance(thrown, ExcV) and thrown.cls == "CancelledError")
            if exc_kind == "none":
                ip.require(s, T + "T4:a-requested-cancellation-is-delivered-as-CancelledError-at-this-resumption;T5:otherwise-a-plain-send(None)",
                           z3.And(z3.Implies(mc0, is_new_canc), z3.Implies(z3.Not(mc0), z3.BoolVal(kind == "send" and isinstance(thrown, NoneV)))), P)
            elif exc_kind == "cancelled":
                ip.require(s, T + "a-cancellation-raised-by-the-awaited-future-is-thrown-in-as-that-very-object(with-or-without-a-pending-request)",
                           z3.BoolVal(kind == "throw" and isinstance(thrown, ExcV) and thrown.ref is not None) if not (isinstance(thrown, ExcV) and thrown.ref is not None) else thrown.ref == exc_in.ref, P)
            else:
                ip.require(s, T + "T4:a-requested-cancellation-replaces-the-future's-exception-by-CancelledError;T5:otherwise-exactly-the-future's-exception-is-thrown-in",
                           z3.And(z3.Implies(mc0, is_new_canc), z3.Implies(z3.Not(mc0), (thrown.ref == exc_in.ref) if isinstance(thrown, ExcV) and thrown.ref is not None and thrown.cls == "UserExc" else z3.BoolVal(False))), P)
            body_ran = _events(s, "body-ran")[0][1]
            if not body_ran:
                ip.require(s, T + "T3:a-cancellation-thrown-into-a-coroutine-that-never-started-ends-the-task-cancelled-at-once(no-statement-of-it-runs)" if isinstance(thrown, ExcV) and thrown.cls == "CancelledError"
                           else T + "an-exception-thrown-into-a-coroutine-that-never-started-becomes-the-task's-exception",
                           z3.And(s.sh["_state"].t == (F_CANCELLED if isinstance(thrown, ExcV) and thrown.cls == "CancelledError" else F_FINISHED), z3.BoolVal(n_conts(s) == 0 and raised is None)), P)
                continue
            mc1 = [e for e in s.trace if e[0] == "resume"][0]  # noqa: F841
            tag = [t for t in s.tags if t.startswith("coro:")][-1]
            state1 = s.sh["_state"].t
            sc, sr, se = _events(s, "super.cancel"), _events(s, "super.set_result"), _events(s, "super.set_exception")
            wc = _events(s, "waiter.cancel")
            if tag.startswith("coro:raises:"):
                what = tag.split(":")[-1]
                ip.require(s, T + f"{what}:the-task-is-done-afterwards-and-no-continuation-is-registered(never-resumed-again)", z3.And(state1 != F_PENDING, z3.BoolVal(n_conts(s) == 0 and not wc)), P)
                if what == "StopIteration":
                    # mc1: the value `_must_cancel` had when the coroutine returned (user code may have requested a cancellation)
                    ip.require(s, T + "StopIteration:the-return-value-becomes-the-result,unless-a-cancellation-was-requested-during-this-very-step(then-cancelled,request-consumed)",
                               z3.BoolVal((len(sr) == 1 and not sc and not se) or (len(sc) == 1 and not sr and not se)), P)
                    if sr:
                        ip.require(s, T + "StopIteration:result-is-exactly-the-returned-value", z3.And(state1 == F_FINISHED, s.sh["$result"].t == sr[0][1].t if isinstance(sr[0][1], RefV) else z3.BoolVal(False), z3.Not(s.sh["_must_cancel"].t)), P)
                    else:
                        ip.require(s, T + "StopIteration+requested-cancellation:cancelled,_must_cancel-cleared", z3.And(state1 == F_CANCELLED, z3.Not(s.sh["_must_cancel"].t)), P)
                    ip.require(s, T + "StopIteration:not-raised-out-of-the-step", z3.BoolVal(raised is None), P)
                elif what == "CancelledError":
                    ip.require(s, T + "CancelledError:the-task-ends-cancelled(cancelled()-becomes-true);the-exception-is-kept-for-chaining;not-raised-out-of-the-step",
                               z3.And(state1 == F_CANCELLED, z3.BoolVal(len(sc) == 1 and not sr and not se and raised is None), s.sh["_cancelled_exc"].t != NONE), P)
                elif what in ("KeyboardInterrupt", "SystemExit"):
                    ip.require(s, T + f"{what}:stored-as-the-task's-exception-and-re-raised-to-the-loop", z3.And(state1 == F_FINISHED, z3.BoolVal(len(se) == 1 and not sr and not sc and raised == what)), P)
                else:
                    ip.require(s, T + f"{what}:exactly-that-exception-becomes-the-task's-exception(C12:never-a-different-one);not-raised-out-of-the-step",
                               z3.And(state1 == F_FINISHED, z3.BoolVal(len(se) == 1 and not sr and not sc and raised is None and isinstance(se[0][1], ExcV) and se[0][1].cls == what)), P)
                continue
            # ---- the coroutine yielded: the task stays pending with exactly one continuation ----
            cs, adc = _events(s, "call_soon"), _events(s, "add_done_callback")
            ip.require(s, T + "yield:the-task-stays-pending-with-exactly-one-continuation(never-lost,never-resumed-twice)", z3.And(state1 == F_PENDING, z3.BoolVal(n_conts(s) == 1 and raised is None and not sc and not sr and not se)), P)
            yielded = [x for x in s.tags if x.startswith("blocking-attr:")]
            fw = s.sh["_fut_waiter"].t
            if adc:
                r = adc[0][1]
                blk0 = z3.Select(sh0["$blk"].t, r)
                ip.require(s, T + "yield:wake-up-registered-exactly-on-a-blocking-future-of-this-loop-that-is-not-the-task-itself;it-is-the-__wakeup-of-this-task;_fut_waiter-is-that-future;blocking-flag-reset",
                           z3.And(z3.BoolVal(adc[0][2] == "__wakeup" and "blocking-attr:True" in yielded), fw == r, r != s.me, z3.Select(z3.Const("loop_of", z3.ArraySort(Ref, Ref)), r) == th.THE_LOOP,
                                  z3.Select(s.sh["$blk"].t, r) == BLK_FALSE), P)
                mc_after_user = s.sh["_must_cancel"].t  # value at exit
                ip.require(s, T + "yield:a-cancellation-requested-during-this-step-is-passed-to-the-new-waiter-at-once(at-most-one-cancel,only-on-the-waiter);the-request-stays-pending-exactly-when-the-waiter-refused",
                           z3.BoolVal(len(wc) <= 1 and all(z3.eq(w[1], r) for w in wc)), P)
                if wc:
                    ip.require(s, T + "yield:_must_cancel-is-cleared-exactly-when-the-waiter-accepted-the-cancellation", mc_after_user == z3.Not(wc[0][2]), P)
                else:
                    ip.require(s, T + "yield:no-request-pending=>the-waiter-is-left-alone", z3.Not(mc_after_user), P)
            else:
                ip.require(s, T + "yield:otherwise-exactly-one-further-step-is-scheduled-on-this-loop(a-bare-yield-resumes-plainly,a-bad-yield-with-RuntimeError);no-waiter",
                           z3.And(fw == NONE, z3.BoolVal(len(cs) == 1 and cs[0][1] == "__step" and not wc and (len(cs[0][2]) == 0 or (len(cs[0][2]) == 1 and isinstance(cs[0][2][0], ExcV) and cs[0][2][0].cls == "RuntimeError")))), P)
                if cs and len(cs[0][2]) == 0:
                    ip.require(s, T + "yield:a-plain-further-step-exactly-for-a-bare-yield(None)", z3.BoolVal("blocking-attr:absent" in yielded), P)

    # ================= cancel() ======================================================================================
    st = th.initial()
    sh0 = dict(st.sh)
    msg = RefV(fresh("msg", Ref))
    done0 = sh0["_state"].t != F_PENDING
    fw0 = sh0["_fut_waiter"].t
    for s, v in run(st, "cancel", {"msg": msg}):
        if isinstance(v, Exit):
            ip.require(s, f"cancel:noraise:{v.val.cls}", z3.BoolVal(False), P)
            continue
        wc = _events(s, "waiter.cancel")
        ret = v.t if isinstance(v, BoolV) else z3.BoolVal(False)
        ip.require(s, "cancel:returns-False-exactly-for-a-done-task,and-then-changes-nothing(C06:a-finished-task-is-not-cancelled-again)",
                   z3.And(ret == z3.Not(done0), z3.Implies(done0, z3.And(z3.BoolVal(not wc), s.sh["_must_cancel"].t == sh0["_must_cancel"].t, s.sh["_num_cancels_requested"].t == sh0["_num_cancels_requested"].t))), P)
        ip.require(s, "cancel:never-completes-the-task-itself(the-task's-own-state-is-untouched;cancelled()-only-after-the-coroutine-ended)", z3.And(s.sh["_state"].t == sh0["_state"].t, z3.BoolVal(not _events(s, "super.cancel"))), P)
        ip.require(s, "cancel:T2:a-live-task-gets-one-more-request,and-the-cancellation-will-be-delivered:the-pending-future-it-waits-on-is-cancelled(its-callbacks-wake-the-task-with-CancelledError),else-_must_cancel-is-set(the-next-step-throws)",
                   z3.Implies(z3.Not(done0), z3.And(s.sh["_num_cancels_requested"].t == sh0["_num_cancels_requested"].t + 1,
                                                    z3.Or(z3.And(fw0 != NONE, z3.Select(sh0["$fstate"].t, fw0) == F_PENDING, z3.Select(s.sh["$fstate"].t, fw0) == F_CANCELLED, s.sh["_must_cancel"].t == sh0["_must_cancel"].t),
                                                          s.sh["_must_cancel"].t))), P)
        ip.require(s, "cancel:touches-no-future-but-the-one-the-task-waits-on,at-most-once;the-waiter-and-the-continuation-stay-registered", z3.And(z3.BoolVal(len(wc) <= 1 and all(z3.eq(w[1], fw0) for w in wc) and n_conts(s) == 0), s.sh["_fut_waiter"].t == fw0), P)
        # refinement of the pool theory's abstraction (PoolTheory.task_cancel): creq := _must_cancel or the waiter is cancelled
        def alpha_creq(sh):
            fw = sh["_fut_waiter"].t
            return z3.Or(sh["_must_cancel"].t, z3.And(fw != NONE, z3.Select(sh["$fstate"].t, fw) == F_CANCELLED))

        live = z3.Not(done0)
        ip.require(s, "cancel:refines-PoolTheory.task_cancel:returns-`live`-and-creq'==(creq-or-live)-for-creq:=_must_cancel-or-waiter-cancelled", z3.And(ret == live, alpha_creq(s.sh) == z3.Or(alpha_creq(sh0), live)), P)
        x = z3.Const("x!c", Ref)
        ip.require(s, "cancel:every-other-future-is-left-alone", z3.ForAll([x], z3.Implies(x != fw0, z3.Select(s.sh["$fstate"].t, x) == z3.Select(sh0["$fstate"].t, x))), P)

    # ================= uncancel() / cancelling() =====================================================================
    st = th.initial()
    sh0 = dict(st.sh)
    for s, v in run(st, "uncancel", {}):
        n0 = sh0["_num_cancels_requested"].t
        ip.require(s, "uncancel:one-request-less(never-below-zero),returned;nothing-else-changes(a-pending-_must_cancel-is-not-withdrawn)",
                   z3.And(s.sh["_num_cancels_requested"].t == z3.If(n0 > 0, n0 - 1, n0), v.t == s.sh["_num_cancels_requested"].t if isinstance(v, IntV) else z3.BoolVal(False), s.sh["_must_cancel"].t == sh0["_must_cancel"].t, s.sh["_state"].t == sh0["_state"].t), P)

    # ================= __wakeup(future): the done-callback registered on the awaited future ===========================
    def c_step(ip_, s, fr, selfv, args):
        s.trace.append(("__step", args.get("exc")))
        return [(s, NoneV())]

    ip.contracts[Q + "__step"] = c_step
    st = th.initial()
    fut = fresh("awaited", Ref)
    st.assume(z3.And(fut != NONE, z3.Select(st.sh["$fstate"].t, fut) != F_PENDING))  # a done-callback runs only after the future is done (Future unit)
    for s, v in run(st, "__wakeup", {"future": RefV(fut)}):
        steps = _events(s, "__step")
        ip.require(s, "__wakeup:exactly-one-step", z3.BoolVal(len(steps) == 1 and not isinstance(v, Exit)), P)
        if len(steps) != 1:
            continue
        e = steps[0][1]
        if "future:finished-with-result" in s.tags:
            ip.require(s, "__wakeup:T5:a-future-that-finished-normally-resumes-the-task-plainly(no-exception)", z3.BoolVal(isinstance(e, NoneV)), P)
        elif "future:cancelled" in s.tags:
            ip.require(s, "__wakeup:a-cancelled-future-resumes-the-task-with-a-CancelledError", z3.BoolVal(isinstance(e, ExcV) and e.cls == "CancelledError"), P)
        else:
            ip.require(s, "__wakeup:a-failed-future-resumes-the-task-with-exactly-the-future's-exception", z3.BoolVal(isinstance(e, ExcV) and e.cls == "UserExc"), P)
    del ip.contracts[Q + "__step"]

    # ================= __init__ (T1) ===================================================================================
    for name_given in (False, True):
        st = th.initial()
        coro = fresh("given_coro", Ref)
        st.assume(coro != NONE)
        isc = z3.Select(arr_b("is_coroutine"), coro)
        for k in ("_must_cancel", "_fut_waiter", "_num_cancels_requested", "_coro"):
            pass
        st.sh["_fut_waiter"] = RefV(fresh("uninit_waiter", Ref))
        args = {"coro": RefV(coro), "loop": RefV(th.THE_LOOP), "name": StrV(fresh("given_name", sym.S)) if name_given else NoneV(), "context": NoneV(), "eager_start": BoolV(False)}
        for s, v in run(st, "__init__", args):
            T = f"__init__[name={'given' if name_given else 'None'}]:"
            if isinstance(v, Exit) and v.kind == Exit.RAISE:
                ip.require(s, T + "TypeError-exactly-when-the-argument-is-not-a-coroutine;nothing-scheduled", z3.And(z3.Not(isc), z3.BoolVal(v.val.cls == "TypeError" and n_conts(s) == 0 and not _events(s, "resume"))), P)
                continue
            cs = _events(s, "call_soon")
            ip.require(s, T + "T1:the-new-task-is-pending,runs-nothing-now(the-coroutine-is-not-resumed),has-no-cancellation-request-and-no-waiter,and-exactly-one-first-step-is-scheduled",
                       z3.And(isc, s.sh["_state"].t == F_PENDING, z3.Not(s.sh["_must_cancel"].t), s.sh["_fut_waiter"].t == NONE, s.sh["_num_cancels_requested"].t == 0, s.sh["_coro"].t == coro,
                              z3.BoolVal(not _events(s, "resume") and len(cs) == 1 and cs[0][1] == "__step" and len(cs[0][2]) == 0 and not _events(s, "add_done_callback") and len(_events(s, "register")) == 1)), P)

    # ================= who touches what ================================================================================
    mc_writers, fw_writers = set(), set()
    for m, fi in std.classes["Task"].methods.items():
        for n in ast.walk(fi.node):
            if isinstance(n, (ast.Assign, ast.AugAssign)):
                for t in (n.targets if isinstance(n, ast.Assign) else [n.target]):
                    if isinstance(t, ast.Attribute) and t.attr == "_must_cancel":
                        mc_writers.add(m)
                    if isinstance(t, ast.Attribute) and t.attr == "_fut_waiter":
                        fw_writers.add(m)
    ip.require(th.initial(), "callgraph:_must_cancel-is-written-only-by-__init__/cancel/__step/__step_run_and_handle_result", z3.BoolVal(mc_writers == {"__init__", "cancel", "__step", "__step_run_and_handle_result"}), P)
    ip.require(th.initial(), "callgraph:_fut_waiter-is-written-only-by-__init__/__step/__step_run_and_handle_result", z3.BoolVal(fw_writers == {"__init__", "__step", "__step_run_and_handle_result"}), P)
    # set_result / set_exception of a Task are refused (user code cannot complete the task's own future)
    for m in ("set_result", "set_exception"):
        body = std.classes["Task"].methods[m].node.body
        ip.require(th.initial(), f"Task.{m}:always-raises-RuntimeError(user-code-cannot-complete-a-task)", z3.BoolVal(len(body) == 1 and isinstance(body[0], ast.Raise) and "RuntimeError" in ast.unparse(body[0])), P)

    # ================= create_task(coro, name=...)  (what the pool calls; C11: the name reaches the task) ===============
    fi = std.functions["tasks.create_task"]
    ip.extra_functions["asyncio.tasks.create_task"] = fi.src_hash
    ip.extra_functions["asyncio.tasks._set_task_name"] = std.functions["tasks._set_task_name"].src_hash
    for name_given in (False, True):
        st = th.initial()
        coro = fresh("given_coro", Ref)
        nm = StrV(fresh("given_name", sym.S)) if name_given else NoneV()
        for s, v in ip.exec_function(st, fi, None, {"coro": RefV(coro), "name": nm, "context": NoneV()}):
            T = f"create_task[name={'given' if name_given else 'None'}]:"
            ct, sn = _events(s, "loop.create_task"), _events(s, "set_name")
            ok = len(ct) == 1 and not isinstance(v, Exit) and isinstance(v, RefV) and isinstance(ct[0][1], RefV)
            ip.require(s, T + "exactly-one-task-is-created-on-the-running-loop-for-exactly-the-given-coroutine-and-returned;nothing-is-run-now",
                       z3.And(ct[0][1].t == coro, v.t == ct[0][3]) if ok else z3.BoolVal(False), P + ("C11",))
            if name_given:
                ip.require(s, T + "the-given-name-is-set-on-exactly-that-task(C11:the-pool's-task-names)", z3.And(sn[0][1] == ct[0][3], sn[0][2].t == nm.t) if ok and len(sn) == 1 and isinstance(sn[0][2], StrV) else z3.BoolVal(False), P + ("C11",))
            else:
                ip.require(s, T + "no-name-is-set", z3.BoolVal(not sn), P + ("C11",))

    # ================= ensure_future(fut): what gather() does with the pool's tasks =====================================
    fi = std.functions["tasks.ensure_future"]
    ip.extra_functions["asyncio.tasks.ensure_future(future-argument)"] = fi.src_hash
    st = th.initial()
    given = fresh("given_future", Ref)
    st.assume(z3.And(given != NONE, z3.Select(arr_b("is_future"), given)))  # the pool hands tasks to gather
    for s, v in ip.exec_function(st, fi, None, {"coro_or_future": RefV(given), "loop": NoneV()}):
        ip.require(s, "ensure_future:a-future-is-returned-as-it-is(distinct-arguments-stay-distinct-children);no-task-is-created",
                   z3.And(v.t == given, z3.BoolVal(not _events(s, "loop.create_task"))) if isinstance(v, RefV) else z3.BoolVal(False), P)
