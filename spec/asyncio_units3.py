"""`loop.call_soon` - the last link of "a done-callback / a task step runs exactly once, later" - from the interpreter's own
`asyncio/base_events.py` (BaseEventLoop.call_soon, _call_soon, _check_closed and the ready-loop of _run_once) and
`asyncio/events.py` (class Handle).  These are pure Python in CPython (there is no C accelerator for the loop or Handle;
uvloop or another loop policy is out of scope).

  Handle     concrete `_callback`, `_args`, `_context`, `_cancelled`
  ready loop concrete `_ready` (a deque: window [lo, hi) over an array of handles)
             ghost    `$ran[h]` how often handle h was run, `$ord[h]` the clock value of its run, `$hcanc[h]`

What is verified of `_run_once` is its final block, extracted mechanically on every run: the statements from
`ntodo = len(self._ready)` to the end.  Dropped: the prelude (timer heap, selector poll, `_process_events`), for which only a
syntactic fact is checked: inside `_run_once` the ready queue is touched by `append`, `len`, `popleft` and truthiness only
(the prelude can only ADD handles at the tail).  Loop debug mode is assumed off.
"""
from __future__ import annotations

import ast
from typing import List

import z3

from pyvc import sym
from pyvc.interp import NORMAL, ExcV, Exit, Frame, Interp, LoopSpec, SelfV, St
from pyvc.run import Unit
from pyvc.sym import B, I, NONE, BoolV, BuiltinV, IntV, KwV, NoneV, PlaceV, Ref, RefV, StarV, StrV, TupleV, Unsupported, V, fresh
from pyvc.theory import ArrV, Iter, IterV

from .asyncio_units import ItemsV, StdRepo, stdlib_file
from .asyncio_units2 import FutTheory, TRUSTED_FUT

UNITS: List[Unit] = []
LOOP_PROPS = ("C02", "C03", "C08", "C12", "C13")
A_RB = z3.ArraySort(Ref, B)
A_RI = z3.ArraySort(Ref, I)

TRUSTED_LOOP = [
    "the event loop in use is asyncio's own BaseEventLoop (selector / proactor loop of the standard library); run_forever() calls _run_once() until stopped",
    "collections.deque as a FIFO sequence ADT (append at the tail, popleft from the head, len)",
    "the prelude of _run_once (timers, selector poll, _process_events) only appends handles to the ready queue (checked syntactically: no other use of `_ready` in _run_once); loop debug mode is off",
    "contextvars.Context.run(f, *args) calls f(*args) exactly once and propagates its outcome",
]


class HandleTheory(FutTheory):
    def initial(self) -> St:
        st = St()
        st.me = fresh("me", Ref)
        st.assume(st.me != NONE)
        st.sh = {"_context": RefV(fresh("context", Ref)), "_loop": self.LOOP, "_callback": RefV(fresh("callback", Ref)), "_args": RefV(fresh("args", Ref)), "_cancelled": BoolV(fresh("cancelled", B)),
                 "_repr": NoneV(), "_source_traceback": NoneV()}
        return st

    def may_set_field(self, st, fr, obj, attr) -> bool:
        return attr in st.sh

    def coerce_field(self, st, attr, old, new):
        if isinstance(old, NoneV) and isinstance(new, NoneV):
            return new
        return super().coerce_field(st, attr, old, new)

    def ev_dict_display(self, st, fr, e):
        out = []
        keys = [k.value for k in e.keys if isinstance(k, ast.Constant)]
        if len(keys) != len(e.keys):
            raise Unsupported("dict display with computed keys")
        for s, vs in self.ip.ev_seq(st, fr, list(e.values)):
            out.append((s, vs if isinstance(vs, Exit) else KwV(dict(zip(keys, vs)))))
        return out

    def call_builtin(self, st, fr, f, pos, kws, rest_kw, node):
        if f.recv is not None:
            return self.call_method(st, fr, f.recv, f.name, pos, kws, node)
        n = f.name
        if n == "<loop>.get_debug":
            return [(st, BoolV(False))]  # assumption: debug mode off
        if n == "format_helpers._format_callback_source":
            return [(st, StrV(fresh("callback_source", sym.S)))]
        if n == "<loop>.call_exception_handler":
            st.trace.append(("exception_handler", pos[0]))
            return [(st, NoneV())]
        return super().call_builtin(st, fr, f, pos, kws, rest_kw, node)

    def call_method(self, st, fr, recv, name, pos, kws, node):
        ip = self.ip
        val = ip.deref(st, recv)
        if isinstance(val, RefV) and name == "run" and z3.eq(val.t, st.sh["_context"].t):
            cb = ip.deref(st, pos[0])
            rest = pos[1:]
            args = ip.deref(st, rest[0].v) if len(rest) == 1 and isinstance(rest[0], StarV) else None
            st.trace.append(("run", cb, args, st.sh["_cancelled"].t))
            out = []
            for tag, mk in (("callback:returns", lambda: RefV(fresh("cb_result", Ref))), ("callback:raises:UserExc", lambda: Exit(Exit.RAISE, ExcV("UserExc", [], ref=fresh("cb_exc", Ref)))),
                            ("callback:raises:OtherBaseExc", lambda: Exit(Exit.RAISE, ExcV("OtherBaseExc", [], ref=fresh("cb_bexc", Ref)))),
                            ("callback:raises:SystemExit", lambda: Exit(Exit.RAISE, ExcV("SystemExit", [], ref=fresh("cb_exit", Ref)))),
                            ("callback:raises:KeyboardInterrupt", lambda: Exit(Exit.RAISE, ExcV("KeyboardInterrupt", [], ref=fresh("cb_kbd", Ref))))):
                s = st.fork()
                s.tags.append(tag)
                out.append((s, mk()))
            return out
        return super().call_method(st, fr, recv, name, pos, kws, node)


def std_unit(name, props, theory, mod, short, cls, methods, trusted):
    def deco(fn):
        def wrapped(ip: Interp, th):
            std = StdRepo(stdlib_file(mod), short)
            std.exc.update({"UserExc": "Exception", "OtherBaseExc": "BaseException", "KeyboardInterrupt": "BaseException", "SystemExit": "BaseException", "RuntimeError": "Exception", "IndexError": "Exception"})
            ip.repo = std
            ip.extra_functions = {f"{mod}.{cls}.{m}": std.classes[cls].methods[m].src_hash for m in methods}
            ip.extra_functions[mod.replace(".", "/") + ".py"] = std.file_hash
            saved = Interp.MUTABLE_EXTRA
            Interp.MUTABLE_EXTRA = saved + (ItemsV,)
            try:
                return fn(ip, th, std)
            finally:
                Interp.MUTABLE_EXTRA = saved

        UNITS.append(Unit(name, wrapped, props, [], theory_factory=theory, trusted=trusted))
        return fn

    return deco


def _events(s, kind):
    return [e for e in s.trace if e[0] == kind]


@std_unit("asyncio.events.Handle", LOOP_PROPS, lambda: HandleTheory(), "asyncio.events", "events", "Handle", ["__init__", "cancel", "cancelled", "_run"], TRUSTED_FUT + TRUSTED_LOOP)
def u_handle(ip: Interp, th: HandleTheory, std: StdRepo):
    P = LOOP_PROPS
    SELF = SelfV("Handle")

    def run(st, name, args):
        return ip.exec_function(st, std.get("events.Handle." + name), SELF, args)

    # __init__
    st = th.initial()
    cb, args, ctx = fresh("given_cb", Ref), fresh("given_args", Ref), fresh("given_ctx", Ref)
    st.assume(ctx != NONE)
    for s, v in run(st, "__init__", {"callback": RefV(cb), "args": RefV(args), "loop": th.LOOP, "context": RefV(ctx)}):
        ip.require(s, "__init__:stores-exactly-the-given-callback,arguments-and-context;not-cancelled;runs-nothing",
                   z3.And(z3.BoolVal(not isinstance(v, Exit) and not _events(s, "run")), s.sh["_callback"].t == cb, s.sh["_args"].t == args, s.sh["_context"].t == ctx, z3.Not(s.sh["_cancelled"].t)), P)
    # cancel / cancelled
    st = th.initial()
    for s, v in run(st, "cancel", {}):
        ip.require(s, "cancel:cancelled-afterwards(idempotent);runs-nothing", z3.And(s.sh["_cancelled"].t, z3.BoolVal(not isinstance(v, Exit) and not _events(s, "run"))), P)
    st = th.initial()
    c0 = st.sh["_cancelled"].t
    for s, v in run(st, "cancelled", {}):
        ip.require(s, "cancelled:reports-the-flag", v.t == c0 if isinstance(v, BoolV) else z3.BoolVal(False), P)
    # _run
    st = th.initial()
    sh0 = dict(st.sh)
    for s, v in run(st, "_run", {}):
        rs = _events(s, "run")
        ok = len(rs) == 1 and isinstance(rs[0][1], RefV) and isinstance(rs[0][2], RefV)
        ip.require(s, "_run:the-callback-is-called-exactly-once,with-exactly-the-stored-arguments,in-the-stored-context", z3.And(rs[0][1].t == sh0["_callback"].t, rs[0][2].t == sh0["_args"].t) if ok else z3.BoolVal(False), P)
        tag = [t for t in s.tags if t.startswith("callback:")][-1]
        raised = v.val.cls if isinstance(v, Exit) and v.kind == Exit.RAISE else None
        eh = _events(s, "exception_handler")
        if tag == "callback:returns":
            ip.require(s, "_run:a-callback-that-returns:nothing-else-happens", z3.BoolVal(raised is None and not eh), P)
        elif tag.endswith(("SystemExit", "KeyboardInterrupt")):
            ip.require(s, "_run:SystemExit/KeyboardInterrupt-propagate-to-the-loop", z3.BoolVal(raised == tag.split(":")[-1] and not eh), P)
        else:
            e = eh[0][1].d.get("exception") if len(eh) == 1 and isinstance(eh[0][1], KwV) else None
            ip.require(s, "_run:any-other-exception-of-a-callback-is-handed-to-the-loop's-exception-handler-exactly-once-and-does-not-propagate(C12:a-failing-callback-does-not-stop-the-loop-or-the-other-handles)",
                       z3.BoolVal(raised is None and isinstance(e, ExcV) and e.cls == tag.split(":")[-1]), P)


# ======================================================================================================
# BaseEventLoop: call_soon and the ready-loop of _run_once
# ======================================================================================================
class LoopTheory(FutTheory):
    def initial(self) -> St:
        st = St()
        st.me = fresh("me", Ref)
        st.assume(st.me != NONE)
        q = ItemsV(fresh("r_lo", I), fresh("r_hi", I), fresh("r_arr", z3.ArraySort(I, Ref)))
        st.sh = {"_ready": q, "_closed": BoolV(fresh("closed", B)), "_debug": BoolV(False), "_stopping": BoolV(fresh("stopping", B)), "_current_handle": NoneV(),
                 "$hcanc": ArrV(fresh("hcanc", A_RB)), "$ran": ArrV(fresh("ran", A_RI)), "$ord": ArrV(fresh("ord", A_RI)), "$clock": IntV(fresh("clock", I))}
        st.assume(q.lo <= q.hi)
        for _n, f in self.QJ(st.sh):
            st.assume(f)
        return st

    @staticmethod
    def QJ(sh):
        q = sh["_ready"]
        j1, j2 = z3.Int("j1!q"), z3.Int("j2!q")
        return [("QJ.the-ready-queue-holds-no-handle-twice", z3.ForAll([j1, j2], z3.Implies(z3.And(q.lo <= j1, j1 < j2, j2 < q.hi), z3.Select(q.arr, j1) != z3.Select(q.arr, j2)))),
                ("QJ.no-None-in-the-ready-queue", z3.ForAll([j1], z3.Implies(z3.And(q.lo <= j1, j1 < q.hi), z3.Select(q.arr, j1) != NONE)))]

    def may_set_field(self, st, fr, obj, attr) -> bool:
        return attr in st.sh and not attr.startswith("$")

    def shared_keys(self, st):
        # `_debug` is the stated assumption "debug mode off": it is not part of the havocked state
        return [k for k in super().shared_keys(st) if k != "_debug"]

    def value_attr(self, st, fr, v, attr):
        if isinstance(v, RefV) and attr == "_cancelled":
            return [(st, BoolV(z3.Select(st.sh["$hcanc"].t, v.t)))]
        if isinstance(v, RefV) and attr == "_source_traceback":
            return [(st, NoneV())]  # debug mode off
        return super().value_attr(st, fr, v, attr)

    def iter_of(self, st, fr, v, node):
        d = self.ip.deref(st, v)
        if isinstance(d, IterV):
            return d.it
        return super().iter_of(st, fr, v, node)

    def call_builtin(self, st, fr, f, pos, kws, rest_kw, node):
        ip = self.ip
        if f.recv is not None:
            return self.call_method(st, fr, f.recv, f.name, pos, kws, node)
        n = f.name
        if n == "events.Handle":
            # contract of Handle.__init__ (unit asyncio.events.Handle): a NEW handle holding the callback and the arguments, not cancelled
            h = fresh("new_handle", Ref)
            q = st.sh["_ready"]
            j = z3.Int("j!nh")
            st.assume(z3.And(h != NONE, z3.Not(z3.Select(st.sh["$hcanc"].t, h)), z3.Select(st.sh["$ran"].t, h) == 0, z3.ForAll([j], z3.Implies(z3.And(q.lo <= j, j < q.hi), z3.Select(q.arr, j) != h))))
            st.trace.append(("new_handle", h, ip.deref(st, pos[0]), ip.deref(st, pos[1]), pos[2], ip.deref(st, pos[3]) if len(pos) > 3 else None))
            return [(st, RefV(h))]
        if n == "len" and len(pos) == 1:
            v = ip.deref(st, pos[0])
            if isinstance(v, ItemsV):
                return [(st, IntV(v.hi - v.lo))]
        if n == "range" and len(pos) == 1 and isinstance(pos[0], IntV):
            cnt = pos[0].t
            return [(st, IterV(Iter(z3.If(cnt > 0, cnt, 0), lambda i: IntV(i), [], "range")))]
        return super().call_builtin(st, fr, f, pos, kws, rest_kw, node)

    def call_method(self, st, fr, recv, name, pos, kws, node):
        ip = self.ip
        val = ip.deref(st, recv)
        if isinstance(val, ItemsV) and isinstance(recv, PlaceV):
            if name == "append":
                item = ip.deref(st, pos[0])
                if not isinstance(item, RefV):
                    raise Unsupported("append of a non-handle to the ready queue")
                ip.place_set(st, recv, ItemsV(val.lo, val.hi + 1, z3.Store(val.arr, val.hi, item.t)))
                st.trace.append(("enqueue", item.t))
                return [(st, NoneV())]
            if name == "popleft":
                ip.require(st, "popleft:never-from-an-empty-ready-queue(IndexError-otherwise)", val.hi - val.lo > 0, LOOP_PROPS)
                st.assume(val.hi - val.lo > 0)
                ip.place_set(st, recv, ItemsV(val.lo + 1, val.hi, val.arr))
                got = z3.Select(val.arr, val.lo)
                st.trace.append(("dequeue", got))
                return [(st, RefV(got))]
        if isinstance(val, RefV) and name == "_run":
            # contract of Handle._run (unit asyncio.events.Handle): the callback runs exactly once; the user code it runs may
            # call call_soon (appends at the tail) and cancel handles (never un-cancels), it cannot pop or run handles
            h = val.t
            sh = st.sh
            ip.require(st, "pre:Handle._run:a-cancelled-handle-is-never-run(its-callback-is-gone)", z3.Not(z3.Select(sh["$hcanc"].t, h)), LOOP_PROPS)
            st.trace.append(("_run", h, z3.Select(sh["$hcanc"].t, h)))
            clock = sh["$clock"].t
            sh["$ran"] = ArrV(z3.Store(sh["$ran"].t, h, z3.Select(sh["$ran"].t, h) + 1))
            sh["$ord"] = ArrV(z3.Store(sh["$ord"].t, h, clock))
            sh["$clock"] = IntV(clock + 1)
            q0 = sh["_ready"]
            q1 = ItemsV(q0.lo, fresh("hi_after_callback", I), fresh("arr_after_callback", z3.ArraySort(I, Ref)))
            hc0 = sh["$hcanc"].t
            hc1 = fresh("hcanc_after_callback", A_RB)
            j = z3.Int("j!rely")
            x = z3.Const("x!rely", Ref)
            sh["_ready"] = q1
            sh["$hcanc"] = ArrV(hc1)
            st.assume(z3.And(q1.hi >= q0.hi, z3.ForAll([j], z3.Implies(z3.And(q0.lo <= j, j < q0.hi), z3.Select(q1.arr, j) == z3.Select(q0.arr, j))),
                             z3.ForAll([x], z3.Implies(z3.Select(hc0, x), z3.Select(hc1, x)))))
            for _n, f in self.QJ(sh):
                st.assume(f)  # call_soon keeps the queue duplicate-free (proved below)
            out = []
            for tag, mk in (("handle:returns", lambda: NoneV()), ("handle:raises:SystemExit", lambda: Exit(Exit.RAISE, ExcV("SystemExit", []))), ("handle:raises:KeyboardInterrupt", lambda: Exit(Exit.RAISE, ExcV("KeyboardInterrupt", [])))):
                s = st.fork()
                s.tags.append(tag)
                out.append((s, mk()))
            return out
        return super().call_method(st, fr, recv, name, pos, kws, node)


LOOP_METHODS = ["call_soon", "_call_soon", "_check_closed", "_run_once"]


@std_unit("asyncio.base_events.BaseEventLoop(call_soon,ready-loop)", LOOP_PROPS, lambda: LoopTheory(), "asyncio.base_events", "base_events", "BaseEventLoop", LOOP_METHODS, TRUSTED_FUT + TRUSTED_LOOP)
def u_loop(ip: Interp, th: LoopTheory, std: StdRepo):
    P = LOOP_PROPS
    Q = "base_events.BaseEventLoop."
    SELF = SelfV("BaseEventLoop")

    # ---- call_soon ---------------------------------------------------------------------------------------
    st = th.initial()
    sh0 = dict(st.sh)
    q0 = sh0["_ready"]
    cb, ctx = fresh("given_cb", Ref), fresh("given_ctx", Ref)
    a1 = RefV(fresh("arg1", Ref))
    for s, v in ip.exec_function(st, std.get(Q + "call_soon"), SELF, {"callback": RefV(cb), "args": TupleV([a1]), "context": RefV(ctx)}):
        if isinstance(v, Exit) and v.kind == Exit.RAISE:
            ip.require(s, "call_soon:RuntimeError-exactly-on-a-closed-loop;nothing-queued", z3.And(sh0["_closed"].t, z3.BoolVal(v.val.cls == "RuntimeError" and not _events(s, "enqueue"))), P)
            continue
        nh, enq = _events(s, "new_handle"), _events(s, "enqueue")
        q1 = s.sh["_ready"]
        ok = len(nh) == 1 and len(enq) == 1 and isinstance(v, RefV) and isinstance(nh[0][2], RefV) and isinstance(nh[0][3], TupleV) and len(nh[0][3].items) == 1 and isinstance(nh[0][5], RefV)
        j = z3.Int("j!cs")
        ip.require(s, "call_soon:exactly-one-new-handle-for-exactly-the-given-callback,arguments-and-context-is-appended-at-the-tail-of-the-ready-queue-and-returned;nothing-runs-now;the-queue-ahead-of-it-is-untouched(FIFO)",
                   z3.And(z3.Not(sh0["_closed"].t), nh[0][2].t == cb, nh[0][3].items[0].t == a1.t, nh[0][5].t == ctx, enq[0][1] == nh[0][1], v.t == nh[0][1], q1.lo == q0.lo, q1.hi == q0.hi + 1, z3.Select(q1.arr, q0.hi) == nh[0][1],
                          z3.ForAll([j], z3.Implies(z3.And(q0.lo <= j, j < q0.hi), z3.Select(q1.arr, j) == z3.Select(q0.arr, j))), z3.BoolVal(not _events(s, "_run")),
                          z3.BoolVal(isinstance(nh[0][4], SelfV))) if ok else z3.BoolVal(False), P)
        for n_, f in th.QJ(s.sh):
            ip.require(s, f"call_soon:preserves:{n_}", f, P)

    # ---- the ready-loop of _run_once -------------------------------------------------------------------------
    fi = std.get(Q + "_run_once")
    body = fi.node.body
    start = [k for k, n in enumerate(body) if isinstance(n, ast.Assign) and ast.unparse(n) == "ntodo = len(self._ready)"]
    ip.require(th.initial(), "anchor:_run_once-ends-with-`ntodo = len(self._ready)`+the-ready-loop", z3.BoolVal(len(start) == 1 and any(isinstance(n, ast.For) for n in body[start[0]:]) if start else False), P)
    uses = []
    for n in ast.walk(fi.node):
        if isinstance(n, ast.Attribute) and n.attr == "_ready":
            uses.append(n)
    parents = {}
    for n in ast.walk(fi.node):
        for c in ast.iter_child_nodes(n):
            parents[c] = n
    kinds = set()
    for u in uses:
        p = parents.get(u)
        if isinstance(p, ast.Attribute) and isinstance(parents.get(p), ast.Call):
            kinds.add(p.attr)
        elif isinstance(p, ast.Call) and isinstance(p.func, ast.Name):
            kinds.add(p.func.id)
        elif isinstance(p, (ast.BoolOp, ast.If, ast.While)):
            kinds.add("truthiness")
        else:
            kinds.add("other:" + type(p).__name__)
    ip.require(th.initial(), "syntactic:_run_once-touches-the-ready-queue-only-by-append/len/popleft/truthiness(the-prelude-can-only-add-at-the-tail)", z3.BoolVal(kinds <= {"append", "len", "popleft", "truthiness"} and "popleft" in kinds), P)
    if not start:
        return

    POS0 = fresh("pos0", A_RI)  # inverse of the duplicate-free queue contents at entry (exists by QJ: an injective finite sequence has an inverse)

    def inv_ready(c):
        s, s0 = c.st, c.st0
        q, q0_ = s.sh["_ready"], s0.sh["_ready"]
        ran, ran0, hc, ordv = s.sh["$ran"].t, s0.sh["$ran"].t, s.sh["$hcanc"].t, s.sh["$ord"].t
        p, p2 = z3.Int("p!rl"), z3.Int("p2!rl")
        x = z3.Const("x!rl", Ref)
        h = lambda k: z3.Select(q0_.arr, k)  # noqa: E731
        visited = lambda k: z3.And(q0_.lo <= k, k < q.lo)  # noqa: E731
        did_run = lambda k: z3.Select(ran, h(k)) == z3.Select(ran0, h(k)) + 1  # noqa: E731
        return [("exactly-the-first-i-handles-have-left-the-queue;what-was-queued-stays-in-place;later-arrivals-only-at-the-tail",
                 z3.And(q.lo == q0_.lo + c.i, q.lo <= q0_.hi, q.hi >= q0_.hi, z3.ForAll([p], z3.Implies(z3.And(q.lo <= p, p < q0_.hi), z3.Select(q.arr, p) == z3.Select(q0_.arr, p))))),
                ("each-visited-handle-has-run-exactly-once-unless-it-is-cancelled", z3.ForAll([p], z3.Implies(visited(p), z3.Or(did_run(p), z3.And(z3.Select(ran, h(p)) == z3.Select(ran0, h(p)), z3.Select(hc, h(p))))))),
                ("the-visited-handles-ran-in-FIFO-order", z3.ForAll([p, p2], z3.Implies(z3.And(visited(p), visited(p2), p < p2, did_run(p), did_run(p2)), z3.Select(ordv, h(p)) < z3.Select(ordv, h(p2))))),
                ("no-other-handle-has-run", z3.ForAll([x], z3.Or(z3.Select(ran, x) == z3.Select(ran0, x), z3.And(visited(z3.Select(POS0, x)), h(z3.Select(POS0, x)) == x)))),
                ("clock-is-ahead-of-every-run-so-far", z3.And(s.sh["$clock"].t >= s0.sh["$clock"].t, z3.ForAll([p], z3.Implies(z3.And(visited(p), did_run(p)), z3.Select(ordv, h(p)) < s.sh["$clock"].t)))),
                ("cancellations-are-never-withdrawn", z3.ForAll([x], z3.Implies(z3.Select(s0.sh["$hcanc"].t, x), z3.Select(hc, x))))] + [(n_, f) for n_, f in LoopTheory.QJ(s.sh)]

    ip.loopspecs[(Q + "_run_once", len([n for n in ast.walk(fi.node) if isinstance(n, (ast.For, ast.While))]))] = LoopSpec(inv_ready, P, name="ready-loop")
    st = th.initial()
    sh0 = dict(st.sh)
    q0 = sh0["_ready"]
    pq = z3.Int("p!pos0")
    st.assume(z3.ForAll([pq], z3.Implies(z3.And(q0.lo <= pq, pq < q0.hi), z3.Select(POS0, z3.Select(q0.arr, pq)) == pq)))
    fr = Frame(fi, fi.module, SELF, 0)
    st.loc = {}
    for s, ex in ip.block(st, fr, body[start[0]:]):
        if ex.kind == Exit.RAISE:
            ip.require(s, f"ready-loop:only-SystemExit/KeyboardInterrupt-of-a-callback-leave-the-loop:{ex.val.cls}", z3.BoolVal(ex.val.cls in ("SystemExit", "KeyboardInterrupt")), P)
            continue
        q = s.sh["_ready"]
        ran, ran0, hc, ordv = s.sh["$ran"].t, sh0["$ran"].t, s.sh["$hcanc"].t, s.sh["$ord"].t
        p, p2 = z3.Int("p!post"), z3.Int("p2!post")
        h = lambda k: z3.Select(q0.arr, k)  # noqa: E731
        was_ready = lambda k: z3.And(q0.lo <= k, k < q0.hi)  # noqa: E731
        did_run = lambda k: z3.Select(ran, h(k)) == z3.Select(ran0, h(k)) + 1  # noqa: E731
        x = z3.Const("x!post", Ref)
        ip.require(s, "ready-loop:every-handle-that-was-ready-at-entry-has-run-exactly-once(unless-cancelled),in-FIFO-order",
                   z3.And(z3.ForAll([p], z3.Implies(was_ready(p), z3.Or(did_run(p), z3.And(z3.Select(ran, h(p)) == z3.Select(ran0, h(p)), z3.Select(hc, h(p)))))),
                          z3.ForAll([p, p2], z3.Implies(z3.And(was_ready(p), was_ready(p2), p < p2, did_run(p), did_run(p2)), z3.Select(ordv, h(p)) < z3.Select(ordv, h(p2))))), P)
        ip.require(s, "ready-loop:no-handle-that-was-not-ready-at-entry-has-run(in-particular-none-scheduled-during-this-iteration)",
                   z3.ForAll([x], z3.Or(z3.Select(ran, x) == z3.Select(ran0, x), z3.And(was_ready(z3.Select(POS0, x)), h(z3.Select(POS0, x)) == x))), P)
        ip.require(s, "ready-loop:handles-scheduled-meanwhile-are-not-run-in-this-iteration-but-stay-queued-in-order(they-run-in-a-later-one)", z3.And(q.lo == q0.hi, q.hi >= q0.hi), P)
        for n_, f in th.QJ(s.sh):
            ip.require(s, f"ready-loop:preserves:{n_}", f, P)


# ======================================================================================================
# contextlib.suppress  (pool.py: `with suppress(CancelledError): await ...` in the meta-task wrappers - the interpreter's
# `with suppress(...)` rule of pyvc (interp.st_With) is the contract verified here from the interpreter's own contextlib.py)
# ======================================================================================================
TRUSTED_SUPPRESS = [
    "the `with` statement: __exit__(type, value, tb) runs exactly once on every exit of the block after __enter__ returned; the exception is swallowed iff __exit__ returns a true value (Python language rule)",
    "issubclass(C, tuple_of_classes) is true iff C is a subclass of one member (builtin); the exceptions raised inside the pool's `with suppress(...)` blocks are not exception groups",
]


class SuppressTheory(FutTheory):
    LISTED = z3.Function("issubclass_of_one_of", Ref, Ref, B)

    def initial(self) -> St:
        st = St()
        st.me = fresh("me", Ref)
        st.assume(st.me != NONE)
        st.sh = {"_exceptions": RefV(fresh("exceptions", Ref))}
        return st

    def may_set_field(self, st, fr, obj, attr) -> bool:
        return attr in st.sh

    def call_builtin(self, st, fr, f, pos, kws, rest_kw, node):
        if f.recv is None and f.name == "issubclass" and len(pos) == 2 and not kws:
            a, b = self.ip.deref(st, pos[0]), self.ip.deref(st, pos[1])
            if isinstance(a, RefV) and isinstance(b, RefV):
                st.trace.append(("issubclass", a.t, b.t))
                return [(st, BoolV(self.LISTED(a.t, b.t)))]
            if isinstance(a, RefV) and isinstance(b, BuiltinV) and b.name == "BaseExceptionGroup":
                return [(st, BoolV(False))]  # stated assumption: not an exception group
        return super().call_builtin(st, fr, f, pos, kws, rest_kw, node)


@std_unit("contextlib.suppress", LOOP_PROPS, lambda: SuppressTheory(), "contextlib", "contextlib", "suppress", ["__init__", "__enter__", "__exit__"], TRUSTED_SUPPRESS)
def u_suppress(ip: Interp, th: SuppressTheory, std: StdRepo):
    P = LOOP_PROPS
    SELF = SelfV("suppress")

    def run(st, name, args):
        return ip.exec_function(st, std.get("contextlib.suppress." + name), SELF, args)

    # __init__(*exceptions): stores exactly the given classes
    st = th.initial()
    given = fresh("given_classes", Ref)
    for s, v in run(st, "__init__", {"exceptions": RefV(given)}):
        ip.require(s, "__init__:stores-exactly-the-given-exception-classes", z3.And(z3.BoolVal(not isinstance(v, Exit)), s.sh["_exceptions"].t == given), P)
    # __enter__: no effect
    st = th.initial()
    e0 = st.sh["_exceptions"].t
    for s, v in run(st, "__enter__", {}):
        ip.require(s, "__enter__:no-effect,raises-nothing", z3.And(z3.BoolVal(not isinstance(v, Exit)), s.sh["_exceptions"].t == e0), P)
    # __exit__: truthy exactly for a raised exception whose class is a subclass of a listed class; never raises; no effect
    st = th.initial()
    e0 = st.sh["_exceptions"].t
    exctype = fresh("exctype", Ref)
    n = 0
    for s, v in run(st, "__exit__", {"exctype": RefV(exctype), "excinst": RefV(fresh("excinst", Ref)), "exctb": RefV(fresh("exctb", Ref))}):
        n += 1
        swallowed = z3.And(exctype != NONE, SuppressTheory.LISTED(exctype, e0))
        if isinstance(v, Exit):
            ip.require(s, "__exit__:never-raises(non-group-exceptions)", z3.BoolVal(False), P)
            continue
        truthy = v.t if isinstance(v, BoolV) else z3.BoolVal(False) if isinstance(v, NoneV) else None
        ip.require(s, "__exit__:returns-a-true-value-exactly-when-an-exception-was-raised-and-its-class-is-a-subclass-of-a-listed-class(the-`with suppress`-rule-of-the-verifier)",
                   truthy == swallowed if truthy is not None else z3.BoolVal(False), P)
        ip.require(s, "__exit__:the-listed-classes-are-unchanged", s.sh["_exceptions"].t == e0, P)
    ip.require(st, "__exit__:paths-explored", z3.BoolVal(n >= 3), P)
