"""Verification units for asyncio_taskpool.pool: contracts (pre/post/frame/raises), thread units for the
segmented coroutines, loop invariants.  Top-level postconditions are taken from the property statements."""
from __future__ import annotations

from typing import Dict, List

import z3

from pyvc.interp import NORMAL, CollV, ExcV, Exit, Frame, Interp, LoopSpec, SelfV, St
from pyvc.run import Unit
from pyvc.sym import (B, I, NONE, S, BoolV, ClassV, CoroV, DictV, ExtV, FuncV, IntL, IntV, KwV, NoneV, OptV, PlaceV, Ref, RefL, RefV,
                      SemV, SeqV, SetV, StrV, TupleV, Unsupported, V, fresh)
from pyvc.theory import ArrV, eq_value, same_value

from .pool_theory import (K_APPLY, K_MAP, K_NONE, K_OTHER, K_START, K_WRAPPER, L_BODY, L_CCB, L_DONE, L_ECB, L_NS, L_RUN, PoolTheory,
                          PView, TRUSTED)

UNITS: List[Unit] = []


def unit(name, props, functions, cls="TaskPool"):
    def deco(fn):
        UNITS.append(Unit(name, fn, props, functions, theory_factory=lambda: PoolTheory(cls), trusted=TRUSTED))
        return fn

    return deco


def run_body(ip: Interp, th: PoolTheory, st: St, qual: str, args: Dict[str, V], cls=None):
    fi = ip.repo.get(qual)
    fr = Frame(fi, fi.module, SelfV(cls or th.cls), 0, qual="@unit:" + _key(ip, qual))
    fr.qual = fi.qualname if True else fr.qual
    fr.unit_key = qual
    return ip.exec_function(st, fi, SelfV(cls or th.cls), args, frame=fr)


def _key(ip, qual):
    return qual


def unchanged(ip, s: St, st0: St, label: str, props, except_=()):
    """frame condition: every shared component not listed is semantically unchanged"""
    for k in st0.sh:
        if k in except_:
            continue
        if same_value(st0.sh[k], s.sh[k]):
            continue
        ip.require(s, f"frame:{label}:{k}", eq_value(st0.sh[k], s.sh[k]), props)


def no_exit(ip, s: St, label: str, props):
    ip.require(s, label, z3.BoolVal(False), props)


def is_raise(v, cls=None):
    return isinstance(v, Exit) and v.kind == Exit.RAISE and (cls is None or v.val.cls == cls)


# ======================================================================================================
# C06  _get_running_task / cancel
# ======================================================================================================
@unit("pool.BaseTaskPool._get_running_task", ("C06",), ["pool.BaseTaskPool._get_running_task"])
def u_get_running_task(ip: Interp, th: PoolTheory):
    st = th.initial()
    st0 = st.fork()
    tid = IntV(fresh("a_task_id", I))
    p = PView(st0)
    for s, v in run_body(ip, th, st, "pool.BaseTaskPool._get_running_task", {"task_id": tid}):
        unchanged(ip, s, st0, "pure", ("C06",))
        if isinstance(v, Exit):
            c = v.val.cls
            cond = {"AlreadyCancelled": z3.And(z3.Not(p.R.has(tid.t)), p.C.has(tid.t)),
                    "AlreadyEnded": z3.And(z3.Not(p.R.has(tid.t)), z3.Not(p.C.has(tid.t)), p.E.has(tid.t)),
                    "TaskNotFound": z3.And(z3.Not(p.R.has(tid.t)), z3.Not(p.C.has(tid.t)), z3.Not(p.E.has(tid.t)))}.get(c)
            if cond is None:
                no_exit(ip, s, f"noraise:{c}", ("C06",))
            else:
                ip.require(s, f"raises:{c}:iff-state", cond, ("C06",))
        else:
            ip.require(s, "post:returns-running-task", z3.And(p.R.has(tid.t), isinstance(v, RefV) and v.t == p.Rv(tid.t)), ("C06",))


LOOPSPECS = {}


def loopspec(qual, ordinal, props=(), name=""):
    def deco(fn):
        LOOPSPECS[(qual, ordinal)] = LoopSpec(fn, props, name=name or f"loop{ordinal}")
        return fn

    return deco


def install(ip: Interp):
    ip.loopspecs.update(LOOPSPECS)


def requested(st0: St, st: St, pred):
    """exactly the tasks satisfying pred(t) (evaluated in the pre-state) received a cancellation request"""
    t = z3.Const("t!r", Ref)
    c0, c1 = st0.sh["creq"].t, st.sh["creq"].t
    e0, e1 = st0.sh["cever"].t, st.sh["cever"].t
    live = z3.Select(st0.sh["loc"].t, t) != L_DONE
    return z3.ForAll([t], z3.And(z3.Select(c1, t) == z3.Or(z3.Select(c0, t), z3.And(pred(t), live)),
                                 z3.Select(e1, t) == z3.Or(z3.Select(e0, t), z3.And(pred(t), live))))


@loopspec("pool.BaseTaskPool.cancel", 1, ("C06",), "cancel-each")
def inv_cancel(c):
    tasks: SeqV = c.loc("tasks")
    j = z3.Int("j!l")
    arr = tasks.arrs[0]
    out = [("requested-prefix", requested(c.st0, c.st, lambda t: z3.Exists([j], z3.And(0 <= j, j < c.i, z3.Select(arr, j) == t)))),
           ("waiters-untouched", eq_value(c.st0.sh["_enough_room"], c.st.sh["_enough_room"]))]
    return out


@unit("pool.BaseTaskPool.cancel", ("C06",), ["pool.BaseTaskPool.cancel", "pool.BaseTaskPool._get_running_task", "pool.BaseTaskPool._get_cancel_kw"])
def u_cancel(ip: Interp, th: PoolTheory):
    install(ip)
    st = th.initial()
    n = fresh("a_nids", I)
    ids = SeqV(n, [fresh("a_ids", z3.ArraySort(I, I))], IntL())
    st.assume(n >= 0)
    msg = OptV(fresh("a_msg_none", B), StrV(fresh("a_msg", S)))
    st0 = st.fork()
    p = PView(st0)
    j = z3.Int("j!p")
    idj = z3.Select(ids.arrs[0], j)
    all_running = z3.ForAll([j], z3.Implies(z3.And(0 <= j, j < n), p.R.has(idj)))
    for s, v in run_body(ip, th, st, "pool.BaseTaskPool.cancel", {"task_ids": ids, "msg": msg}):
        th.check_point(s, "exit")
        if isinstance(v, Exit):
            # all-or-nothing: on any error nothing at all has changed
            unchanged(ip, s, st0, "error-leaves-no-trace", ("C06",))
            c = v.val.cls
            j0 = s.aux.get("comp_fail_index")
            if c not in ("AlreadyCancelled", "AlreadyEnded", "TaskNotFound") or j0 is None:
                no_exit(ip, s, f"noraise:{c}", ("C06",))
                continue
            bad = z3.Select(ids.arrs[0], j0)
            cond = {"AlreadyCancelled": p.C.has(bad), "AlreadyEnded": p.E.has(bad),
                    "TaskNotFound": z3.And(z3.Not(p.C.has(bad)), z3.Not(p.E.has(bad)))}[c]
            ip.require(s, f"raises:{c}:matches-state-of-first-offender",
                       z3.And(0 <= j0, j0 < n, z3.Not(p.R.has(bad)), cond, z3.ForAll([j], z3.Implies(z3.And(0 <= j, j < j0), p.R.has(idj)))), ("C06",))
        else:
            ip.require(s, "post:no-error-only-if-all-running", all_running, ("C06",))
            ip.require(s, "post:exactly-the-named-tasks-requested",
                       requested(st0, s, lambda t: z3.Exists([j], z3.And(0 <= j, j < n, p.Rv(idj) == t))), ("C06",))
            unchanged(ip, s, st0, "only-cancel-requests-change", ("C06",), except_=("creq", "cever"))


# ======================================================================================================
# The wrapper thread: _task_wrapper + _task_cancellation + _task_ending + helpers.execute_optional
# (C02 token released exactly once, C03 lifecycle/callbacks, C12 failure containment, C13 stability)
# ======================================================================================================
WRAPPER_FUNCS = ["pool.BaseTaskPool._task_wrapper", "pool.BaseTaskPool._task_cancellation", "pool.BaseTaskPool._task_ending",
                 "helpers.execute_optional", "pool.BaseTaskPool._task_name", "pool.BaseTaskPool.__str__"]


def wrapper_start(th: PoolTheory):
    st = th.initial(me_kind=K_WRAPPER)
    p = PView(st)
    me = st.me
    sel = z3.Select
    st.assume(sel(p.loc, me) == L_NS)
    st.assume(z3.Not(sel(p.creq, me)))  # T3: a task takes its first step only without a pending request
    th.instantiate_for_me(st)
    args = {"awaitable": RefV(sel(p.aw, me)), "task_id": IntV(sel(p.tid, me)), "end_callback": RefV(sel(p.ecb, me)),
            "cancel_callback": RefV(sel(p.ccb, me))}
    st.assume(args["awaitable"].t != NONE)
    return st, args


def wrapper_unit(first_outcome: str):
    def fn(ip: Interp, th: PoolTheory):
        install(ip)
        st, args = wrapper_start(th)
        me = st.me
        tid = args["task_id"].t
        ecb, ccb = args["end_callback"].t, args["cancel_callback"].t
        P3 = ("C03",)

        def on_callout(s: St, fr, fn_t, cargs, loc):
            p = PView(s)
            if loc == L_ECB:
                ip.require(s, "callout:end-callback:is-the-task's-end-callback", fn_t == ecb, P3)
                ip.require(s, "callout:end-callback:argument-is-task-id", z3.BoolVal(len(cargs) == 1 and isinstance(cargs[0], IntV)) if not (len(cargs) == 1 and isinstance(cargs[0], IntV)) else cargs[0].t == tid, P3 + ("C11",))
                ip.require(s, "callout:end-callback:task-already-counts-as-ended", z3.And(p.E.has(tid), p.Ev(tid) == me, z3.Not(p.R.has(tid)), z3.Not(p.C.has(tid))), P3)
                ip.require(s, "callout:end-callback:slot-already-released", z3.Not(z3.Select(p.tok, me)), ("C12", "C02"))
            elif loc == L_CCB:
                ip.require(s, "callout:cancel-callback:is-the-task's-cancel-callback", fn_t == ccb, P3)
                ip.require(s, "callout:cancel-callback:argument-is-task-id", cargs[0].t == tid if (len(cargs) == 1 and isinstance(cargs[0], IntV)) else z3.BoolVal(False), P3 + ("C11",))
                ip.require(s, "callout:cancel-callback:task-counts-as-cancelled", z3.And(p.C.has(tid), p.Cv(tid) == me, z3.Not(p.R.has(tid)), z3.Not(p.E.has(tid))), P3)
            else:
                ip.require(s, "callout:unexpected-user-call", z3.BoolVal(False), P3)

        th.on_callout = on_callout
        th.first_outcome = first_outcome
        for s, v in run_body(ip, th, st, "pool.BaseTaskPool._task_wrapper", args):
            tr = s.trace
            tag = "/".join(s.tags)
            # thread end
            th.set_ghost(s, "loc", me, z3.IntVal(L_DONE))
            th.check_point(s, "thread-end")
            rel = [e for e in tr if e[0] == "release" and e[1] == "tok"]
            ip.require(s, "count:pool-slot-released-exactly-once", z3.BoolVal(len(rel) == 1), ("C02", "C12"))
            callouts = [e for e in tr if e[0] == "callout"]
            awaits = [e for e in tr if e[0] == "await_user"]
            n_e = [e for e in callouts if e[3] == L_ECB]
            n_c = [e for e in callouts if e[3] == L_CCB]
            cancelled = "awaitable:cancelled" in s.tags
            callable_arr, corof = z3.Const("is_callable", z3.ArraySort(Ref, B)), z3.Const("is_corofunc", z3.ArraySort(Ref, B))
            e_callable = z3.And(ecb != NONE, z3.Select(callable_arr, ecb))
            c_callable = z3.And(ccb != NONE, z3.Select(callable_arr, ccb))
            # the cancel callback may have raised, in which case the end callback still must run (finally)
            ip.require(s, "count:end-callback-exactly-once-iff-callable", z3.And(z3.BoolVal(len(n_e) <= 1), e_callable == z3.BoolVal(len(n_e) == 1)), P3 + ("C02", "C12"))
            ip.require(s, "count:cancel-callback-once-iff-cancelled-and-callable", z3.And(z3.BoolVal(len(n_c) <= 1), z3.And(z3.BoolVal(cancelled), c_callable) == z3.BoolVal(len(n_c) == 1)), P3)
            if n_e and n_c:
                ip.require(s, "order:cancel-callback-before-end-callback", z3.BoolVal(tr.index(n_c[0]) < tr.index(n_e[0])), P3)
            # coroutine callbacks are awaited (run to completion)
            for e in callouts:
                idx = tr.index(e)
                nxt = [x for x in tr[idx + 1: idx + 3] if x[0] == "await_user"]
                is_co = z3.Select(corof, e[1])
                returned = not any(t.endswith("callback:raises") for t in s.tags[-1:]) or True
                # the call-out's result is awaited iff the callback is a coroutine function (unless the call itself raised)
                raised_at_call = _raised_at(tr, idx, s)
                if not raised_at_call:
                    ip.require(s, f"callback-result-awaited-iff-coroutine-function:{'end' if e[3] == L_ECB else 'cancel'}", is_co == z3.BoolVal(len(nxt) == 1), P3)
            # outcome of the task
            if isinstance(v, Exit):
                origin = getattr(v.val, "origin", "pool")
                ip.require(s, f"noraise:pool-internal-exception:{v.val.cls}", z3.BoolVal(origin in ("user",)), ("C12", "C13", "C02"))
            else:
                pass

    return fn


def _raised_at(tr, idx, s):
    """did the synchronous call-out at trace position idx raise?  (then nothing can be awaited)"""
    # the obs event follows the callout; the branch tag order mirrors the trace order
    k = sum(1 for e in tr[: idx + 1] if e[0] == "callout")
    tags = [t for t in s.tags if t.endswith("-callback:returns") or t.endswith("-callback:raises") or t.startswith("callout:")]
    tags = [t for t in tags if t.endswith(":returns") or t.endswith(":raises")]
    calls = [t for t in s.tags if t in ("cancel-callback:returns", "cancel-callback:raises", "end-callback:returns", "end-callback:raises", "callout:returns", "callout:raises")]
    return k - 1 < len(calls) and calls[k - 1].endswith(":raises")


for _o in ("all",):
    UNITS.append(Unit("pool.BaseTaskPool._task_wrapper[thread]", wrapper_unit(_o), ("C02", "C03", "C12", "C13", "C01", "C11"), WRAPPER_FUNCS,
                      theory_factory=lambda: PoolTheory("TaskPool"), trusted=TRUSTED))
