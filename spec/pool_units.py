"""Verification units for asyncio_taskpool.pool: contracts (pre/post/frame/raises), thread units for the
segmented coroutines, loop invariants.  Top-level postconditions are taken from the property statements."""
from __future__ import annotations

from typing import Dict, List

import z3

from pyvc.interp import NORMAL, CollV, ExcV, Exit, Frame, Interp, LoopSpec, SelfV, St
from pyvc import sym
from pyvc.run import Unit
from pyvc.sym import (StarV, B, I, NONE, S, BoolV, ClassV, CoroV, DictV, ExtV, FuncV, IntL, IntV, KwV, NoneV, OptV, PlaceV, Ref, RefL, RefV,
                      SemV, SeqV, SetV, StrV, TupleV, Unsupported, V, fresh)
from pyvc.theory import ArrV, eq_value, same_value

from .pool_theory import (K_APPLY, K_MAP, K_NONE, K_OTHER, K_START, K_WRAPPER, L_BODY, L_CCB, L_DONE, L_ECB, L_NS, L_RUN, PoolTheory,
                          PView, TRUSTED)

UNITS: List[Unit] = []


def unit(name, props, functions, cls="TaskPool"):
    def deco(fn):
        UNITS.append(Unit(name, fn, props, functions, theory_factory=lambda: PoolTheory(cls), trusted=TRUSTED))
        return fn

    return deco


def run_body(ip: Interp, th: PoolTheory, st: St, qual: str, args: Dict[str, V], cls=None):
    fi = ip.repo.get(qual)
    fr = Frame(fi, fi.module, SelfV(cls or th.cls), 0, qual="@unit:" + _key(ip, qual))
    fr.qual = fi.qualname if True else fr.qual
    fr.unit_key = qual
    return ip.exec_function(st, fi, SelfV(cls or th.cls), args, frame=fr)


def _key(ip, qual):
    return qual


def unchanged(ip, s: St, st0: St, label: str, props, except_=()):
    """frame condition: every shared component not listed is semantically unchanged"""
    for k in st0.sh:
        if k in except_:
            continue
        if same_value(st0.sh[k], s.sh[k]):
            continue
        ip.require(s, f"frame:{label}:{k}", eq_value(st0.sh[k], s.sh[k]), props)


def no_exit(ip, s: St, label: str, props):
    ip.require(s, label, z3.BoolVal(False), props)


def is_raise(v, cls=None):
    return isinstance(v, Exit) and v.kind == Exit.RAISE and (cls is None or v.val.cls == cls)


# ======================================================================================================
# C06  _get_running_task / cancel
# ======================================================================================================
@unit("pool.BaseTaskPool._get_running_task", ("C06",), ["pool.BaseTaskPool._get_running_task"])
def u_get_running_task(ip: Interp, th: PoolTheory):
    st = th.initial()
    st0 = st.fork()
    tid = IntV(fresh("a_task_id", I))
    p = PView(st0)
    for s, v in run_body(ip, th, st, "pool.BaseTaskPool._get_running_task", {"task_id": tid}):
        unchanged(ip, s, st0, "pure", ("C06",))
        if isinstance(v, Exit):
            c = v.val.cls
            cond = {"AlreadyCancelled": z3.And(z3.Not(p.R.has(tid.t)), p.C.has(tid.t)),
                    "AlreadyEnded": z3.And(z3.Not(p.R.has(tid.t)), z3.Not(p.C.has(tid.t)), p.E.has(tid.t)),
                    "TaskNotFound": z3.And(z3.Not(p.R.has(tid.t)), z3.Not(p.C.has(tid.t)), z3.Not(p.E.has(tid.t)))}.get(c)
            if cond is None:
                no_exit(ip, s, f"noraise:{c}", ("C06",))
            else:
                ip.require(s, f"raises:{c}:iff-state", cond, ("C06",))
        else:
            ip.require(s, "post:returns-running-task", z3.And(p.R.has(tid.t), isinstance(v, RefV) and v.t == p.Rv(tid.t)), ("C06",))


LOOPSPECS = {}


def loopspec(qual, ordinal, props=(), name="", sig=None):
    def deco(fn):
        LOOPSPECS[(qual, ordinal)] = LoopSpec(fn, props, name=name or f"loop{ordinal}", sig=sig)
        return fn

    return deco


def install(ip: Interp):
    ip.loopspecs.update(LOOPSPECS)


def requested(st0: St, st: St, pred):
    """exactly the tasks satisfying pred(t) (evaluated in the pre-state) received a cancellation request"""
    t = z3.Const("t!r", Ref)
    c0, c1 = st0.sh["creq"].t, st.sh["creq"].t
    e0, e1 = st0.sh["cever"].t, st.sh["cever"].t
    live = z3.Select(st0.sh["loc"].t, t) != L_DONE
    return z3.ForAll([t], z3.And(z3.Select(c1, t) == z3.Or(z3.Select(c0, t), z3.And(pred(t), live)),
                                 z3.Select(e1, t) == z3.Or(z3.Select(e0, t), z3.And(pred(t), live))))


@loopspec("pool.BaseTaskPool.cancel", 1, ("C06",), "cancel-each", sig="tasks")
def inv_cancel(c):
    tasks: SeqV = c.loc("tasks")
    j = z3.Int("j!l")
    arr = tasks.arrs[0]
    out = [("requested-prefix", requested(c.st0, c.st, lambda t: z3.Exists([j], z3.And(0 <= j, j < c.i, z3.Select(arr, j) == t)))),
           ("waiters-untouched", eq_value(c.st0.sh["_enough_room"], c.st.sh["_enough_room"]))]
    return out


@unit("pool.BaseTaskPool.cancel", ("C06",), ["pool.BaseTaskPool.cancel", "pool.BaseTaskPool._get_running_task", "pool.BaseTaskPool._get_cancel_kw"])
def u_cancel(ip: Interp, th: PoolTheory):
    install(ip)
    st = th.initial()
    n = fresh("a_nids", I)
    ids = SeqV(n, [fresh("a_ids", z3.ArraySort(I, I))], IntL())
    st.assume(n >= 0)
    msg = OptV(fresh("a_msg_none", B), StrV(fresh("a_msg", S)))
    st0 = st.fork()
    p = PView(st0)
    j = z3.Int("j!p")
    idj = z3.Select(ids.arrs[0], j)
    all_running = z3.ForAll([j], z3.Implies(z3.And(0 <= j, j < n), p.R.has(idj)))
    for s, v in run_body(ip, th, st, "pool.BaseTaskPool.cancel", {"task_ids": ids, "msg": msg}):
        th.check_point(s, "exit")
        if isinstance(v, Exit):
            # all-or-nothing: on any error nothing at all has changed
            unchanged(ip, s, st0, "error-leaves-no-trace", ("C06",))
            c = v.val.cls
            j0 = s.aux.get("comp_fail_index")
            if c not in ("AlreadyCancelled", "AlreadyEnded", "TaskNotFound") or j0 is None:
                no_exit(ip, s, f"noraise:{c}", ("C06",))
                continue
            bad = z3.Select(ids.arrs[0], j0)
            cond = {"AlreadyCancelled": p.C.has(bad), "AlreadyEnded": p.E.has(bad),
                    "TaskNotFound": z3.And(z3.Not(p.C.has(bad)), z3.Not(p.E.has(bad)))}[c]
            ip.require(s, f"raises:{c}:matches-state-of-first-offender",
                       z3.And(0 <= j0, j0 < n, z3.Not(p.R.has(bad)), cond, z3.ForAll([j], z3.Implies(z3.And(0 <= j, j < j0), p.R.has(idj)))), ("C06",))
        else:
            ip.cover(s, "cancel:normal-exit")
            ip.require(s, "post:no-error-only-if-all-running", all_running, ("C06",))
            ip.require(s, "post:exactly-the-named-tasks-requested",
                       requested(st0, s, lambda t: z3.Exists([j], z3.And(0 <= j, j < n, p.Rv(idj) == t))), ("C06",))
            unchanged(ip, s, st0, "only-cancel-requests-change", ("C06",), except_=("creq", "cever"))


# ======================================================================================================
# The wrapper thread: _task_wrapper + _task_cancellation + _task_ending + helpers.execute_optional
# (C02 token released exactly once, C03 lifecycle/callbacks, C12 failure containment, C13 stability)
# ======================================================================================================
WRAPPER_FUNCS = ["pool.BaseTaskPool._task_wrapper", "pool.BaseTaskPool._task_cancellation", "pool.BaseTaskPool._task_ending",
                 "helpers.execute_optional", "pool.BaseTaskPool._task_name", "pool.BaseTaskPool.__str__"]


def wrapper_start(th: PoolTheory):
    st = th.initial(me_kind=K_WRAPPER)
    p = PView(st)
    me = st.me
    sel = z3.Select
    st.assume(sel(p.loc, me) == L_NS)
    st.assume(z3.Not(sel(p.creq, me)))  # T3: a task takes its first step only without a pending request
    th.instantiate_for_me(st)
    args = {"awaitable": RefV(sel(p.aw, me)), "task_id": IntV(sel(p.tid, me)), "end_callback": RefV(sel(p.ecb, me)),
            "cancel_callback": RefV(sel(p.ccb, me))}
    st.assume(args["awaitable"].t != NONE)
    return st, args


def wrapper_unit(first_outcome: str):
    def fn(ip: Interp, th: PoolTheory):
        install(ip)
        st, args = wrapper_start(th)
        me = st.me
        tid = args["task_id"].t
        ecb, ccb = args["end_callback"].t, args["cancel_callback"].t
        P3 = ("C03",)

        def on_callout(s: St, fr, fn_t, cargs, loc):
            p = PView(s)
            if loc == L_ECB:
                ip.require(s, "callout:end-callback:is-the-task's-end-callback", fn_t == ecb, P3)
                ip.require(s, "callout:end-callback:argument-is-task-id", z3.BoolVal(len(cargs) == 1 and isinstance(cargs[0], IntV)) if not (len(cargs) == 1 and isinstance(cargs[0], IntV)) else cargs[0].t == tid, P3 + ("C11",))
                ip.require(s, "callout:end-callback:task-already-counts-as-ended", z3.And(p.E.has(tid), p.Ev(tid) == me, z3.Not(p.R.has(tid)), z3.Not(p.C.has(tid))), P3)
                ip.require(s, "callout:end-callback:slot-already-released", z3.Not(z3.Select(p.tok, me)), ("C12", "C02"))
            elif loc == L_CCB:
                ip.require(s, "callout:cancel-callback:is-the-task's-cancel-callback", fn_t == ccb, P3)
                ip.require(s, "callout:cancel-callback:argument-is-task-id", cargs[0].t == tid if (len(cargs) == 1 and isinstance(cargs[0], IntV)) else z3.BoolVal(False), P3 + ("C11",))
                ip.require(s, "callout:cancel-callback:task-counts-as-cancelled", z3.And(p.C.has(tid), p.Cv(tid) == me, z3.Not(p.R.has(tid)), z3.Not(p.E.has(tid))), P3)
            else:
                ip.require(s, "callout:unexpected-user-call", z3.BoolVal(False), P3)

        th.on_callout = on_callout
        th.first_outcome = first_outcome
        for s, v in run_body(ip, th, st, "pool.BaseTaskPool._task_wrapper", args):
            tr = s.trace
            tag = "/".join(s.tags)
            # thread end (vacuity guard: this point must be reachable on at least one path)
            ip.cover(s, "wrapper:thread-end:" + ("raises" if isinstance(v, Exit) else "returns"))
            th.set_ghost(s, "loc", me, z3.IntVal(L_DONE))
            th.set_ghost(s, "fcan", me, z3.BoolVal(isinstance(v, Exit) and v.val.cls == "CancelledError"))
            th.check_point(s, "thread-end")
            rel = [e for e in tr if e[0] == "release" and e[1] == "tok"]
            ip.require(s, "count:pool-slot-released-exactly-once", z3.BoolVal(len(rel) == 1), ("C02", "C12", "C05", "C01"))
            callouts = [e for e in tr if e[0] == "callout"]
            awaits = [e for e in tr if e[0] == "await_user"]
            n_e = [e for e in callouts if e[3] == L_ECB]
            n_c = [e for e in callouts if e[3] == L_CCB]
            cancelled = "awaitable:cancelled" in s.tags
            callable_arr, corof = z3.Const("is_callable", z3.ArraySort(Ref, B)), z3.Const("is_corofunc", z3.ArraySort(Ref, B))
            e_callable = z3.And(ecb != NONE, z3.Select(callable_arr, ecb))
            c_callable = z3.And(ccb != NONE, z3.Select(callable_arr, ccb))
            # the cancel callback may have raised, in which case the end callback still must run (finally)
            ip.require(s, "count:end-callback-exactly-once-iff-callable", z3.And(z3.BoolVal(len(n_e) <= 1), e_callable == z3.BoolVal(len(n_e) == 1)), P3 + ("C02", "C12", "C05"))
            ip.require(s, "count:cancel-callback-once-iff-cancelled-and-callable", z3.And(z3.BoolVal(len(n_c) <= 1), z3.And(z3.BoolVal(cancelled), c_callable) == z3.BoolVal(len(n_c) == 1)), P3)
            if n_e and n_c:
                ip.require(s, "order:cancel-callback-before-end-callback", z3.BoolVal(tr.index(n_c[0]) < tr.index(n_e[0])), P3)
            # coroutine callbacks are awaited (run to completion)
            for e in callouts:
                idx = tr.index(e)
                nxt = [x for x in tr[idx + 1: idx + 3] if x[0] == "await_user"]
                is_co = z3.Select(corof, e[1])
                returned = not any(t.endswith("callback:raises") for t in s.tags[-1:]) or True
                # the call-out's result is awaited iff the callback is a coroutine function (unless the call itself raised)
                raised_at_call = _raised_at(tr, idx, s)
                if not raised_at_call:
                    ip.require(s, f"callback-result-awaited-iff-coroutine-function:{'end' if e[3] == L_ECB else 'cancel'}", is_co == z3.BoolVal(len(nxt) == 1), P3)
            # outcome of the task
            if isinstance(v, Exit):
                origin = getattr(v.val, "origin", "pool")
                ip.require(s, f"noraise:pool-internal-exception:{v.val.cls}", z3.BoolVal(origin in ("user",)), ("C12", "C13", "C02"))
            else:
                pass

    return fn


def _raised_at(tr, idx, s):
    """did the synchronous call-out at trace position idx raise?  (then nothing can be awaited)"""
    # the obs event follows the callout; the branch tag order mirrors the trace order
    k = sum(1 for e in tr[: idx + 1] if e[0] == "callout")
    tags = [t for t in s.tags if t.endswith("-callback:returns") or t.endswith("-callback:raises") or t.startswith("callout:")]
    tags = [t for t in tags if t.endswith(":returns") or t.endswith(":raises")]
    calls = [t for t in s.tags if t in ("cancel-callback:returns", "cancel-callback:raises", "end-callback:returns", "end-callback:raises", "callout:returns", "callout:raises")]
    return k - 1 < len(calls) and calls[k - 1].endswith(":raises")


for _o in ("all",):
    UNITS.append(Unit("pool.BaseTaskPool._task_wrapper[thread]", wrapper_unit(_o), ("C02", "C03", "C12", "C13", "C01", "C11"), WRAPPER_FUNCS,
                      theory_factory=lambda: PoolTheory("TaskPool"), trusted=TRUSTED))


# ======================================================================================================
# _start_task  (C01 token acquired before the task exists, C02 token hand-off, C10 group membership,
#               C11 ids dense/ordered/named, C09 rejection leaves no trace, C07 no start after cancel)
# ======================================================================================================
def pool_str(sh) -> z3.ExprRef:
    """'<ClassName>-<name or index>'  (property C11: unnamed pools get distinct names; docs of __str__)"""
    from pyvc import sym

    nm: OptV = sh["_name"]
    use_name = z3.And(z3.Not(nm.isnone), sym.str_nonempty(nm.inner.t))
    return sym.str_concat([sh["clsname"], "-", StrV(z3.If(use_name, nm.inner.t, sym.itos(sh["_idx"].t)))])


def start_task_rejection(sh, a):
    """(class, condition) in the documented order of checks"""
    aw = a["awaitable"].t
    is_coro = z3.And(aw != NONE, z3.Select(z3.Const("is_coro", z3.ArraySort(Ref, B)), aw))
    closed = sh["_closed"].is_set
    locked = z3.And(sh["_locked"].t, z3.Not(a["ignore_lock"].t))
    return [("NotCoroutine", z3.Not(is_coro)), ("PoolIsClosed", z3.And(is_coro, closed)), ("PoolIsLocked", z3.And(is_coro, z3.Not(closed), locked))], z3.And(is_coro, z3.Not(closed), z3.Not(locked))


def start_task_post(th: PoolTheory, seg, new, me, a, result, ecb_ref, ccb_ref):
    """effect of the final atomic segment of _start_task (old = state at the start of that segment)"""
    o, n = PView(seg), PView(new)
    sel = z3.Select
    r = result
    t = n.Rv(r)
    g = a["group_name"].t
    i = z3.Int("i!s")
    h = z3.Const("h!s", S)
    u = z3.Const("u!s", Ref)
    cl = []
    cl.append(("id-is-next", z3.And(r == o.n, n.n == o.n + 1), ("C11",)))
    cl.append(("registered-running", z3.And(n.R.has(r), t != NONE, sel(sym.TRUTHY, t), sel(o.kind, t) == K_NONE, sel(n.kind, t) == K_WRAPPER, sel(n.loc, t) == L_NS,
                                            z3.Not(sel(n.creq, t)), z3.Not(sel(n.cever, t)), z3.Not(sel(n.fcan, t)), sel(n.tid, t) == r, sel(n.wt, r) == t), ("C11", "C03")))
    cl.append(("wrapper-gets-exactly-the-passed-objects", z3.And(sel(n.aw, t) == a["awaitable"].t, sel(n.ecb, t) == ecb_ref, sel(n.ccb, t) == ccb_ref), ("C04", "C05", "C03")))
    cl.append(("task-name-shows-id", sel(n.tname, t) == sym.str_concat([pool_str(new), "_Task-", StrV(sym.itos(r))]).t, ("C11",)))
    cl.append(("token-handed-to-wrapper", z3.And(sel(n.tok, t), z3.Not(sel(n.tok, me)), n.sem.out == o.sem.out + 1, sel(n.mtok, t) == sel(o.mtok, me), z3.Not(sel(n.mtok, me)),
                                                 sel(n.msem, t) == sel(o.msem, me)), ("C02", "C01", "C05")))
    cl.append(("only-this-id-added-to-running", z3.ForAll([i], z3.Implies(i != r, z3.And(n.R.has(i) == o.R.has(i), n.Rv(i) == o.Rv(i)))), ("C11", "C03")))
    cl.append(("newest-is-last-in-order", z3.And(sel(n.R.stamp, r) == o.R.nstamp, n.R.nstamp == o.R.nstamp + 1,
                                                 z3.ForAll([i], z3.Implies(i != r, sel(n.R.stamp, i) == sel(o.R.stamp, i)))), ("C14",)))
    cl.append(("added-to-the-named-group-only", z3.And(
        n.G.has(g), n.Gids(g, r), sel(n.grp, t) == g, z3.Not(n.Glock(g)),
        z3.ForAll([i], z3.Implies(i != r, n.Gids(g, i) == z3.And(o.G.has(g), o.Gids(g, i)))),
        z3.ForAll([h], z3.Implies(h != g, z3.And(n.G.has(h) == o.G.has(h), sel(n.G.cols[0], h) == sel(o.G.cols[0], h), sel(n.G.cols[1], h) == sel(o.G.cols[1], h), n.Glock(h) == o.Glock(h))))), ("C10",)))
    cl.append(("other-threads-ghost-unchanged", z3.ForAll([u], z3.Implies(z3.And(u != t, u != me), z3.And(
        sel(n.kind, u) == sel(o.kind, u), sel(n.loc, u) == sel(o.loc, u), sel(n.creq, u) == sel(o.creq, u), sel(n.cever, u) == sel(o.cever, u),
        sel(n.tok, u) == sel(o.tok, u), sel(n.mtok, u) == sel(o.mtok, u), sel(n.tid, u) == sel(o.tid, u), sel(n.grp, u) == sel(o.grp, u),
        sel(n.aw, u) == sel(o.aw, u), sel(n.ecb, u) == sel(o.ecb, u), sel(n.ccb, u) == sel(o.ccb, u), sel(n.tname, u) == sel(o.tname, u), sel(n.msem, u) == sel(o.msem, u), sel(n.fcan, u) == sel(o.fcan, u)))), ("C11",)))
    cl.append(("my-ghost", z3.And(sel(n.kind, me) == sel(o.kind, me), sel(n.loc, me) == sel(o.loc, me), sel(n.grp, me) == sel(o.grp, me), z3.Not(sel(n.creq, me)),
                                  sel(n.cever, me) == sel(o.cever, me), sel(n.msem, me) == sel(o.msem, me), sel(n.fcan, me) == sel(o.fcan, me)), ("C07",)))
    cl.append(("wt-others", z3.ForAll([i], z3.Implies(i != r, sel(n.wt, i) == sel(o.wt, i))), ("C11",)))
    cl.append(("semaphore-otherwise-consistent", z3.And(n.sem.v.inf == o.sem.v.inf, n.sem.g >= 0, n.sem.P >= 0), ("C01",)))
    return cl


START_TASK_MODIFIES = ("_num_started", "_tasks_running", "_task_groups", "_enough_room", "kind", "loc", "creq", "cever", "tok", "mtok", "tid", "grp",
                       "aw", "ecb", "ccb", "tname", "wt", "msem", "fcan")


def spawner_start_args(st: St, th: PoolTheory):
    a = {"awaitable": RefV(fresh("a_coro", Ref)), "group_name": StrV(fresh("a_group", S)), "ignore_lock": BoolV(fresh("a_ignore_lock", B)),
         "end_callback": RefV(fresh("a_ecb", Ref)), "cancel_callback": RefV(fresh("a_ccb", Ref))}
    return a


@unit("pool.BaseTaskPool._start_task", ("C01", "C02", "C07", "C09", "C10", "C11", "C14"),
      ["pool.BaseTaskPool._start_task", "pool.BaseTaskPool._check_start", "pool.BaseTaskPool._task_name", "pool.BaseTaskPool.__str__",
       "group_register.TaskGroupRegister.__aenter__", "group_register.TaskGroupRegister.__aexit__", "group_register.TaskGroupRegister.add"])
def u_start_task(ip: Interp, th: PoolTheory):
    install(ip)
    st = th.initial()
    me = st.me
    p0 = PView(st)
    st.assume(p0.is_spawner(me))
    st.assume(z3.Select(p0.loc, me) == L_RUN)
    st.assume(z3.Not(z3.Select(p0.creq, me)))
    a = spawner_start_args(st, th)
    st.assume(a["group_name"].t == z3.Select(p0.grp, me))
    st.assume(z3.And(a["awaitable"].t != NONE, z3.Select(sym.TRUTHY, a["awaitable"].t)))  # U10
    st.aux["start_group"] = a["group_name"].t
    th.instantiate_for_me(st)
    st0 = st.fork()
    rej, accepted = start_task_rejection(st0.sh, a)

    def spawn_hook(s: St):
        p = PView(s)
        ip.require(s, "spawn:spawner-not-cancelled", z3.Not(z3.Select(p.creq, me)), ("C07",))
        ip.require(s, "spawn:holds-a-pool-slot", z3.Select(p.tok, me), ("C01", "C02"))

    th.before_create_task = spawn_hook
    for s, v in run_body(ip, th, st, "pool.BaseTaskPool._start_task", a):
        suspended = any(e[0] == "obs" for e in s.trace)
        if isinstance(v, Exit):
            c = v.val.cls
            conds = dict(rej)
            if c in conds and not suspended:
                ip.require(s, f"raises:{c}:documented-condition-and-order", conds[c], ("C09",))
                unchanged(ip, s, st0, "rejected-leaves-no-trace", ("C09",))
            elif c == "CancelledError" and getattr(v.val, "origin", "") == "delivered":
                # cancelled while waiting for room: nothing of mine is left behind
                th.check_point(s, "cancelled-exit")  # I10 exempts me: my request flag stays set until I end
                seg = s.aux["seg0"]
                unchanged(ip, s, _as_state(seg), "cancelled-start-changes-nothing", ("C02", "C11"), except_=("creq", "_enough_room"))
                ip.require(s, "cancelled:no-slot-retained", z3.Not(th.ghost(s, "tok", me)), ("C02",))
                ip.require(s, "cancelled:slot-count-consistent", PView(s).sem.out == PView(seg).sem.out, ("C02",))
            else:
                no_exit(ip, s, f"noraise:{c}", ("C09", "C12"))
            continue
        ip.require(s, "accepted:only-if-no-rejection-cause", accepted, ("C09",))
        ip.cover(s, "_start_task:return" + (":after-waiting" if suspended else ":at-once"))
        th.check_point(s, "return")
        seg = s.aux["seg0"]
        if not isinstance(v, IntV):
            no_exit(ip, s, "post:returns-an-int", ("C11",))
            continue
        for name, f, props in start_task_post(th, seg, s.sh, me, a, v.t, a["end_callback"].t, a["cancel_callback"].t):
            ip.require(s, f"post:{name}", f, props)
        unchanged(ip, s, _as_state(seg), "final-segment", ("C11", "C09"), except_=START_TASK_MODIFIES)
        n_obs = sum(1 for e in s.trace if e[0] == "obs")
        ip.require(s, "post:suspends-at-most-once", z3.BoolVal(n_obs <= 1), ("C11",))


def _as_state(sh) -> St:
    s = St()
    s.sh = sh
    return s


# ======================================================================================================
# contract of _start_task as seen by its callers (the spawner coroutines)
# ======================================================================================================
def c_start_task(ip: Interp, st: St, fr, selfv, args):
    th: PoolTheory = ip.theory
    me = st.me
    a = dict(args)
    a.setdefault("ignore_lock", BoolV(False))
    for k in ("end_callback", "cancel_callback"):
        a.setdefault(k, NoneV())
    ecb_ref, ccb_ref = th.as_ref(st, a["end_callback"]), th.as_ref(st, a["cancel_callback"])
    if not isinstance(a["awaitable"], RefV) or not isinstance(a["group_name"], StrV) or not isinstance(a["ignore_lock"], BoolV):
        raise Unsupported("_start_task called with unexpected argument shapes")
    p = PView(st)
    ip.require(st, "pre:_start_task:awaitable-given", a["awaitable"].t != NONE, ("C09",))
    ip.require(st, "pre:_start_task:called-by-a-live-uncancelled-spawner-for-its-own-group",
               z3.And(p.is_spawner(me), z3.Not(z3.Select(p.creq, me)), a["group_name"].t == z3.Select(p.grp, me)), ("C07", "C10"))
    ip.require(st, "pre:_start_task:holds-no-pool-slot-yet", z3.Not(z3.Select(p.tok, me)), ("C02",))
    ip.require(st, "pre:_start_task:awaitable-is-truthy(U10)", z3.Select(sym.TRUTHY, a["awaitable"].t), ("C09",))
    th.check_point(st, "call:_start_task")
    st.assume(z3.And(a["awaitable"].t != NONE, z3.Select(sym.TRUTHY, a["awaitable"].t)))
    out = []
    rej, accepted = start_task_rejection(st.sh, a)
    for cls_, cond in rej:
        s = st.fork()
        s.assume(cond)
        s.tags.append("_start_task:" + cls_)
        if ip.feasible(s):
            e = ExcV(cls_, [])
            e.origin = "pool"
            out.append((s, Exit(Exit.RAISE, e)))
    s0 = st.fork()
    s0.assume(accepted)
    if not ip.feasible(s0):
        return out
    th.interfere(s0, "_start_task")
    # (A) cancelled while waiting for room
    sa = s0.fork()
    sa.tags.append("_start_task:cancelled")
    sa.assume(th.ghost(sa, "creq", me))
    old_out = PView(sa).sem.out
    sa.sh["_enough_room"] = __import__("pyvc.theory", fromlist=["havoc_like"]).havoc_like(sa.sh["_enough_room"], "stc_sem")
    for _n, f, _p in th.inv(sa.sh):
        sa.assume(f)
    sa.assume(PView(sa).sem.out == old_out)
    sa.aux["seg0"] = dict(sa.sh)
    if ip.feasible(sa):
        out.append((sa, Exit(Exit.RAISE, th.delivered_cancel())))
    # (B) started
    sb = s0.fork()
    sb.tags.append("_start_task:started")
    sb.assume(z3.Not(th.ghost(sb, "creq", me)))
    seg = dict(sb.sh)
    th.havoc_shared(sb, START_TASK_MODIFIES, "stn")
    for k in START_TASK_MODIFIES:
        th._facts(sb, sb.sh[k])
    r = fresh("new_id", I)
    for _n, f, _p in start_task_post(th, seg, sb.sh, me, a, r, ecb_ref, ccb_ref):
        sb.assume(f)
    for _n, f, _p in th.inv(sb.sh):
        sb.assume(f)
    th.instantiate_for_me(sb)
    sb.aux["seg0"] = dict(sb.sh)
    sb.aux["seg0_inv"] = True
    if "$started" in sb.loc:
        sb.loc["$started"] = IntV(sb.loc["$started"].t + 1)
    sb.trace.append(("started", r))
    out.append((sb, IntV(r)))
    return out


def use_start_task_contract(ip: Interp):
    ip.contracts["pool.BaseTaskPool._start_task"] = c_start_task


# ======================================================================================================
# spawner threads  _apply_spawner / _start_num   (C04, C07, C12)
# ======================================================================================================
def spawner_loop_inv(numvar):
    def inv(c):
        st = c.st
        me = st.me
        num = numvar(c)
        return [("counts", z3.And(st.loc["$invoked"].t == c.i, st.loc["$started"].t + st.loc["$skipped"].t == c.i)),
                ("not-cancelled-at-loop-head", z3.Not(z3.Select(st.sh["creq"].t, me))),
                ("holds-nothing", z3.And(z3.Not(z3.Select(st.sh["tok"].t, me)), z3.Select(st.sh["loc"].t, me) == L_RUN))]

    return inv


LOOPSPECS[("pool.TaskPool._apply_spawner", 1)] = LoopSpec(spawner_loop_inv(lambda c: c.loc("num").t), ("C04",), name="spawn-each", sig="range(num)")
LOOPSPECS[("pool.SimpleTaskPool._start_num", 1)] = LoopSpec(spawner_loop_inv(lambda c: c.loc("num").t), ("C04",), name="spawn-each", sig="range(num)")


def spawner_unit(qual: str, kind: int, cls: str, mk_args):
    def fn(ip: Interp, th: PoolTheory):
        install(ip)
        use_start_task_contract(ip)
        th.loops_need_inv = True
        st = th.initial(me_kind=kind)
        me = st.me
        p = PView(st)
        st.assume(z3.Select(p.loc, me) == L_NS)
        st.assume(z3.Not(z3.Select(p.creq, me)))  # T3
        st.assume(z3.Not(z3.Select(p.tok, me)))
        args, expect = mk_args(st, th)
        st.assume(args["group_name"].t == z3.Select(p.grp, me))
        th.set_ghost(st, "loc", me, z3.IntVal(L_RUN))  # first step of the thread
        st.aux["seg0"] = dict(st.sh)
        th.instantiate_for_me(st)
        for g in ("$invoked", "$started", "$skipped"):
            st.loc[g] = IntV(0)
        num = args["num"].t
        want = z3.If(num > 0, num, 0)

        def on_corocall(s: St, fn_t, cargs, ckws):
            ip.require(s, "invoke:the-requested-function", fn_t == expect["func"], ("C04",))
            okf = z3.BoolVal(False)
            if cargs and all(isinstance(x, StarV) for x in cargs) and not ckws and cargs[0].stars == 1:
                a0 = ip.deref(s, cargs[0].v)
                if isinstance(a0, RefV) and len(cargs) == 1:
                    # `**{}`: the request had kwargs=None
                    okf = z3.And(a0.t == expect["args"], expect["kwargs"] == NONE)
                elif isinstance(a0, RefV) and len(cargs) == 2 and cargs[1].stars == 2:
                    k0 = ip.deref(s, cargs[1].v)
                    if isinstance(k0, RefV):
                        okf = z3.And(a0.t == expect["args"], k0.t == expect["kwargs"], expect["kwargs"] != NONE)
            ip.require(s, "invoke:with-exactly-the-requested-arguments", okf, ("C04",))
            s.loc["$invoked"] = IntV(s.loc["$invoked"].t + 1)

        th.on_corocall = on_corocall
        th.on_call_raised = lambda s: s.loc.__setitem__("$skipped", IntV(s.loc["$skipped"].t + 1))
        a2 = dict(args)
        exits = run_body(ip, th, st, qual, a2, cls=cls)
        for s, v in exits:
            if not isinstance(v, Exit):
                ip.cover(s, "spawner:thread-end")
            th.set_ghost(s, "loc", me, z3.IntVal(L_DONE))
            th.check_point(s, "thread-end")
            if isinstance(v, Exit):
                c = v.val.cls
                ip.require(s, f"noraise:{c}:spawner-must-not-die", z3.BoolVal(False), ("C04", "C12", "C08"))
                continue
            cancelled = "_start_task:cancelled" in s.tags
            if cancelled:
                closes = [e for e in s.trace if e[0] == "close"]
                coros = [e for e in s.trace if e[0] == "corocall"]
                ip.require(s, "cancelled:built-coroutine-closed", z3.BoolVal(len(closes) == 1), ("C02",))
                ip.require(s, "cancelled:no-slot-retained", z3.Not(th.ghost(s, "tok", me)), ("C02",))
            else:
                ip.require(s, "post:exactly-num-invocations", _ghost(s, "$invoked") == want, ("C04",))
                ip.require(s, "post:every-invocation-started-or-skipped-because-the-call-raised", _ghost(s, "$started") + _ghost(s, "$skipped") == want, ("C04", "C12"))

    return fn


def _ghost(s: St, name):
    v = s.aux.get("ghost_final", {}).get(name)
    if v is None:
        v = s.loc[name]
    return v.t


def apply_spawner_args(st: St, th):
    a = {"group_name": StrV(fresh("a_group", S)), "func": RefV(fresh("a_func", Ref)), "args": RefV(fresh("a_args", Ref)),
         "kwargs": RefV(fresh("a_kwargs", Ref)), "num": IntV(fresh("a_num", I)), "end_callback": RefV(fresh("a_ecb", Ref)),
         "cancel_callback": RefV(fresh("a_ccb", Ref))}
    st.assume(z3.And(a["func"].t != NONE, a["args"].t != NONE))
    return a, {"func": a["func"].t, "args": a["args"].t, "kwargs": a["kwargs"].t}


def start_num_args(st: St, th):
    a = {"num": IntV(fresh("a_num", I)), "group_name": StrV(fresh("a_group", S))}
    st.assume(z3.And(st.sh["_func"].t != NONE, st.sh["_args"].t != NONE, st.sh["_kwargs"].t != NONE))
    return a, {"func": st.sh["_func"].t, "args": st.sh["_args"].t, "kwargs": st.sh["_kwargs"].t}


UNITS.append(Unit("pool.TaskPool._apply_spawner[thread]", spawner_unit("pool.TaskPool._apply_spawner", K_APPLY, "TaskPool", apply_spawner_args),
                  ("C04", "C07", "C12", "C02", "C08"), ["pool.TaskPool._apply_spawner"], theory_factory=lambda: PoolTheory("TaskPool"), trusted=TRUSTED))
UNITS.append(Unit("pool.SimpleTaskPool._start_num[thread]", spawner_unit("pool.SimpleTaskPool._start_num", K_START, "SimpleTaskPool", start_num_args),
                  ("C04", "C07", "C12", "C02", "C08"), ["pool.SimpleTaskPool._start_num"], theory_factory=lambda: PoolTheory("SimpleTaskPool"), trusted=TRUSTED))
