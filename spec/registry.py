"""all verification units + contracts that are assumed rather than verified"""
from __future__ import annotations


def all_units():
    from . import pool_units, pool_units2  # noqa: F401  (pool_units2 registers into pool_units.UNITS)

    units = list(pool_units.UNITS)
    try:
        from . import misc_units

        units += misc_units.UNITS
    except ImportError:
        pass
    try:
        from . import control_units

        units += control_units.UNITS
    except ImportError:
        pass
    from . import control_units2

    units += control_units2.UNITS
    from . import asyncio_units

    units += asyncio_units.UNITS
    from . import asyncio_units2

    units += asyncio_units2.UNITS
    from . import asyncio_units3

    units += asyncio_units3.UNITS
    # a unit also carries invariant/guarantee obligations of other properties (every segment must preserve every
    # clause): the measured property set of each unit is recorded with the baseline
    import json
    import os

    bp = os.path.join(os.path.dirname(os.path.dirname(os.path.abspath(__file__))), "baseline_obligations.json")
    if os.path.exists(bp):
        up = json.load(open(bp)).get("unit_props", {})
        for u in units:
            u.props = tuple(sorted(set(u.props) | set(up.get(u.name, []))))
    # The pool properties C01-C15 are proved from ONE invariant over ALL segments of pool.py (+ helpers, register): a
    # change anywhere in that code can undermine any of them (e.g. a slot that is not released breaks "no invocation is
    # lost", C04).  Every pool property therefore runs the whole pool cone; failures of obligations tagged with another
    # property are reported as supporting-obligation violations (check.py).
    pool_props = tuple(f"C{i:02d}" for i in range(1, 16))
    for u in units:
        if u.name.startswith(("pool.", "helpers.star_function", "helpers.execute_optional", "group_register.", "asyncio.locks.", "asyncio.tasks.", "asyncio.futures.", "asyncio.events.", "asyncio.base_events.", "contextlib.")):
            u.props = tuple(sorted(set(u.props) | set(pool_props)))
    return units


ASSUMED_CONTRACTS = []  # every in-repo callee contract used by a unit is verified against its body by another unit


# obligations established by exhaustive enumeration of a finite domain with run-time contracts on the real functions
# (run under /venv/bin/python); they are merged into the property's obligation list with their own backend label
NATIVE_SOURCES = {
    "C16": ["replay/control_enum.py"],
    "C17": ["replay/control_enum.py"],
}
