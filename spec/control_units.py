"""Verification units for the control package: helpers.return_or_exception, ControlSession
(_exec_method_and_respond, _exec_property_and_respond, _parse_command, listen), ControlParser overrides and
the converter wrapper.  (C17, C18; C16 symbolic part)"""
from __future__ import annotations

from typing import List

import z3

from pyvc import sym
from pyvc.interp import NORMAL, ExcV, Exit, Frame, Interp, LoopSpec, SelfV, St
from pyvc.run import Unit
from pyvc.sym import (B, I, NONE, S, BoolV, BuiltinV, BytesV, ClassV, CoroV, DictV, FuncV, IntV, KwV, NoneV, PlaceV, Ref, RefL, RefV, SeqV, StarV, StrV, TupleV,
                      Unsupported, V, fresh)
from pyvc.theory import same_value

from .control_theory import (EMPTY, KINDS, BufV, ControlTheory, EncodedV, LineV, NamespaceV, ParamL, SigV, TokensV, TRUSTED_CONTROL, arr, bufcat, str_of)

UNITS: List[Unit] = []
SES = "session.ControlSession."
PAR = "parser.ControlParser."
OK = sym.str_lit("ok")
EMPTY_LIST = z3.Const("EMPTY_LIST", Ref)


def unit(name, props, functions):
    def deco(fn):
        UNITS.append(Unit(name, fn, props, functions, theory_factory=ControlTheory, trusted=TRUSTED_CONTROL))
        return fn

    return deco


def run_async(ip: Interp, st: St, qual: str, selfv, args):
    fi = ip.repo.get(qual)
    fr0 = Frame(None, fi.module, selfv, 0, qual="@unit")
    return ip.run_repo(st, fr0, fi, selfv, args, awaited=True)


def writes(s: St):
    return [e for e in s.trace if e[0] == "buf_write"]


def calls(s: St):
    return [e for e in s.trace if e[0] == "call"]


# ======================================================================================================
# helpers.return_or_exception   (C17: the reply is the result or the exception the call raised)
# ======================================================================================================
@unit("helpers.return_or_exception", ("C17",), ["helpers.return_or_exception"])
def u_return_or_exception(ip: Interp, th: ControlTheory):
    st = th.initial()
    fn, a1 = RefV(fresh("a_fn", Ref)), RefV(fresh("a_arg", Ref))
    corof = z3.And(fn.t != NONE, z3.Select(arr("is_corofunc"), fn.t))
    for s, v in run_async(ip, st, "helpers.return_or_exception", None, {"_function_to_execute": fn, "args": TupleV([a1]), "kwargs": KwV({})}):
        cs, aw = calls(s), [e for e in s.trace if e[0] == "await"]
        ip.require(s, "post:function-called-exactly-once-with-the-given-arguments",
                   z3.BoolVal(len(cs) == 1 and len(cs[0][2]) == 1 and isinstance(cs[0][2][0], RefV) and not cs[0][3] and not cs[0][4]) if not (len(cs) == 1 and len(cs[0][2]) == 1 and isinstance(cs[0][2][0], RefV)) else z3.And(cs[0][1] == fn.t, cs[0][2][0].t == a1.t), ("C17",))
        raised_at_call = "call:raises" in s.tags
        if not raised_at_call:
            ip.require(s, "post:awaited-iff-coroutine-function", corof == z3.BoolVal(len(aw) == 1), ("C17",))
        if isinstance(v, Exit):
            ip.require(s, "raises:only-a-delivered-cancellation-escapes(Exception-is-returned)", z3.BoolVal(v.val.cls == "CancelledError"), ("C17", "C18"))
        elif "call:raises" in s.tags or "await:raises" in s.tags:
            ip.require(s, "post:the-raised-exception-is-returned", z3.BoolVal(isinstance(v, ExcV) and getattr(v, "origin", "") == "user"), ("C17",))
        else:
            ip.require(s, "post:the-result-is-returned", z3.BoolVal(isinstance(v, RefV)), ("C17",))


def record_roe(ip: Interp):
    """run the real return_or_exception inline and remember what it returned (for the reply obligations)"""

    def c(ip_, st, fr, selfv, args):
        fi = ip_.repo.get("helpers.return_or_exception")
        st.trace.append(("roe", args))
        out = []
        for s, v in ip_.exec_function(st, fi, None, args, depth=fr.depth + 1, parent=fr):
            s.aux["roe_out"] = v
            out.append((s, v))
        return out

    ip.contracts["helpers.return_or_exception"] = c


def expected_reply(v):
    """'ok' when the call returned None, otherwise the str() of its result or of the exception it raised"""
    if isinstance(v, ExcV):
        return str_of(v.ref)
    if isinstance(v, RefV):
        return z3.If(v.t == NONE, OK, str_of(v.t))
    if isinstance(v, NoneV):
        return OK
    return None


def check_reply(ip, s: St, buf0, label, props=("C17",), getter=False):
    w = writes(s)
    out = s.aux.get("roe_out")
    exp = expected_reply(out)
    if getter and isinstance(out, RefV):
        # domain fact (enumerated over the shipped classes in the C16/C17 enumeration): no property getter returns None
        s.assume(out.t != NONE)
    ip.require(s, f"{label}:exactly-one-reply-written", z3.BoolVal(len(w) == 1), props + ("C18",))
    if len(w) == 1 and exp is not None:
        ip.require(s, f"{label}:reply-is-ok-for-None-else-str-of-result-or-exception", w[0][1] == exp, props)
        ip.require(s, f"{label}:reply-appended-to-this-session's-buffer-only", s.sh["_response_buffer"].content == bufcat(buf0, w[0][1]), props + ("C18",))
    else:
        ip.require(s, f"{label}:reply-determined", z3.BoolVal(False), props)


# ======================================================================================================
# ControlSession._exec_property_and_respond      (C17; repaired defect F7)
# ======================================================================================================
@unit(SES + "_exec_property_and_respond", ("C17", "C18"), [SES + "_exec_property_and_respond", "helpers.return_or_exception"])
def u_exec_property(ip: Interp, th: ControlTheory):
    record_roe(ip)
    prop_ = RefV(fresh("a_prop", Ref))
    fget = z3.Select(arr("prop_fget", z3.ArraySort(Ref, Ref)), prop_.t)
    fset = z3.Select(arr("prop_fset", z3.ArraySort(Ref, Ref)), prop_.t)
    for mode in ("set", "get"):
        st = th.initial()
        kw = DictV.symbolic("a_kw", S, RefL())
        for f in kw.qfacts():
            st.assume(f)
        st.assume(kw.card > 0 if mode == "set" else kw.card == 0)
        buf0 = st.sh["_response_buffer"].content
        for s, v in run_async(ip, st, SES + "_exec_property_and_respond", SelfV("ControlSession"), {"prop": prop_, "kwargs": kw}):
            target = fset if mode == "set" else fget
            if isinstance(v, Exit):
                if v.val.cls == "TypeError":
                    ip.require(s, f"{mode}:raises:TypeError:only-without-{'setter' if mode == 'set' else 'getter'}", target == NONE, ("C17",))
                else:
                    ip.require(s, f"{mode}:raises:only-a-delivered-cancellation-escapes", z3.BoolVal(v.val.cls == "CancelledError"), ("C17", "C18"))
                continue
            cs = calls(s)
            okcall = len(cs) == 1 and len(cs[0][2]) == 1 and isinstance(cs[0][2][0], RefV)
            shape = z3.BoolVal(False)
            if okcall:
                shape = z3.And(cs[0][1] == target, cs[0][2][0].t == z3.Const("POOL", Ref))
                if mode == "set":
                    shape = z3.And(shape, z3.BoolVal(len(cs[0][4]) == 1 and isinstance(ip.deref(s, cs[0][4][0].v), DictV) and same_value(ip.deref(s, cs[0][4][0].v), kw) and not cs[0][3]))
                else:
                    shape = z3.And(shape, z3.BoolVal(not cs[0][3] and not cs[0][4]))
            ip.require(s, f"{mode}:calls-the-property's-{'setter(pool, **values)' if mode == 'set' else 'getter(pool)'}-exactly-once", shape, ("C17",))
            check_reply(ip, s, buf0, mode, getter=(mode == "get"))


# ======================================================================================================
# ControlSession._exec_method_and_respond      (C17: the call binds every parameter to its parsed value)
# ======================================================================================================
POSK = (KINDS["POSITIONAL_ONLY"], KINDS["POSITIONAL_OR_KEYWORD"])
SELF = sym.str_lit("self")


def u_exec_method_setup(th: ControlTheory, st: St):
    m = RefV(fresh("a_method", Ref))
    st.assume(m.t != NONE)
    params = SigV(m.t).params()
    kw0 = DictV.symbolic("a_kw", S, RefL())
    for f in kw0.qfacts():
        st.assume(f)
    j, j2 = z3.Int("j!s"), z3.Int("j2!s")
    name = lambda jj: z3.Select(params.arrs[0], jj)
    kind = lambda jj: z3.Select(params.arrs[1], jj)
    st.assume(params.n >= 0)
    # inspect: parameter names are distinct; kinds are 0..4; at most one *args
    st.assume(z3.ForAll([j, j2], z3.Implies(z3.And(0 <= j, j < j2, j2 < params.n), name(j) != name(j2))))
    st.assume(z3.ForAll([j], z3.Implies(z3.And(0 <= j, j < params.n), z3.And(kind(j) >= 0, kind(j) <= 4))))
    st.assume(z3.ForAll([j, j2], z3.Implies(z3.And(0 <= j, j < j2, j2 < params.n, kind(j) == 2), kind(j2) != 2)))
    # argparse + add_function_args: the namespace holds a value for every parameter that was registered (all but `self`)
    st.assume(z3.ForAll([j], z3.Implies(z3.And(0 <= j, j < params.n, name(j) != SELF), kw0.has(name(j)))))
    return m, params, kw0, name, kind


def is_positional(name, kind, jj):
    return z3.Or(name(jj) == SELF, kind(jj) == POSK[0], kind(jj) == POSK[1])


def is_consumed(name, kind, jj):
    return z3.And(name(jj) != SELF, z3.Or(kind(jj) == POSK[0], kind(jj) == POSK[1], kind(jj) == 2))


def exec_method_inv(ctx_state):
    def inv(c):
        m, params, kw0, name, kind = ctx_state["setup"]
        st = c.st
        npos: SeqV = c.loc("normal_pos")
        kwargs: DictV = c.loc("kwargs")
        vp = c.loc("var_pos")
        slot = st.loc["$slot"].arrs[0]
        pidx = st.loc["$pidx"].arrs[0]
        i = c.i
        j, j2, mm = z3.Int("j!l"), z3.Int("j2!l"), z3.Int("m!l")
        k = z3.Const("k!l", S)
        POOL = z3.Const("POOL", Ref)
        val = lambda jj: z3.If(name(jj) == SELF, POOL, z3.Select(kw0.cols[0], name(jj)))
        pos = lambda jj: is_positional(name, kind, jj)
        vp_t = vp.t if isinstance(vp, RefV) else None
        cl = [
            ("positional-values-in-parameter-order", z3.And(
                npos.n >= 0, npos.n <= i,
                z3.ForAll([j], z3.Implies(z3.And(0 <= j, j < i, pos(j)), z3.And(0 <= z3.Select(slot, j), z3.Select(slot, j) < npos.n, z3.Select(npos.arrs[0], z3.Select(slot, j)) == val(j)))),
                z3.ForAll([j, j2], z3.Implies(z3.And(0 <= j, j < j2, j2 < i, pos(j), pos(j2)), z3.Select(slot, j) < z3.Select(slot, j2))),
                # every slot is filled by some positional parameter (ghost witness pidx)
                z3.ForAll([mm], z3.Implies(z3.And(0 <= mm, mm < npos.n), z3.And(0 <= z3.Select(pidx, mm), z3.Select(pidx, mm) < i, pos(z3.Select(pidx, mm)), z3.Select(slot, z3.Select(pidx, mm)) == mm))))),
            ("keywords-are-what-is-not-consumed-yet", z3.ForAll([k], z3.And(
                kwargs.has(k) == z3.And(kw0.has(k), z3.Not(z3.Exists([j], z3.And(0 <= j, j < i, is_consumed(name, kind, j), name(j) == k)))),
                z3.Implies(kwargs.has(k), z3.Select(kwargs.cols[0], k) == z3.Select(kw0.cols[0], k))))),
        ]
        if vp_t is not None:
            cl.append(("var-positional-is-the-*args-value-or-empty", z3.And(
                z3.ForAll([j], z3.Implies(z3.And(0 <= j, j < i, kind(j) == 2, name(j) != SELF), vp_t == z3.Select(kw0.cols[0], name(j)))),
                z3.Implies(z3.Not(z3.Exists([j], z3.And(0 <= j, j < i, kind(j) == 2, name(j) != SELF))), vp_t == EMPTY_LIST))))
        else:
            cl.append(("var-positional-shape", z3.BoolVal(False)))
        return cl

    return inv


@unit(SES + "_exec_method_and_respond", ("C17", "C18"), [SES + "_exec_method_and_respond", "helpers.return_or_exception"])
def u_exec_method(ip: Interp, th: ControlTheory):
    record_roe(ip)
    st = th.initial()
    setup = u_exec_method_setup(th, st)
    m, params, kw0, name, kind = setup
    state = {"setup": setup}
    ip.loopspecs[(SES + "_exec_method_and_respond", 1)] = LoopSpec(exec_method_inv(state), ("C17",), name="bind-parameters")
    st.loc["$slot"] = SeqV(z3.IntVal(0), [fresh("slot", z3.ArraySort(I, I))], sym.IntL())
    st.loc["$pidx"] = SeqV(z3.IntVal(0), [fresh("pidx", z3.ArraySort(I, I))], sym.IntL())
    st.loc["$j"] = IntV(-1)

    from pyvc.front import current_name

    vp_name, vp_exact = current_name(ip.repo.get(SES + "_exec_method_and_respond"), "var_pos")

    def empty_list(s, fr, hint):
        if hint == vp_name:
            if not vp_exact:
                s.aux["nonfragment"] = f"heuristic alias var_pos->{vp_name}"
            return [(s, RefV(EMPTY_LIST))]
        return [(s, SeqV(0, [fresh("lst", z3.ArraySort(I, Ref))], RefL(), mutable=True))]

    th.empty_list = empty_list

    def on_iter(s, fr, lname, i):
        s.loc["$j"] = IntV(i)

    th.on_loop_iteration = on_iter

    def on_append(s, fr, place, lst: SeqV, item):
        if "$slot" in s.loc and "$j" in s.loc:
            sl = s.loc["$slot"]
            s.loc["$slot"] = SeqV(sl.n, [z3.Store(sl.arrs[0], s.loc["$j"].t, lst.n)], sl.layout)
            px = s.loc["$pidx"]
            s.loc["$pidx"] = SeqV(px.n, [z3.Store(px.arrs[0], lst.n, s.loc["$j"].t)], px.layout)

    th.hooks["on_append"] = on_append
    buf0 = st.sh["_response_buffer"].content
    for s, v in run_async(ip, st, SES + "_exec_method_and_respond", SelfV("ControlSession"), {"method": m, "kwargs": kw0}):
        if isinstance(v, Exit):
            ip.require(s, f"raises:only-a-delivered-cancellation-escapes:{v.val.cls}", z3.BoolVal(v.val.cls == "CancelledError"), ("C17", "C18"))
            continue
        cs = calls(s)
        ok = len(cs) == 1 and len(cs[0][2]) == 2 and all(isinstance(x, StarV) and x.stars == 1 for x in cs[0][2]) and not cs[0][3] and len(cs[0][4]) == 1
        if not ok:
            ip.require(s, "post:one-call-method(*positional, *var_positional, **keywords)", z3.BoolVal(False), ("C17",))
            continue
        npos, vp, kws = ip.deref(s, cs[0][2][0].v), ip.deref(s, cs[0][2][1].v), ip.deref(s, cs[0][4][0].v)
        ip.require(s, "post:the-method-of-the-command-is-called", cs[0][1] == m.t, ("C17",))
        # the loop invariant at i == n is the binding statement; re-assert it on the actual call arguments
        if isinstance(npos, SeqV) and isinstance(kws, DictV) and isinstance(vp, RefV):
            s2 = s.fork()
            s2.loc = dict(s.loc)
            s2.loc.update({"normal_pos": npos, "var_pos": vp, "kwargs": kws})
            from pyvc.theory import LoopCtx

            for label, f in exec_method_inv(state)(LoopCtx(st, s2, params.n, None, None)):
                ip.require(s, f"post:call-binds-every-parameter-to-its-parsed-value:{label}", f, ("C17",))
        else:
            ip.require(s, "post:call-argument-shapes", z3.BoolVal(False), ("C17",))
        check_reply(ip, s, buf0, "reply")


# ======================================================================================================
# ControlSession._parse_command / listen      (C18)
# ======================================================================================================
def install_session_hooks(ip: Interp, th: ControlTheory, with_exec_contracts=True):
    """assumed contracts: parser.parse_args, reader.readline, writer.write/drain, server.is_serving"""

    def parse_args(st, fr, recv, pos, kws, node):
        buf: BufV = st.sh["_response_buffer"]
        st.trace.append(("parse_args", pos[0].t if isinstance(pos[0], TokensV) else None, getattr(pos[0], "sep", None)))
        out = []
        # (1) a namespace: `command` plus the dests of the chosen sub-parser; argparse wrote nothing
        s1 = st.fork()
        s1.tags.append("parse:namespace")
        d = DictV.symbolic("ns", S, RefL())
        for f in d.qfacts():
            s1.assume(f)
        s1.assume(d.has(sym.str_lit("command")))
        out.append((s1, NamespaceV(d)))
        # (2..4) the parser's own exits; whatever argparse printed went through _print_message into this session's buffer
        for cls_ in ("ArgumentError", "ParserError", "HelpRequested"):
            s2 = st.fork()
            s2.tags.append("parse:" + cls_)
            msg = fresh("parser_output", S)
            s2.sh["_response_buffer"] = BufV(bufcat(buf.content, msg), False)
            s2.aux["parser_output"] = msg
            e = ExcV(cls_, [], ref=fresh("exc", Ref))
            e.origin = "parser"
            out.append((s2, Exit(Exit.RAISE, e)))
        return out

    th.hooks["ref.parse_args"] = parse_args

    def readline(st, fr, recv, pos, kws, node):
        return [(st, CoroV("builtin", "readline", {}))]

    th.hooks["ref.readline"] = readline

    def await_readline(st, fr, v, node):
        ln = fresh("line", S)
        st.trace.append(("readline", ln))
        return [(st, LineV(ln))]

    th.hooks["await:readline"] = await_readline

    def is_serving(st, fr, recv, pos, kws, node):
        return [(st, BoolV(fresh("serving", B)))]

    th.hooks["ref.is_serving"] = is_serving

    def w_write(st, fr, recv, pos, kws, node):
        v = pos[0]
        st.trace.append(("stream_write", v.t if isinstance(v, EncodedV) else None))
        return [(st, NoneV())]

    th.hooks["ref.write"] = w_write

    def w_drain(st, fr, recv, pos, kws, node):
        return [(st, CoroV("builtin", "drain", {}))]

    th.hooks["ref.drain"] = w_drain
    th.hooks["await:drain"] = lambda st, fr, v, node: [(st, NoneV())]
    if with_exec_contracts:
        def c_exec(kind):
            def c(ip_, st, fr, selfv, args):
                """contract of _exec_*_and_respond (units above): appends exactly one reply to this session's buffer, or
                lets a delivered cancellation escape"""
                st.trace.append(("exec", kind))
                buf: BufV = st.sh["_response_buffer"]
                ok = st.fork()
                ok.tags.append("exec:replied")
                r = fresh("reply", S)
                ok.sh["_response_buffer"] = BufV(bufcat(buf.content, r), False)
                ok.trace.append(("buf_write", r))
                can = st.fork()
                can.tags.append("exec:cancelled")
                e = ExcV("CancelledError", [])
                e.origin = "delivered"
                return [(ok, NoneV()), (can, Exit(Exit.RAISE, e))]

            return c

        ip.contracts[SES + "_exec_method_and_respond"] = c_exec("method")
        ip.contracts[SES + "_exec_property_and_respond"] = c_exec("property")


@unit(SES + "_parse_command", ("C18", "C17", "C16"), [SES + "_parse_command"])
def u_parse_command(ip: Interp, th: ControlTheory):
    install_session_hooks(ip, th)
    st = th.initial()
    st.assume(st.sh["_parser"].t != NONE)
    msg = StrV(fresh("a_msg", S))
    buf0 = st.sh["_response_buffer"].content
    for s, v in run_async(ip, st, SES + "_parse_command", SelfV("ControlSession"), {"msg": msg}):
        execs = [e for e in s.trace if e[0] == "exec"]
        w = writes(s)
        if isinstance(v, Exit):
            ip.require(s, f"noraise:nothing-but-a-delivered-cancellation-escapes:{v.val.cls}", z3.BoolVal(v.val.cls == "CancelledError" and getattr(v.val, "origin", "") == "delivered"), ("C18",))
            continue
        parsed_ok = "parse:namespace" in s.tags
        if not parsed_ok:
            ip.require(s, "rejected-input:no-pool-method-or-property-is-executed", z3.BoolVal(not execs and not calls(s)), ("C18",))
            ip.require(s, "rejected-input:only-this-session's-buffer-is-written", z3.BoolVal(all(e[0] != "stream_write" for e in s.trace)), ("C18",))
        else:
            ip.require(s, "accepted-input:at-most-one-command-executed", z3.BoolVal(len(execs) <= 1), ("C18", "C17"))
            ip.require(s, "accepted-input:exactly-one-reply-written", z3.BoolVal(len(w) == 1), ("C18",))
        pa = [e for e in s.trace if e[0] == "parse_args"]
        ip.require(s, "parses-the-message-exactly-once", z3.BoolVal(len(pa) == 1), ("C18",))
        # the arguments of a command are the pieces between single blanks: any other character - tabs, no-break spaces, an
        # empty piece between two blanks - belongs to an argument value and must reach the method unchanged (C17)
        ip.require(s, "tokens-are-the-pieces-of-this-very-line-between-single-blanks", z3.And(z3.BoolVal(len(pa) == 1 and pa[0][2] == " "), pa[0][1] == msg.t) if len(pa) == 1 and pa[0][1] is not None else z3.BoolVal(False), ("C17", "C18"))
    # parser not initialised: documented error
    st = th.initial()
    st.sh["_parser"] = RefV(NONE)
    for s, v in run_async(ip, st, SES + "_parse_command", SelfV("ControlSession"), {"msg": msg}):
        ip.require(s, "uninitialised-parser:raises-ParserNotInitialized", z3.BoolVal(isinstance(v, Exit) and v.val.cls == "ParserNotInitialized"), ("C18",))


def c_parse_command(ip_: Interp, st: St, fr, selfv, args):
    """contract of _parse_command (unit above): writes only to this session's buffer; only a delivered cancellation escapes"""
    st.trace.append(("parse_command",))
    buf: BufV = st.sh["_response_buffer"]
    ok = st.fork()
    ok.tags.append("cmd:done")
    r = fresh("output", S)
    ok.sh["_response_buffer"] = BufV(bufcat(buf.content, r), False)
    ok.aux["cmd_output"] = r
    can = st.fork()
    can.tags.append("cmd:cancelled")
    e = ExcV("CancelledError", [])
    e.origin = "delivered"
    return [(ok, NoneV()), (can, Exit(Exit.RAISE, e))]


def inv_listen(c):
    buf: BufV = c.st.sh["_response_buffer"]
    return [("buffer-empty-at-loop-head", buf.content == EMPTY),
            ("one-reply-per-non-blank-line", c.st.loc["$replies"].t == c.st.loc["$lines"].t)]


@unit(SES + "listen", ("C18", "C16"), [SES + "listen"])
def u_listen(ip: Interp, th: ControlTheory):
    install_session_hooks(ip, th, with_exec_contracts=False)
    ip.contracts[SES + "_parse_command"] = c_parse_command
    ip.loopspecs[(SES + "listen", 1)] = LoopSpec(inv_listen, ("C18",), name="serve")
    st = th.initial()
    st.sh["_response_buffer"] = BufV(EMPTY)  # the handshake leaves the buffer empty (it writes to the stream directly)
    st.loc["$replies"] = IntV(0)
    st.loc["$lines"] = IntV(0)
    orig_write = th.hooks["ref.write"]

    def w_write(s, fr, recv, pos, kws, node):
        v = pos[0]
        out = s.aux.get("cmd_output")
        # the reply is exactly what this iteration's command wrote, plus the newline
        ok = isinstance(v, EncodedV) and out is not None
        ip.require(s, "reply:contains-exactly-the-output-of-its-own-command", v.t == sym.str_concat([StrV(bufcat(EMPTY, out)), "\n"]).t if ok else z3.BoolVal(False), ("C18",))
        s.loc["$replies"] = IntV(s.loc["$replies"].t + 1)
        s.aux["cmd_output"] = None
        return orig_write(s, fr, recv, pos, kws, node)

    th.hooks["ref.write"] = w_write
    orig_await_readline = th.hooks["await:readline"]

    def await_readline(s, fr, v, node):
        res = orig_await_readline(s, fr, v, node)
        return res

    th.hooks["await:readline"] = await_readline

    def before_parse(ip_, s, fr, selfv, args):
        s.loc["$lines"] = IntV(s.loc["$lines"].t + 1)
        return c_parse_command(ip_, s, fr, selfv, args)

    ip.contracts[SES + "_parse_command"] = before_parse
    for s, v in run_async(ip, st, SES + "listen", SelfV("ControlSession"), {}):
        if isinstance(v, Exit):
            ip.require(s, f"noraise:nothing-but-a-delivered-cancellation-escapes:{v.val.cls}", z3.BoolVal(v.val.cls == "CancelledError"), ("C18",))
            continue
        ip.require(s, "post:every-non-blank-line-got-exactly-one-reply", s.loc["$replies"].t == s.loc["$lines"].t, ("C18",))


# ======================================================================================================
# ControlParser overrides: nothing is printed on stdout/stderr, the process never exits      (C18)
# ======================================================================================================
@unit(PAR + "_print_message+exit+error+print_help", ("C18",), [PAR + "_print_message", PAR + "exit", PAR + "error", PAR + "print_help"])
def u_parser_overrides(ip: Interp, th: ControlTheory):
    import ast as _ast

    P = ("C18",)

    def super_hook(st, fr, pos, kws, node):
        return [(st, SuperV())]

    th.hooks["super"] = super_hook

    class SuperV(V):
        pass

    orig_value_attr = th.value_attr

    def value_attr(st, fr, v, attr):
        if isinstance(v, SuperV):
            return [(st, BuiltinV("super." + attr, recv=None))]
        return orig_value_attr(st, fr, v, attr)

    th.value_attr = value_attr
    # argparse's own error()/print_help(): print through _print_message and leave through self.exit(); with the
    # overrides below neither prints elsewhere nor exits, so they return normally
    for nm in ("super.error", "super.print_help"):
        th.hooks[nm] = (lambda nm_: (lambda st, fr, pos, kws, node: (st.trace.append((nm_,)), [(st, NoneV())])[1]))(nm)
    base = th.initial()
    base.sh = {"_stream": BufV(fresh("stream0", S))}
    # _print_message
    for empty in (True, False):
        st = base.fork()
        msg = StrV(fresh("a_message", S))
        st.assume(sym.str_nonempty(msg.t) == z3.BoolVal(not empty))
        s0 = st.sh["_stream"].content
        for s, v in ip.exec_function(st, ip.repo.get(PAR + "_print_message"), SelfV("ControlParser"), {"message": msg, "_args": TupleV([]), "_kwargs": KwV({})}):
            w = writes(s)
            ip.require(s, f"_print_message[{'empty' if empty else 'text'}]:writes-the-message-to-the-session-stream-only",
                       z3.And(z3.BoolVal(len(w) == (0 if empty else 1)), s.sh["_stream"].content == (s0 if empty else bufcat(s0, msg.t))), P)
    # exit: never leaves the process; a message goes to the stream
    st = base.fork()
    msg = sym.OptV(fresh("a_msg_none", B), StrV(fresh("a_message", S)))
    for s, v in ip.exec_function(st, ip.repo.get(PAR + "exit"), SelfV("ControlParser"), {"status": IntV(fresh("a_status", I)), "message": msg}):
        ip.require(s, "exit:returns-normally(never-exits-the-process)", z3.BoolVal(not isinstance(v, Exit)), P)
    # error / print_help: never return normally, raise the documented exception
    for nm, exc in (("error", "ParserError"), ("print_help", "HelpRequested")):
        st = base.fork()
        args = {"message": StrV(fresh("a_message", S))} if nm == "error" else {"file": NoneV()}
        for s, v in ip.exec_function(st, ip.repo.get(PAR + nm), SelfV("ControlParser"), args):
            ip.require(s, f"{nm}:always-raises-{exc}", z3.BoolVal(isinstance(v, Exit) and v.val.cls == exc), P)
            ip.require(s, f"{nm}:delegates-to-argparse-exactly-once", z3.BoolVal(len([e for e in s.trace if e[0] == "super." + nm]) == 1), P)
    # mechanical: no function of parser.py / session.py references sys.exit, print, sys.stdout or sys.stderr
    bad = []
    for q, fi in ip.repo.functions.items():
        if fi.module in ("parser", "session"):
            for n in _ast.walk(fi.node):
                if isinstance(n, _ast.Name) and n.id in ("print", "exit", "quit"):
                    bad.append(f"{q}:{n.id}")
                if isinstance(n, _ast.Attribute) and isinstance(n.value, _ast.Name) and n.value.id == "sys":
                    bad.append(f"{q}:sys.{n.attr}")
    ip.require(base, "callgraph:no-print/sys.exit/sys.stdout/sys.stderr-in-parser.py-and-session.py", z3.BoolVal(not bad), P, meta={"found": bad})
    # (that add_class_commands hands the session stream / width to every sub-parser is an obligation of the add_class_commands
    # unit: `add_*_command:called-for-the-member-itself-with-the-session-stream-and-width`; a former check of the source
    # spelling here was brittle and has been removed)


# ======================================================================================================
# _get_arg_type_wrapper(cls).wrapper : conversion failures reach argparse as ArgumentTypeError/TypeError/ValueError (C18)
# ======================================================================================================
@unit("parser._get_arg_type_wrapper", ("C18", "C16"), ["parser._get_arg_type_wrapper"])
def u_arg_type_wrapper(ip: Interp, th: ControlTheory):
    P = ("C18",)
    st = th.initial()
    cls_ = RefV(fresh("a_cls", Ref))
    st.assume(cls_.t != NONE)
    fi = ip.repo.get("parser._get_arg_type_wrapper")
    th.setattr = lambda st_, fr, obj, attr, v: [(st_, NORMAL)] if isinstance(obj, FuncV) and attr == "__name__" else (_ for _ in ()).throw(Unsupported("setattr"))
    th.hooks["on_call"] = lambda s, fr, ev: None
    res = ip.exec_function(st, fi, None, {"cls": cls_})
    ip.require(st, "_get_arg_type_wrapper:returns-the-inner-wrapper", z3.BoolVal(len(res) == 1 and isinstance(res[0][1], FuncV) and res[0][1].name == "wrapper"), ("C16",))
    if len(res) != 1 or not isinstance(res[0][1], FuncV):
        return
    s0, wrapper = res[0]
    SUPPRESS = z3.Const("SUPPRESS", Ref)
    ip.consts["SUPPRESS"] = RefV(SUPPRESS)
    # the converter may raise any exception class: enumerate the classes the wrapper distinguishes
    for raised in ("ArgumentTypeError", "TypeError", "ValueError", "UserExc", None):
        def call_ref(st_, fr, f, pos, kws, rest_kw, node, raised=raised):
            st_.trace.append(("call", f.t, list(pos), dict(kws), list(rest_kw)))
            if raised is None:
                return [(st_, RefV(fresh("converted", Ref)))]
            e = ExcV(raised, [], ref=fresh("exc", Ref))
            e.origin = "user"
            return [(st_, Exit(Exit.RAISE, e))]

        th.call_ref = call_ref
        arg = RefV(fresh("a_arg", Ref))
        s1 = s0.fork()
        fr = Frame(fi, fi.module, None, 0, qual="parser._get_arg_type_wrapper")
        for s, v in ip.run_closure(s1, fr, wrapper, {"arg": arg}):
            if isinstance(v, Exit):
                ip.require(s, f"wrapper[{raised}]:only-ArgumentTypeError/TypeError/ValueError-escape", z3.BoolVal(v.val.cls in ("ArgumentTypeError", "TypeError", "ValueError")), P)
            else:
                cs = calls(s)
                ip.require(s, f"wrapper[{raised}]:SUPPRESS-passes-unconverted-else-cls(arg)", z3.Or(z3.And(arg.t == SUPPRESS, v.t == arg.t, z3.BoolVal(not cs)),
                                                                                                  z3.And(arg.t != SUPPRESS, z3.BoolVal(len(cs) == 1))) if isinstance(v, RefV) else z3.BoolVal(False), ("C17",))


# ======================================================================================================
# ControlParser.add_class_commands: exactly the public methods and properties become commands - for ANY class,
# i.e. also for subclasses that add members    (C16, symbolic part)
# ======================================================================================================
class MemberL(sym.Layout):
    def sorts(self):
        return [S, Ref]

    def pack(self, v):
        return [v.items[0].t, v.items[1].t]

    def unpack(self, ts):
        return TupleV([StrV(ts[0]), RefV(ts[1])])


def inv_add_class_commands(state):
    def inv(c):
        members: SeqV = state["members"]
        parsers: DictV = c.loc("parsers")
        j = z3.Int("j!l")
        k = z3.Const("k!l", S)
        name = lambda jj: z3.Select(members.arrs[0], jj)
        return [("parsers-has-exactly-the-exposed-members-seen-so-far", z3.ForAll([k], parsers.has(k) == z3.Exists([j], z3.And(0 <= j, j < c.i, name(j) == k, state["exposed"](j)))))]

    return inv


@unit(PAR + "add_class_commands", ("C16",), [PAR + "add_class_commands"])
def u_add_class_commands(ip: Interp, th: ControlTheory):
    from pyvc.theory import IterV, Iter

    P = ("C16",)
    st = th.initial()
    st.sh = {"_stream": BufV(fresh("stream0", S)), "_terminal_width": IntV(fresh("tw", I))}
    cls_ = RefV(fresh("a_cls", Ref))
    members = SeqV(fresh("nmembers", I), [fresh("mname", z3.ArraySort(I, S)), fresh("mobj", z3.ArraySort(I, Ref))], MemberL())
    st.assume(members.n >= 0)
    name = lambda jj: z3.Select(members.arrs[0], jj)
    obj = lambda jj: z3.Select(members.arrs[1], jj)
    starts_us = z3.Function("str_starts_us", S, B)
    isf = lambda jj: z3.And(obj(jj) != NONE, z3.Select(arr("is_function"), obj(jj)))
    isp = lambda jj: z3.And(obj(jj) != NONE, z3.Select(arr("is_property"), obj(jj)))
    exposed = lambda jj: z3.And(z3.Not(starts_us(name(jj))), z3.Or(isf(jj), isp(jj)))
    state = {"members": members, "exposed": exposed}
    # precondition surface_ok(cls) (see control_units2): every exposed member satisfies the precondition cmd_ok of
    # add_function_command / add_property_command (its parameters become flags or have convertible annotations)
    cmd_ok = z3.Function("cmd_ok", Ref, B)
    jq = z3.Int("j!pre")
    st.assume(z3.ForAll([jq], z3.Implies(z3.And(0 <= jq, jq < members.n, exposed(jq)), cmd_ok(obj(jq)))))
    ip.loopspecs[(PAR + "add_class_commands", 1)] = LoopSpec(inv_add_class_commands(state), P, name="each-member")
    th.hooks["getmembers"] = lambda s, fr, pos, kws, node: [(s, IterV(Iter(members.n, members.at, [members.n >= 0], "getmembers")))] if (isinstance(pos[0], RefV)) else None
    th.hooks["CommandParserSpecialKwargs"] = lambda s, fr, pos, kws, node: [(s, KwV(dict(kws)))]
    from pyvc.front import current_name

    parsers_name, _exact = current_name(ip.repo.get(PAR + "add_class_commands"), "parsers")
    th.empty_dict = lambda s, fr, hint: [(s, DictV.empty(S, RefL()))] if hint == parsers_name else [(s, KwV({}))]
    cur = {}

    def on_iter(s, fr, lname, i):
        s.loc["$j"] = IntV(i)

    th.on_loop_iteration = on_iter
    st.loc["$j"] = IntV(-1)

    def c_add(kind):
        def c(ip_, s, fr, selfv, args):
            """contract of add_function_command / add_property_command: creates one sub-parser that writes to the given
            stream (their converter precondition, known finding F6, is checked by the exhaustive enumeration)"""
            jj = s.loc["$j"].t
            member = args["function" if kind == "function" else "prop"]
            kw = args.get("subparser_kwargs")
            ok = isinstance(kw, KwV) and isinstance(kw.d.get("stream"), (BufV, PlaceV)) and isinstance(kw.d.get("terminal_width"), IntV)
            ip_.require(s, f"add_{kind}_command:called-for-the-member-itself-with-the-session-stream-and-width",
                        z3.And(member.t == obj(jj), isf(jj) if kind == "function" else z3.And(isp(jj), z3.Not(isf(jj))), z3.BoolVal(ok),
                               kw.d["terminal_width"].t == s.sh["_terminal_width"].t if ok else z3.BoolVal(False)), P + ("C18",))
            ip_.require(s, f"pre:add_{kind}_command:the-member's-parameters-are-flags-or-have-convertible-annotations", cmd_ok(member.t), P + ("C17",))
            sub = RefV(fresh("subparser", Ref))
            s.assume(sub.t != NONE)
            return [(s, sub)]

        return c

    ip.contracts[PAR + "add_function_command"] = c_add("function")
    ip.contracts[PAR + "add_property_command"] = c_add("property")

    def set_defaults(s, fr, recv, pos, kws, node):
        jj = s.loc["$j"].t
        ok = len(kws) == 0
        return [(s, NoneV())]

    th.hooks["ref.set_defaults"] = set_defaults

    def ev_dict_display(s, fr, e):
        # {member_arg_name: member}
        out = []
        for s2, vs in ip.ev_seq(s, fr, list(e.keys) + list(e.values)):
            if isinstance(vs, Exit):
                out.append((s2, vs))
                continue
            kv, vv = vs[0], vs[1]
            jj = s2.loc["$j"].t
            ip.require(s2, "set_defaults:command-default-maps-back-to-this-member", z3.And(kv.t == sym.str_lit("command"), vv.t == obj(jj)) if isinstance(kv, StrV) and isinstance(vv, RefV) else z3.BoolVal(False), P + ("C17",))
            out.append((s2, KwV({"command": vv})))
        return out

    th.ev_dict_display = ev_dict_display
    # called the way client_handshake calls it: only the class is passed, everything else takes the function's REAL defaults
    fi_acc = ip.repo.get(PAR + "add_class_commands")
    args = ip.bind_args(st, fi_acc.node, [cls_], {}, True, Frame(fi_acc, fi_acc.module, SelfV("ControlParser"), 0))
    ip.require(st, "defaults:public_only-defaults-to-True,nothing-omitted,command-key-is-`command`",
               z3.BoolVal(isinstance(args.get("public_only"), BoolV) and z3.is_true(z3.simplify(args["public_only"].t)) and isinstance(args.get("omit_members"), TupleV) and not args["omit_members"].items
                          and isinstance(args.get("member_arg_name"), StrV) and args["member_arg_name"].lit == "command"), P)
    for s, v in ip.exec_function(st, fi_acc, SelfV("ControlParser"), args):
        if isinstance(v, Exit):
            ip.require(s, f"noraise:{v.val.cls}", z3.BoolVal(False), P)
            continue
        j = z3.Int("j!p")
        k = z3.Const("k!p", S)
        ip.require(s, "post:exactly-the-public-methods-and-properties-are-exposed(any-class)",
                   z3.ForAll([k], v.has(k) == z3.Exists([j], z3.And(0 <= j, j < members.n, name(j) == k, exposed(j)))) if isinstance(v, DictV) else z3.BoolVal(False), P)


# (removed: a unit that checked the *spelling* `setdefault("name", <member>.__name__.replace("_", "-"))` in the source.  The same
# fact is proved semantically by the units parser.ControlParser.add_function_command / add_property_command
# (control_units2.py); the syntactic check raised a false alarm on a behaviour-preserving refactoring (harmless seed H11).)
