"""Theory for the control package (session.py, parser.py, helpers.return_or_exception): opaque pool, abstract
StringIO buffer, assumed contracts of argparse / inspect / streams.  (C16-C18)"""
from __future__ import annotations

import ast
from typing import Dict, List

import z3

from pyvc import sym
from pyvc.interp import NORMAL, CollV, ExcV, Exit, Frame, Interp, SelfV, St
from pyvc.sym import (B, I, NONE, S, BoolV, BuiltinV, BytesV, ClassV, CoroV, DictV, FuncV, IntL, IntV, KwV, NoneV, ObjV, OptV, PlaceV, Ref, RefL, RefV, SeqV,
                      SetV, StarV, StrV, TupleV, Unsupported, V, fresh)
from pyvc.theory import ArrV, Iter, IterV, Theory

A_RB = z3.ArraySort(Ref, B)
A_RS = z3.ArraySort(Ref, S)

TRUSTED_CONTROL = [
    "argparse: ArgumentParser.parse_args either returns a Namespace holding the registered dests (converted by the registered `type`) plus the `command` default of the chosen sub-parser, or leaves through ArgumentError / error() / print_help(); it writes only through _print_message and exits only through exit()",
    "inspect.signature(f).parameters lists the parameters of f in order with their names and kinds; Python's call binding rule",
    "io.StringIO: write appends, getvalue returns the content, seek(0)+truncate() empties it; the session's buffer object is private to the session and its parser",
    "asyncio streams: readline() returns bytes (b'' at EOF); write/drain deliver what was written",
    "str(), bytes.decode(), str.strip(), str.split, json.loads are pure",
    "cooperative atomicity; mathematical integers; abstract strings (uninterpreted sort, injective formats)",
]

# Parameter kinds (inspect.Parameter)
POSITIONAL_ONLY, POSITIONAL_OR_KEYWORD, VAR_POSITIONAL, KEYWORD_ONLY, VAR_KEYWORD = 0, 1, 2, 3, 4
KINDS = {"POSITIONAL_ONLY": 0, "POSITIONAL_OR_KEYWORD": 1, "VAR_POSITIONAL": 2, "KEYWORD_ONLY": 3, "VAR_KEYWORD": 4}


def arr(name, srt=A_RB):
    return z3.Const(name, srt)


class BufV(V):
    """StringIO: content (abstract string) and whether the position is at 0"""

    def __init__(self, content, at0=False):
        self.content, self.at0 = content, at0

    def havoc(self, prefix):
        return BufV(fresh(prefix + "_buf", S), False)

    def terms(self):
        return [self.content]


class ParamV(V):
    """inspect.Parameter: name, kind, and (as opaque objects) default and annotation"""

    def __init__(self, name_t, kind_t, default_t=None, annot_t=None, idx=None):
        self.name_t, self.kind_t = name_t, kind_t
        self.default_t = default_t if default_t is not None else z3.Select(arr("param_default", z3.ArraySort(S, Ref)), name_t)
        self.annot_t = annot_t if annot_t is not None else z3.Select(arr("param_annotation", z3.ArraySort(S, Ref)), name_t)
        self.idx = idx


class ParamL(sym.Layout):
    def sorts(self):
        return [S, I]

    def pack(self, v):
        return [v.name_t, v.kind_t]

    def unpack(self, ts):
        return ParamV(ts[0], ts[1])


Interp.MUTABLE_EXTRA = Interp.MUTABLE_EXTRA + (BufV,)
PARAM_EMPTY = z3.Const("Parameter.empty", Ref)
BOOL_T = z3.Const("builtin:bool", Ref)
bufcat = z3.Function("bufcat", S, S, S)
str_of = z3.Function("str_of", Ref, S)  # str(obj)
EMPTY = sym.str_lit("")


class ControlTheory(Theory):
    def __init__(self):
        self.hooks = {}

    def initial(self) -> St:
        st = St()
        st.me = fresh("me", Ref)
        sh = st.sh
        sh["_pool"] = RefV(z3.Const("POOL", Ref))
        sh["_response_buffer"] = BufV(fresh("buf0", S))
        sh["_parser"] = RefV(fresh("parser", Ref))
        sh["_writer"] = RefV(z3.Const("WRITER", Ref))
        sh["_reader"] = RefV(z3.Const("READER", Ref))
        sh["_control_server"] = RefV(z3.Const("SERVER", Ref))
        sh["_client_class_name"] = StrV(fresh("ccn", S))
        st.assume(z3.Const("POOL", Ref) != NONE)
        return st

    @staticmethod
    def is_mutable_extra(v):
        return isinstance(v, BufV)

    # -- attributes ---------------------------------------------------------------------------------------
    def value_attr(self, st, fr, v, attr):
        if isinstance(v, SigV) and attr == "parameters":
            return [(st, v)]
        if isinstance(v, SigV) and attr == "values":
            return [(st, BuiltinV("values", recv=v))]
        if isinstance(v, (TokensV, EncodedV, LineV, NamespaceV)):
            return [(st, BuiltinV(attr, recv=v))]
        if isinstance(v, SuperObjV):
            return [(st, BuiltinV("super." + attr))]
        if isinstance(v, NestedClassV):
            return [(st, BuiltinV(attr, recv=v))]
        if isinstance(v, ParamV):
            if attr == "name":
                return [(st, StrV(v.name_t))]
            if attr == "kind":
                return [(st, IntV(v.kind_t))]
            if attr in KINDS:
                return [(st, IntV(KINDS[attr]))]
            if attr == "default":
                return [(st, RefV(v.default_t))]
            if attr == "annotation":
                return [(st, RefV(v.annot_t))]
        if isinstance(v, ClassV):
            # class-level constant of a repo class (e.g. CLIENT_INFO.TERMINAL_WIDTH), read from the real ClassDef
            ci = self.ip.repo.classes.get(v.name)
            if ci is not None:
                for n in ci.node.body:
                    if isinstance(n, ast.Assign) and len(n.targets) == 1 and isinstance(n.targets[0], ast.Name) and n.targets[0].id == attr:
                        try:
                            return [(st, self.ip.lit(ast.literal_eval(n.value)))]
                        except Exception:
                            break
        if isinstance(v, BuiltinV) and v.recv is None:
            if v.name == "Parameter" and attr == "empty":
                return [(st, RefV(PARAM_EMPTY))]
            if v.name == "Parameter" and attr in KINDS:
                return [(st, IntV(KINDS[attr]))]
            return [(st, BuiltinV(f"{v.name}.{attr}"))]
        if isinstance(v, RefV):
            if attr == "__name__":
                return [(st, StrV(z3.Select(arr("fname", A_RS), v.t)))]
            if attr == "__class__":
                return [(st, RefV(z3.Select(arr("class_of", z3.ArraySort(Ref, Ref)), v.t)))]
            if attr in ("fget", "fset"):
                return [(st, RefV(z3.Select(arr("prop_" + attr, z3.ArraySort(Ref, Ref)), v.t)))]
            if "attr." + attr in self.hooks:
                return self.hooks["attr." + attr](st, fr, v)
            return [(st, BuiltinV(attr, recv=v))]
        if isinstance(v, (StrV, BytesV)):
            return [(st, BuiltinV(attr, recv=v))]
        if isinstance(v, ExcV):
            if attr == "__class__":
                return [(st, ClassV(v.cls))]
            return [(st, BuiltinV(attr, recv=v))]
        if isinstance(v, FuncV) and attr == "__name__":
            return [(st, StrV(v.name))]
        return super().value_attr(st, fr, v, attr)

    def self_attr(self, st, fr, v, attr):
        if "self." + attr in self.hooks:
            # a method inherited from a library base class (argparse.ArgumentParser.add_argument, ...): assumed contract
            return [(st, BuiltinV("self." + attr))]
        raise Unsupported(f"undeclared attribute self.{attr}")

    def to_str(self, st, fr, v):
        if isinstance(v, RefV):
            return [(st, StrV(str_of(v.t)))]
        if isinstance(v, ExcV):
            if v.ref is None:
                v.ref = fresh("exc", Ref)
            return [(st, StrV(str_of(v.ref)))]
        return super().to_str(st, fr, v)

    def equal(self, st, a, b, identity):
        if isinstance(a, RefV) and isinstance(b, ExcV) or isinstance(a, ExcV) and isinstance(b, RefV):
            return z3.BoolVal(False)
        for x, y in ((a, b), (b, a)):
            if isinstance(x, RefV) and isinstance(y, BuiltinV) and y.recv is None:
                if y.name == "bool":
                    return x.t == BOOL_T
                return x.t == z3.Const("builtin:" + y.name, Ref)
            if isinstance(x, (FuncV,)) and isinstance(y, (RefV, BuiltinV)):
                # a function defined in the repository is neither a typing alias nor a builtin
                return z3.BoolVal(False)
            if isinstance(x, StrV) and isinstance(y, (RefV, BuiltinV, FuncV)):
                return z3.BoolVal(False)
        if isinstance(a, BuiltinV) and isinstance(b, BuiltinV) and a.recv is None and b.recv is None:
            return z3.BoolVal(a.name == b.name)
        if isinstance(a, FuncV) and isinstance(b, FuncV):
            return z3.BoolVal(a.finfo is b.finfo and a.node is b.node)
        return super().equal(st, a, b, identity)

    def binop(self, st, op, a, b):
        if isinstance(op, ast.Add) and isinstance(a, EncodedV) and isinstance(b, BytesV):
            # bytes concatenation: s.encode() + b"lit"  ==  (s + "lit").encode()
            return EncodedV(sym.str_concat([StrV(a.t), b.s]).t)
        return super().binop(st, op, a, b)

    def subscript(self, st, fr, c, key):
        if isinstance(c, StrV) and isinstance(key, IntV) and z3.is_int_value(z3.simplify(key.t)) and z3.simplify(key.t).as_long() == 0:
            # s[0] of a (non-empty) identifier; parameter names are never empty
            return [(st, StrV(z3.Function("str_first_char", S, S)(c.t)))]
        if isinstance(c, BuiltinV) and c.recv is None and isinstance(key, RefV):
            # a typing expression over an alias, e.g. Iterable[ArgsT]: one object per (constructor, argument) (typing caches them)
            return [(st, RefV(z3.Function("typing_" + c.name, Ref, Ref)(key.t)))]
        if "subscript" in self.hooks:
            r = self.hooks["subscript"](st, fr, c, key)
            if r is not None:
                return r
        return super().subscript(st, fr, c, key)

    def comprehension(self, st, fr, e):
        """(expr for x in <tuple display>): unrolled; the result is only consumed by any()/all()"""
        ip = self.ip
        gens = e.generators
        if len(gens) != 1 or gens[0].ifs or gens[0].is_async or not isinstance(gens[0].target, ast.Name):
            raise Unsupported("comprehension shape")
        out = []
        for s, src in ip.ev(st, fr, gens[0].iter):
            if isinstance(src, Exit):
                out.append((s, src))
                continue
            src = ip.deref(s, src)
            if not isinstance(src, TupleV):
                raise Unsupported("comprehension over " + type(src).__name__)
            cur = [(s, [])]
            var = gens[0].target.id
            for item in src.items:
                nxt = []
                for s2, acc in cur:
                    if isinstance(acc, Exit):
                        nxt.append((s2, acc))
                        continue
                    had = var in s2.loc
                    old = s2.loc.get(var)
                    s2.loc[var] = item
                    for s3, v in ip.ev(s2, fr, e.elt):
                        if had:
                            s3.loc[var] = old
                        else:
                            s3.loc.pop(var, None)
                        nxt.append((s3, v if isinstance(v, Exit) else acc + [v]))
                cur = nxt
            for s2, acc in cur:
                from pyvc.sym import GenV

                out.append((s2, acc if isinstance(acc, Exit) else GenV(acc)))
        return out

    def ev_dict_display(self, st, fr, e):
        """{<const expr>: v, ...} whose keys evaluate to literal strings -> keyword dict"""
        ip = self.ip
        if any(k is None for k in e.keys):
            raise Unsupported("dict display with ** unpacking")
        out = []
        for s, vs in ip.ev_seq(st, fr, list(e.keys) + list(e.values)):
            if isinstance(vs, Exit):
                out.append((s, vs))
                continue
            ks, vals = vs[: len(e.keys)], vs[len(e.keys):]
            if not all(isinstance(k, StrV) and k.lit is not None for k in ks):
                raise Unsupported("dict display with non-literal keys")
            out.append((s, KwV({k.lit: v for k, v in zip(ks, vals)})))
        return out

    def unpack_assign(self, st, fr, target, v):
        if isinstance(v, SigValuesV):
            # `_, param = signature(f).parameters.values()`: ValueError unless there are exactly len(target) parameters
            seq = v.sig.params()
            n = len(target.elts)
            out = []
            for s, b in self.ip.branch(st, seq.n == n, "unpack"):
                if not b:
                    out.append((s, Exit(Exit.RAISE, ExcV("ValueError", []))))
                    continue
                cur = [(s, NORMAL)]
                for j, t in enumerate(target.elts):
                    nxt = []
                    for s2, ex in cur:
                        pv = seq.at(z3.IntVal(j))
                        pv.idx = z3.IntVal(j)
                        nxt.extend(self.ip.assign(s2, fr, t, pv))
                    cur = nxt
                out.extend(cur)
            return out
        return super().unpack_assign(st, fr, target, v)

    # -- builtins -------------------------------------------------------------------------------------------
    def call_builtin(self, st, fr, f: BuiltinV, pos, kws, rest_kw, node):
        ip = self.ip
        name = f.name
        if f.recv is not None:
            return self.call_method(st, fr, f.recv, name, pos, kws, rest_kw, node)
        pos_d = [ip.deref(st, x) if not isinstance(x, StarV) else x for x in pos]
        if name == "str":
            return ip.to_str(st, fr, pos[0])
        if name == "super" and not pos and "super" not in self.hooks:
            return [(st, SuperObjV())]
        if name == "set" and not pos:
            return [(st, SetV.empty(sym.StrL()))]
        if name == "cast":
            return [(st, pos[1])]
        if name in ("iscoroutinefunction", "isfunction", "callable", "isawaitable", "iscoroutine"):
            v = pos_d[0]
            a = arr({"iscoroutinefunction": "is_corofunc", "isfunction": "is_function", "callable": "is_callable", "isawaitable": "is_awaitable", "iscoroutine": "is_awaitable"}[name])
            if isinstance(v, RefV):
                return [(st, BoolV(z3.And(v.t != NONE, z3.Select(a, v.t))))]
            raise Unsupported(name + " of " + type(v).__name__)
        if name == "isinstance":
            v, c = pos_d
            if isinstance(v, RefV) and isinstance(c, BuiltinV) and c.name == "property":
                return [(st, BoolV(z3.And(v.t != NONE, z3.Select(arr("is_property"), v.t))))]
            raise Unsupported("isinstance form")
        if name == "signature":
            v = pos_d[0]
            if not isinstance(v, RefV):
                raise Unsupported("signature() of " + type(v).__name__)
            return [(st, SigV(v.t))]
        if name == "vars":
            v = pos_d[0]
            if isinstance(v, NamespaceV):
                return [(st, v.d)]
            raise Unsupported("vars() of " + type(v).__name__)
        if name in ("any", "all"):
            from pyvc.sym import GenV, truthy

            v = pos_d[0]
            if isinstance(v, (GenV, TupleV)):
                parts = [truthy(ip.deref(st, x)) for x in (v.parts if isinstance(v, GenV) else v.items)]
                if name == "any":
                    return [(st, BoolV(z3.Or(parts) if parts else z3.BoolVal(False)))]
                return [(st, BoolV(z3.And(parts) if parts else z3.BoolVal(True)))]
            raise Unsupported(name + "() of " + type(v).__name__)
        if name == "repr":
            v = pos_d[0]
            if isinstance(v, RefV):
                return [(st, StrV(z3.Function("repr_of", Ref, S)(v.t)))]
            return [(st, StrV(fresh("repr", S)))]
        if name == "len":
            v = pos_d[0]
            if isinstance(v, TupleV):
                return [(st, IntV(len(v.items)))]
            if isinstance(v, SeqV):
                return [(st, IntV(v.n))]
            if isinstance(v, (StrV, EncodedV)):
                n = fresh("strlen", I)
                st.assume(n >= 0)
                return [(st, IntV(n))]
            if isinstance(v, (DictV, SetV)):
                return [(st, IntV(v.card))]
            if isinstance(v, KwV):
                return [(st, IntV(len(v.d)))]
        if name in self.hooks:
            return self.hooks[name](st, fr, pos, kws, node)
        raise Unsupported(f"builtin {name}()")

    def call_method(self, st, fr, recv, name, pos, kws, rest_kw, node):
        ip = self.ip
        val = ip.deref(st, recv)
        place = recv if isinstance(recv, PlaceV) else None
        if isinstance(val, BufV):
            if name == "write":
                sv = ip.deref(st, pos[0])
                if not isinstance(sv, StrV):
                    raise Unsupported("buffer.write(non-str)")
                st.trace.append(("buf_write", sv.t))
                ip.place_set(st, place, BufV(bufcat(val.content, sv.t), False))
                return [(st, IntV(fresh("nwritten", I)))]
            if name == "getvalue":
                return [(st, StrV(val.content))]
            if name == "seek":
                ok = isinstance(pos[0], IntV) and z3.is_int_value(z3.simplify(pos[0].t)) and z3.simplify(pos[0].t).as_long() == 0
                if not ok:
                    raise Unsupported("buffer.seek(non-zero)")
                ip.place_set(st, place, BufV(val.content, True))
                return [(st, IntV(0))]
            if name == "truncate":
                if pos:
                    raise Unsupported("truncate(size)")
                ip.place_set(st, place, BufV(EMPTY if val.at0 else val.content, val.at0))
                return [(st, IntV(0))]
        if isinstance(val, KwV):
            return self.kw_method(st, fr, place, val, name, pos, kws, node)
        if isinstance(val, SetV) and name == "add":
            item = ip.deref(st, pos[0])
            ip.place_set(st, place, val.add(val.layout.pack(item)[0]))
            return [(st, NoneV())]
        if isinstance(val, DictV):
            return self.dict_method(st, fr, place, val, name, pos, kws, node)
        if isinstance(val, SeqV) and name == "append":
            item = ip.deref(st, pos[0])
            if "on_append" in self.hooks:
                self.hooks["on_append"](st, fr, place, val, item)
            ip.place_set(st, place, val.append(item))
            return [(st, NoneV())]
        if isinstance(val, SigV) and name == "values":
            return [(st, SigValuesV(val))]
        if isinstance(val, StrV):
            if name == "strip":
                r = StrV(z3.Function("str_strip", S, S)(val.t))
                return [(st, r)]
            if name == "split":
                sep = ip.deref(st, pos[0]) if pos else None
                tv = TokensV(val.t)
                tv.sep = sep.lit if isinstance(sep, StrV) else ("<whitespace>" if sep is None else "?")
                return [(st, tv)]
            if name == "encode":
                return [(st, EncodedV(val.t))]
            if name == "replace":
                a_, b_ = (ip.deref(st, x) for x in pos[:2]) if len(pos) >= 2 else (None, None)
                if len(pos) == 2 and isinstance(a_, StrV) and isinstance(b_, StrV) and a_.lit == "_" and b_.lit == "-":
                    return [(st, StrV(z3.Function("str_replace_us_dash", S, S)(val.t)))]
                # any other replacement is a different function of the string (the specs only know `_` -> `-`)
                tag = "_".join(repr(getattr(x, "lit", None)) for x in (a_, b_))
                return [(st, StrV(z3.Function("str_replace[" + tag + f"/{len(pos)}]", S, S)(val.t)))]
            if name == "lower":
                return [(st, StrV(z3.Function("str_lower", S, S)(val.t)))]
            if name == "upper":
                return [(st, StrV(z3.Function("str_upper", S, S)(val.t)))]
            if name == "startswith":
                a_ = ip.deref(st, pos[0]) if pos else None
                if len(pos) == 1 and isinstance(a_, StrV) and a_.lit == "_":
                    return [(st, BoolV(z3.Function("str_starts_us", S, B)(val.t)))]
                return [(st, BoolV(z3.Function("str_startswith[" + repr(getattr(a_, "lit", None)) + "]", S, B)(val.t)))]
        if isinstance(val, BytesV) and name == "decode":
            return [(st, StrV(val.s))]
        if isinstance(val, EncodedV) and name == "decode":
            return [(st, StrV(val.t))]
        if isinstance(val, LineV):
            if name == "decode":
                return [(st, StrV(val.t))]
        if isinstance(val, RefV):
            key = f"ref.{name}"
            if key in self.hooks:
                return self.hooks[key](st, fr, val, pos, kws, node)
        raise Unsupported(f"method .{name}() on {type(val).__name__}")

    def kw_method(self, st, fr, place, kw: KwV, name, pos, kws, node):
        """methods of a keyword dictionary with literal keys (a `**kwargs` parameter held in a local)"""
        ip = self.ip
        key = ip.deref(st, pos[0]) if pos else None
        if not (isinstance(key, StrV) and key.lit is not None):
            raise Unsupported(f"kwargs.{name}(<non-literal key>)")
        k = key.lit
        if name == "get":
            return [(st, kw.d[k] if k in kw.d else (pos[1] if len(pos) > 1 else NoneV()))]
        if name == "setdefault":
            if k in kw.d:
                return [(st, kw.d[k])]
            if place is None:
                raise Unsupported("kwargs.setdefault on a detached dictionary")
            v = ip.deref_for_store(st, pos[1]) if len(pos) > 1 else NoneV()
            d2 = dict(kw.d)
            d2[k] = v
            ip.place_set(st, place, KwV(d2))
            return [(st, v)]
        if name == "pop":
            if k in kw.d:
                if place is None:
                    raise Unsupported("kwargs.pop on a detached dictionary")
                d2 = dict(kw.d)
                v = d2.pop(k)
                ip.place_set(st, place, KwV(d2))
                return [(st, v)]
            if len(pos) > 1:
                return [(st, pos[1])]
            return [(st, Exit(Exit.RAISE, ExcV("KeyError", [key])))]
        raise Unsupported(f"kwargs.{name}()")

    def dict_method(self, st, fr, place, d: DictV, name, pos, kws, node):
        ip = self.ip
        if name == "pop":
            k = ip.key_term(d, pos[0])
            out = []
            for s, b in ip.branch(st, d.has(k), "pop"):
                if b:
                    val = d.get(k)
                    if "on_pop" in self.hooks:
                        self.hooks["on_pop"](s, fr, k, val)
                    ip.place_set(s, place, ip.place_get(s, place).remove(k))
                    out.append((s, val))
                elif len(pos) > 1:
                    out.append((s, pos[1]))
                else:
                    out.append((s, Exit(Exit.RAISE, ExcV("KeyError", [pos[0]]))))
            return out
        raise Unsupported(f"dict.{name}()")

    def setitem(self, st, fr, cont, key, v):
        c = self.ip.deref(st, cont)
        if isinstance(c, KwV) and isinstance(cont, PlaceV) and isinstance(key, StrV) and key.lit is not None:
            d2 = dict(c.d)
            d2[key.lit] = self.ip.deref_for_store(st, v)
            self.ip.place_set(st, cont, KwV(d2))
            return [(st, NORMAL)]
        return super().setitem(st, fr, cont, key, v)

    def classdef(self, st, fr, n):
        """a class defined inside a function (help_formatter_factory): bases are evaluated, the body is kept as AST"""
        bases = []
        for b in n.bases:
            res = self.ip.ev(st, fr, b)
            if len(res) != 1 or isinstance(res[0][1], Exit):
                raise Unsupported("class base expression")
            bases.append(self.ip.deref(st, res[0][1]))
        st.loc[n.name] = NestedClassV(n.name, bases, n, st.loc)
        return [(st, NORMAL)]

    def construct(self, st, fr, c, pos, kws, node):
        if c.name in self.hooks:
            return self.hooks[c.name](st, fr, pos, kws, node)
        return super().construct(st, fr, c, pos, kws, node)

    def getattr_place(self, st, v, attr):
        return None

    def value_attr_sig(self, st, v, attr):
        return None

    # -- loops over signature parameters ------------------------------------------------------------------
    def iter_of(self, st, fr, v, node):
        v = self.ip.deref(st, v)
        if isinstance(v, SigValuesV):
            seq = v.sig.params()
            return Iter(seq.n, seq.at, [seq.n >= 0], "params")
        return super().iter_of(st, fr, v, node)

    # -- calls of opaque objects / awaits ------------------------------------------------------------------
    def call_ref(self, st, fr, f: RefV, pos, kws, rest_kw, node):
        """calling an opaque callable: a call-out (pool method, property getter/setter, user function)"""
        flat = []
        for x in pos:
            inner = self.ip.deref(st, x.v) if isinstance(x, StarV) else None
            if isinstance(x, StarV) and isinstance(inner, TupleV):
                flat.extend(inner.items)
            else:
                flat.append(x)
        pos = flat
        ev = ("call", f.t, list(pos), dict(kws), list(rest_kw))
        st.trace.append(ev)
        if "on_call" in self.hooks:
            self.hooks["on_call"](st, fr, ev)
        ok = st.fork()
        ok.tags.append("call:returns")
        r = RefV(fresh("result", Ref))
        ok.aux["last_result"] = r.t
        # the result of calling a coroutine function is awaitable (and nothing else is assumed to be)
        ok.assume(z3.Implies(z3.And(f.t != NONE, z3.Select(arr("is_corofunc"), f.t)), z3.And(r.t != NONE, z3.Select(arr("is_awaitable"), r.t))))
        bad = st.fork()
        bad.tags.append("call:raises")
        e = ExcV("UserExc", [], ref=fresh("exc", Ref))
        e.origin = "user"
        return [(ok, r), (bad, Exit(Exit.RAISE, e))]

    def do_await(self, st, fr, v, node):
        ip = self.ip
        if isinstance(v, CoroV) and v.kind == "builtin":
            return self.hooks["await:" + v.target](st, fr, v, node)
        if isinstance(v, RefV):
            st.trace.append(("await", v.t))
            ok = st.fork()
            ok.tags.append("await:value")
            r = RefV(fresh("awaited", Ref))
            bad = st.fork()
            bad.tags.append("await:raises")
            e = ExcV("UserExc", [], ref=fresh("exc", Ref))
            e.origin = "user"
            can = st.fork()
            can.tags.append("await:cancelled")
            ce = ExcV("CancelledError", [])
            ce.origin = "delivered"
            return [(ok, r), (bad, Exit(Exit.RAISE, e)), (can, Exit(Exit.RAISE, ce))]
        return super().do_await(st, fr, v, node)


class SuperObjV(V):
    """`super()` inside a method: attributes are the base class's methods (assumed contracts, hooked as `super.<name>`)"""


class NestedClassV(V):
    """a class object created by a `class` statement inside a function"""

    def __init__(self, name, bases, node, env):
        self.name, self.bases, self.node, self.env = name, bases, node, env


class SigV(V):
    """inspect.Signature of an opaque function: a symbolic sequence of parameters"""

    _cache: Dict[int, SeqV] = {}

    def __init__(self, fn_t):
        self.fn_t = fn_t

    def params(self) -> SeqV:
        k = self.fn_t.get_id()
        if k not in SigV._cache:
            SigV._cache[k] = SeqV(fresh("nparams", I), [fresh("pname", z3.ArraySort(I, S)), fresh("pkind", z3.ArraySort(I, I))], ParamL())
        return SigV._cache[k]


class SigValuesV(V):
    def __init__(self, sig: SigV):
        self.sig = sig


class NamespaceV(V):
    def __init__(self, d: DictV):
        self.d = d


class TokensV(V):
    def __init__(self, t):
        self.t = t


class EncodedV(V):
    def __init__(self, t):
        self.t = t


class LineV(V):
    """bytes read from the stream"""

    def __init__(self, t):
        self.t = t
