"""Verification of the asyncio synchronisation primitives the pool relies on - from the interpreter's OWN source
(`asyncio/locks.py` of the Python that runs the package, located and parsed on every run) - against the abstract
transition systems that the pool proofs use as their contracts (DESIGN 3.6 / A.1).

  Semaphore   concrete: `_value`, `_waiters` (None | deque of futures)          abstract: (v, g, P) of `SemV`
              alpha:   v = _value,  P = #pending futures in the deque,  g = #futures in the deque whose result is set
  Lock        concrete: `_locked`, `_waiters`                                    abstract: `LockV(locked)`
  Event       concrete: `_value`, `_waiters`                                     abstract: `EventV(is_set)`

What each method does to alpha is compared with what `spec.pool_theory.PoolTheory` assumes (`sem_wake_next`, the rules in
`sem_acquire` / `sem_release`, `SemV.locked`) - the expected value is computed by calling those very functions, so the
contract that the pool units consume is literally the statement proved here.

Still assumed (listed in the evidence): the Future state machine (pending -> result set | cancelled, never back;
`done()`/`cancelled()`/`set_result()`), `Task.cancel()` cancels the pending future a task waits on and makes the task
resume with CancelledError, `collections.deque` as a duplicate-free ordered collection (only fresh futures are appended -
checked), cooperative atomicity.  The cardinalities P and g are ghost sets with the trusted container facts of DESIGN 2.3."""
from __future__ import annotations

import ast
import hashlib
import os
import subprocess
from typing import Dict, List, Optional

import z3

from pyvc import sym
from pyvc.front import BUILTIN_EXC, Repo
from pyvc.interp import NORMAL, ExcV, Exit, Frame, Interp, LoopSpec, SelfV, St
from pyvc.run import Unit
from pyvc.sym import B, I, NONE, BoolV, BuiltinV, CoroV, ExtV, IntV, NoneV, PlaceV, Ref, RefL, RefV, SemV, SeqV, SetV, TupleV, Unsupported, V, fresh
from pyvc.theory import ArrV, Iter, IterV, Theory

UNITS: List[Unit] = []
PENDING, GRANTED, CANCELLED = 0, 1, 2
A_RI = z3.ArraySort(Ref, I)

TRUSTED_ASYNCIO = [
    "asyncio.Future: states pending -> result-set | cancelled, never back; done() <=> not pending; cancelled() <=> cancelled; set_result() on a pending future sets its result - proved for the reference implementation by unit asyncio.futures.Future; assumed: the C accelerator behaves like it",
    "Task.cancel() on a task suspended on a pending future cancels that future; a task resumes from `await fut` normally only if fut's result is set, and with CancelledError only if fut is cancelled or a cancellation was requested after the result was set - proved for the reference implementation by unit asyncio.tasks.Task (cancel / __wakeup / __step) and Future.__await__; assumed: the C accelerator behaves like it",
    "collections.deque: append/remove/iteration; modelled as a duplicate-free collection (only fresh futures are appended - checked structurally)",
    "ghost cardinalities of the pending / granted waiter sets: trusted container facts (DESIGN 2.3)",
    "cooperative atomicity; mathematical integers; `math.inf - 1 == math.inf`",
]


def stdlib_file(mod: str = "asyncio.locks") -> str:
    override = os.environ.get("VERIF_STDLIB_" + mod.replace(".", "_").upper())  # engine sensitivity tests point this at a mutated copy
    if override:
        return override
    py = os.environ.get("VERIF_PY", "/venv/bin/python")
    out = subprocess.run([py, "-c", f"import {mod} as m; print(m.__file__)"], capture_output=True, text=True, timeout=60)
    path = out.stdout.strip()
    if out.returncode != 0 or not os.path.exists(path):
        raise Unsupported(f"cannot locate the source of {mod} for {py}")
    return path


class StdRepo(Repo):
    """one standard-library module of the interpreter that runs the package, parsed like a repo module"""

    def __init__(self, path: str, short: str):
        self.root = path
        self.modules, self.sources, self.classes, self.functions, self.consts, self.future_annotations = {}, {}, {}, {}, {}, {}
        src = open(path, encoding="utf-8").read()
        self.sources[short] = src
        self.modules[short] = ast.parse(src, filename=path)
        self._index(short, self.modules[short])
        self.exc = dict(BUILTIN_EXC)
        self.file_hash = hashlib.sha256(src.encode()).hexdigest()[:16]


class WaitersV(V):
    """`_waiters`: None, or a deque of futures (membership set + ghost cardinality)"""

    def __init__(self, isnone, s: SetV):
        self.isnone, self.s = isnone, s

    def truthy_term(self):
        return z3.And(z3.Not(self.isnone), self.s.card != 0)

    def has(self, f):
        return z3.And(z3.Not(self.isnone), self.s.has(f))

    def terms(self):
        return [self.isnone, self.s.mem, self.s.card]

    def havoc(self, prefix):
        return WaitersV(fresh(prefix + "_none", B), SetV.symbolic(prefix, RefL()))


class PrimTheory(Theory):
    """theory for the bodies in asyncio/locks.py"""

    def __init__(self, cls: str):
        self.cls = cls
        self.myfut = None

    # ---- state -------------------------------------------------------------------------------------------
    def initial(self, waiters_may_be_none=True) -> St:
        st = St()
        st.me = fresh("me", Ref)
        w = WaitersV(fresh("w_none", B) if waiters_may_be_none else z3.BoolVal(False), SetV.symbolic("w", RefL()))
        st.sh = {"_waiters": w, "$fstate": ArrV(fresh("fstate", A_RI)), "$P": SetV.symbolic("Pset", RefL()), "$G": SetV.symbolic("Gset", RefL())}
        if self.cls == "Semaphore":
            st.sh["_value"] = ExtV(fresh("v_inf", B), fresh("v", I))
            st.assume(z3.Or(st.sh["_value"].inf, st.sh["_value"].k >= 0))
        elif self.cls == "Lock":
            st.sh["_locked"] = BoolV(fresh("locked", B))
        else:
            st.sh["_value"] = BoolV(fresh("flag", B))
        self.assume_facts(st)
        for _n, f in self.J(st.sh):
            st.assume(f)
        return st

    def assume_facts(self, st: St) -> None:
        for k in ("$P", "$G"):
            for f in st.sh[k].qfacts():
                st.assume(f)
        for f in st.sh["_waiters"].s.qfacts():
            st.assume(f)
        x = z3.Const("x!fs", Ref)
        fs = st.sh["$fstate"].t
        st.assume(z3.ForAll([x], z3.And(z3.Select(fs, x) >= 0, z3.Select(fs, x) <= 2)))

    @staticmethod
    def J(sh) -> List:
        """coupling invariant between the deque, the futures' states and the ghost sets"""
        w: WaitersV = sh["_waiters"]
        fs = sh["$fstate"].t
        P, G = sh["$P"], sh["$G"]
        x = z3.Const("x!J", Ref)
        return [("J.pending-set", z3.ForAll([x], P.has(x) == z3.And(w.has(x), z3.Select(fs, x) == PENDING))),
                ("J.granted-set", z3.ForAll([x], G.has(x) == z3.And(w.has(x), z3.Select(fs, x) == GRANTED))),
                ("J.no-deque-no-waiters", z3.Implies(w.isnone, z3.And(P.card == 0, G.card == 0))),
                ("J.none-is-not-a-future", z3.Not(w.has(NONE)))]

    def alpha(self, sh) -> SemV:
        return mk_sem(sh["_value"], sh["$G"].card, sh["$P"].card)

    def check_J(self, st: St, label: str, props) -> None:
        for n, f in self.J(st.sh):
            self.ip.require(st, f"inv:{n}@{label}", f, props)

    # ---- plumbing -----------------------------------------------------------------------------------------
    def may_set_field(self, st, fr, obj, attr) -> bool:
        return attr in st.sh

    def coerce_field(self, st, attr, old, new):
        if isinstance(old, WaitersV) and isinstance(new, NoneV):
            return WaitersV(z3.BoolVal(True), SetV.empty(RefL()))
        if isinstance(old, ExtV) and isinstance(new, IntV):
            return ExtV(z3.BoolVal(False), new.t)
        return super().coerce_field(st, attr, old, new)

    def equal(self, st, a, b, identity):
        for x, y in ((a, b), (b, a)):
            if isinstance(x, WaitersV) and isinstance(y, NoneV):
                return x.isnone
        return super().equal(st, a, b, identity)

    def binop(self, st, op, a, b):
        return super().binop(st, op, a, b)

    def self_attr(self, st, fr, v, attr):
        if attr == "_get_loop":
            return [(st, BuiltinV("self._get_loop"))]
        return super().self_attr(st, fr, v, attr)

    def value_attr(self, st, fr, v, attr):
        if isinstance(v, BuiltinV) and v.recv is None:
            return [(st, BuiltinV(f"{v.name}.{attr}"))]
        if isinstance(v, RefV):
            return [(st, BuiltinV(attr, recv=v))]
        return super().value_attr(st, fr, v, attr)

    def call_builtin(self, st, fr, f: BuiltinV, pos, kws, rest_kw, node):
        ip = self.ip
        if f.recv is not None:
            return self.call_method(st, fr, f.recv, f.name, pos, kws, node)
        if f.name == "self._get_loop":
            return [(st, BuiltinV("<loop>"))]
        if f.name == "<loop>.create_future":
            fut = fresh("fut", Ref)
            w: WaitersV = st.sh["_waiters"]
            st.assume(z3.And(fut != NONE, z3.Select(st.sh["$fstate"].t, fut) == PENDING, z3.Not(w.s.has(fut))))
            st.trace.append(("create_future", fut))
            return [(st, RefV(fut))]
        if f.name == "collections.deque" and not pos:
            return [(st, WaitersV(z3.BoolVal(False), SetV.empty(RefL())))]
        if f.name in ("any", "all"):
            v = pos[0]
            if isinstance(v, BoolV):
                return [(st, v)]
            raise Unsupported(f.name + "() argument")
        if f.name == "iter":
            it = self.iter_of(st, fr, pos[0], node)
            if it is not None:
                return [(st, IterV(it))]
        if f.name == "next":
            v = ip.deref(st, pos[0])
            if isinstance(v, IterV):
                out = []
                for f_ in v.it.facts:
                    st.assume(f_)
                for s, b in ip.branch(st, v.it.count > 0, "next"):
                    out.append((s, v.it.item(z3.IntVal(0))) if b else (s, Exit(Exit.RAISE, ExcV("StopIteration", []))))
                return out
        raise Unsupported(f"builtin {f.name}()")

    def call_method(self, st, fr, recv, name, pos, kws, node):
        ip = self.ip
        val = ip.deref(st, recv)
        if isinstance(val, WaitersV) and isinstance(recv, PlaceV):
            fut = ip.deref(st, pos[0]) if pos else None
            if name == "append" and isinstance(fut, RefV):
                created = [e[1] for e in st.trace if e[0] == "create_future"]
                ip.require(st, "deque.append:only-a-fresh-future-is-appended(duplicate-free-model)", z3.Or([fut.t == c for c in created]) if created else z3.BoolVal(False), ("C01",))
                ip.require(st, "deque.append:a-deque-exists", z3.Not(val.isnone), ("C01",))
                ip.place_set(st, recv, WaitersV(val.isnone, val.s.add(fut.t)))
                # ghost: a pending future joins the pending set
                fs = st.sh["$fstate"].t
                st.sh["$P"] = SetV(z3.If(z3.Select(fs, fut.t) == PENDING, st.sh["$P"].add(fut.t).mem, st.sh["$P"].mem),
                                   z3.If(z3.Select(fs, fut.t) == PENDING, st.sh["$P"].add(fut.t).card, st.sh["$P"].card), RefL())
                return [(st, NoneV())]
            if name == "remove" and isinstance(fut, RefV):
                out = []
                for s, b in ip.branch(st, val.has(fut.t), "remove"):
                    if not b:
                        out.append((s, Exit(Exit.RAISE, ExcV("ValueError", []))))
                        continue
                    s.trace.append(("remove", fut.t))
                    ip.place_set(s, recv, WaitersV(val.isnone, val.s.discard(fut.t)))
                    s.sh["$P"] = s.sh["$P"].discard(fut.t)
                    s.sh["$G"] = s.sh["$G"].discard(fut.t)
                    out.append((s, NoneV()))
                return out
        if isinstance(val, RefV):
            fs = st.sh["$fstate"].t
            if name == "cancelled":
                return [(st, BoolV(z3.Select(fs, val.t) == CANCELLED))]
            if name == "done":
                return [(st, BoolV(z3.Select(fs, val.t) != PENDING))]
            if name == "set_result":
                ip.require(st, "Future.set_result:only-on-a-pending-future", z3.Select(fs, val.t) == PENDING, ("C01",))
                st.trace.append(("set_result", val.t))
                inq = st.sh["_waiters"].has(val.t)
                st.sh["$fstate"] = ArrV(z3.Store(fs, val.t, GRANTED))
                P, G = st.sh["$P"], st.sh["$G"]
                # ghost: the future leaves the pending set and joins the granted set (if it is queued)
                st.sh["$P"] = P.discard(val.t)
                g2 = G.add(val.t)
                st.sh["$G"] = SetV(z3.If(inq, g2.mem, G.mem), z3.If(inq, g2.card, G.card), RefL())
                return [(st, NoneV())]
        raise Unsupported(f"method .{name}() on {type(val).__name__}")

    def iter_of(self, st, fr, v, node):
        d = self.ip.deref(st, v)
        if isinstance(d, WaitersV):
            return self.key_iter(d.s, reverse=False)
        return super().iter_of(st, fr, v, node)

    def comprehension(self, st, fr, e):
        """any/all(<pred(w)> for w in <deque or ()>)  ->  Exists / ForAll over the members"""
        ip = self.ip
        gens = e.generators
        if len(gens) != 1 or gens[0].ifs or not isinstance(gens[0].target, ast.Name):
            raise Unsupported("comprehension shape")
        var = gens[0].target.id
        out = []
        for s, src in ip.ev(st, fr, gens[0].iter):
            if isinstance(src, Exit):
                out.append((s, src))
                continue
            src = ip.deref(s, src)
            if isinstance(src, TupleV) and not src.items:
                out.append((s, _QuantV(None, None)))
                continue
            if not isinstance(src, WaitersV):
                raise Unsupported("comprehension over " + type(src).__name__)
            w = z3.Const("w!gen", Ref)
            s2 = s.fork()
            s2.loc[var] = RefV(w)
            res = ip.ev(s2, fr, e.elt)
            if len(res) != 1 or isinstance(res[0][1], Exit) or not isinstance(res[0][1], BoolV):
                raise Unsupported("comprehension element is not a pure test")
            out.append((s, _QuantV(src.has(w), res[0][1].t, w)))
        return [(s, v if isinstance(v, Exit) else v) for s, v in out]

    # any()/all() over the quantified generator
    def finish_quant(self, name, q: "_QuantV"):
        if q.dom is None:
            return z3.BoolVal(name == "all")
        if name == "any":
            return z3.Exists([q.var], z3.And(q.dom, q.pred))
        return z3.ForAll([q.var], z3.Implies(q.dom, q.pred))

    # ---- await fut -------------------------------------------------------------------------------------------
    def do_await(self, st, fr, v, node):
        """`await fut`: a suspension.  Other tasks run segments of the same primitive (their guarantee, proved in this
        file: J is preserved, only their own future leaves the deque, future states only move pending -> result set) and
        the environment may cancel a pending future."""
        ip = self.ip
        if not isinstance(v, RefV):
            raise Unsupported("await of " + type(v).__name__)
        props = ("C01", "C02", "C05", "C15", "C08", "C10")
        self.check_J(st, "suspension", props)
        ip.require(st, "assert@suspension:my-future-is-queued-and-is-the-one-I-created", z3.And(st.sh["_waiters"].has(v.t), z3.Or([v.t == e[1] for e in st.trace if e[0] == "create_future"] or [z3.BoolVal(False)])), props)
        st.aux["at_suspension"] = dict(st.sh)
        old_state = z3.Select(st.sh["$fstate"].t, v.t)
        for k in list(st.sh):
            from pyvc.theory import havoc_like

            st.sh[k] = havoc_like(st.sh[k], "resumed_" + k.strip("$_"))
        self.assume_facts(st)
        for _n, f in self.J(st.sh):
            st.assume(f)
        st.assume(st.sh["_waiters"].has(v.t))  # rely: nobody else removes my future
        new_state = z3.Select(st.sh["$fstate"].t, v.t)
        st.assume(z3.Implies(old_state != PENDING, new_state == old_state))  # rely: future states never move back
        out = []
        for tag, cond, exc in (("resumed:result-set", new_state == GRANTED, None),
                               ("resumed:cancelled-while-pending", new_state == CANCELLED, "CancelledError"),
                               ("resumed:cancelled-after-the-grant", new_state == GRANTED, "CancelledError")):
            s = st.fork()
            s.assume(cond)
            s.tags.append(tag)
            if not ip.feasible(s):
                continue
            s.aux["resumed"] = dict(s.sh)
            if exc is None:
                out.append((s, BoolV(True)))
            else:
                e = ExcV(exc, [])
                e.origin = "delivered"
                out.append((s, Exit(Exit.RAISE, e)))
        return out


def mk_sem(v, g, P) -> SemV:
    n = SemV(v, g, P, z3.IntVal(0))
    n.tokarr = "tok"
    return n


class _QuantV(V):
    """a generator `(pred(w) for w in D)`: membership and element test as terms over the bound constant `var`"""

    def __init__(self, dom, pred, var=None):
        self.dom, self.pred, self.var = dom, pred, var


def _patch_any(th: PrimTheory):
    orig = th.call_builtin

    def call_builtin(st, fr, f, pos, kws, rest_kw, node):
        if f.recv is None and f.name in ("any", "all") and pos and isinstance(pos[0], _QuantV):
            return [(st, BoolV(th.finish_quant(f.name, pos[0])))]
        return orig(st, fr, f, pos, kws, rest_kw, node)

    th.call_builtin = call_builtin


def unit(name, props, cls, mod="asyncio.locks", short="locks", theory=None, mutable=()):
    def deco(fn):
        def wrapped(ip: Interp, th):
            std = StdRepo(stdlib_file(mod), short)
            ip.repo = std
            ip.extra_functions = {f"{mod}.{cls}.{m}": fi.src_hash for m, fi in std.classes[cls].methods.items() if not m.startswith("__") or m == "__init__"}
            ip.extra_functions[mod.replace(".", "/") + ".py"] = std.file_hash
            saved = Interp.MUTABLE_EXTRA
            Interp.MUTABLE_EXTRA = saved + (WaitersV,) + tuple(mutable)
            if hasattr(th, "finish_quant"):
                _patch_any(th)
            try:
                return fn(ip, th, std)
            finally:
                Interp.MUTABLE_EXTRA = saved

        UNITS.append(Unit(name, wrapped, props, [], theory_factory=(lambda: PrimTheory(cls)) if theory is None else theory, trusted=TRUSTED_ASYNCIO))
        return fn

    return deco


def pool_theory():
    from .pool_theory import PoolTheory

    return PoolTheory.__new__(PoolTheory)


def same_sem(a: SemV, b: SemV):
    return z3.And(a.v.same(b.v), a.g == b.g, a.P == b.P)


SEM_PROPS = ("C01", "C02", "C05", "C15")


# ======================================================================================================
# asyncio.Semaphore  (contract consumed by: _start_task, _task_ending, pool_size, is_full, _arg_consumer, release_callback)
# ======================================================================================================
@unit("asyncio.locks.Semaphore", SEM_PROPS, "Semaphore")
def u_semaphore(ip: Interp, th: PrimTheory, std: StdRepo):
    P = SEM_PROPS
    pt = pool_theory()
    Q = "locks.Semaphore."
    SELF = SelfV("Semaphore")

    def run(st, name, args, awaited=False):
        fi = std.get(Q + name)
        fr0 = Frame(None, fi.module, SELF, 0, qual="@unit")
        if fi.is_async:
            return ip.run_repo(st, fr0, fi, SELF, args, awaited=True)
        return ip.exec_function(st, fi, SELF, args)

    # ---- __init__ -----------------------------------------------------------------------------------------
    st = th.initial()
    for k in list(st.sh):
        from pyvc.theory import havoc_like

        if not k.startswith("$"):
            st.sh[k] = havoc_like(st.sh[k], "uninit_" + k.strip("_"))
    st.sh["$P"], st.sh["$G"] = SetV.empty(RefL()), SetV.empty(RefL())  # a new object: nobody waits on it
    value = IntV(fresh("a_value", I))
    for s, v in run(st, "__init__", {"value": value}):
        if isinstance(v, Exit):
            ip.require(s, "__init__:raises-ValueError-exactly-for-a-negative-value", z3.And(z3.BoolVal(v.val.cls == "ValueError"), value.t < 0), P)
            continue
        a = th.alpha(s.sh)
        ip.require(s, "__init__:counter=value,no-waiters(new_semaphore)", z3.And(value.t >= 0, a.v.eq_int(value.t), z3.Not(a.v.inf), a.g == 0, a.P == 0), P)
        th.check_J(s, "__init__", P)
    # ---- locked() ---------------------------------------------------------------------------------------------
    st = th.initial()
    a0 = th.alpha(st.sh)
    sh0 = dict(st.sh)
    for s, v in run(st, "locked", {}):
        ip.require(s, "locked:returns-(v==0-or-a-live-waiter)=SemV.locked()", v.t == a0.locked() if isinstance(v, BoolV) else z3.BoolVal(False), P)
        ip.require(s, "locked:pure", z3.BoolVal(all(s.sh[k] is sh0[k] for k in sh0)), P)
    # ---- _wake_up_next() ----------------------------------------------------------------------------------------
    def inv_wake(c):
        s, s0 = c.st, c.st0
        fs, fs0 = s.sh["$fstate"].t, s0.sh["$fstate"].t
        j = z3.Int("j!l")
        seq = c.it.seq
        same = z3.And(s.sh["_value"].same(s0.sh["_value"]), fs == fs0, s.sh["$P"].mem == s0.sh["$P"].mem, s.sh["$P"].card == s0.sh["$P"].card,
                      s.sh["$G"].mem == s0.sh["$G"].mem, s.sh["$G"].card == s0.sh["$G"].card)
        return [("every-visited-waiter-is-done", z3.ForAll([j], z3.Implies(z3.And(0 <= j, j < c.i), z3.Select(fs0, z3.Select(seq, j)) != PENDING))),
                ("nothing-changed-yet", same)]

    ip.loopspecs[(Q + "_wake_up_next", 1)] = LoopSpec(inv_wake, P, name="first-pending")
    st = th.initial()
    a0 = th.alpha(st.sh)
    w0 = st.sh["_waiters"]
    for s, v in run(st, "_wake_up_next", {}):
        if isinstance(v, Exit):
            ip.require(s, f"_wake_up_next:noraise:{v.val.cls}", z3.BoolVal(False), P)
            continue
        ip.require(s, "_wake_up_next:alpha'=sem_wake_next(alpha)(grants-one-pending-waiter-iff-there-is-one)", same_sem(th.alpha(s.sh), pt.sem_wake_next(a0)), P)
        th.check_J(s, "_wake_up_next", P)
        x = z3.Const("x!g", Ref)
        fs0_, fs1_ = st.sh["$fstate"].t, s.sh["$fstate"].t
        ip.require(s, "guar:_wake_up_next:future-states-only-move-pending->result-set,for-queued-futures",
                   z3.ForAll([x], z3.Or(z3.Select(fs1_, x) == z3.Select(fs0_, x), z3.And(z3.Select(fs0_, x) == PENDING, z3.Select(fs1_, x) == GRANTED, w0.has(x)))), P)
        ip.require(s, "guar:_wake_up_next:no-future-leaves-or-joins-the-deque", z3.And(s.sh["_waiters"].isnone == w0.isnone, z3.ForAll([x], s.sh["_waiters"].s.has(x) == w0.s.has(x))), P)

    def c_wake(ip_, s, fr, selfv, args):
        """contract of _wake_up_next (proved just above)"""
        a = th.alpha(s.sh)
        n = pt.sem_wake_next(a)
        fs0 = s.sh["$fstate"].t
        w = s.sh["_waiters"]
        for k in ("$fstate", "$P", "$G"):
            from pyvc.theory import havoc_like

            s.sh[k] = havoc_like(s.sh[k], "woken_" + k.strip("$"))
        s.sh["_value"] = n.v
        th.assume_facts(s)
        for _n, f in th.J(s.sh):
            s.assume(f)
        s.assume(z3.And(s.sh["$P"].card == n.P, s.sh["$G"].card == n.g))
        x = z3.Const("x!cw", Ref)
        fs1 = s.sh["$fstate"].t
        # future states only move pending -> result set, and only for queued futures
        s.assume(z3.ForAll([x], z3.Or(z3.Select(fs1, x) == z3.Select(fs0, x), z3.And(z3.Select(fs0, x) == PENDING, z3.Select(fs1, x) == GRANTED, w.has(x)))))
        s.trace.append(("wake_next",))
        return [(s, NoneV())]

    # ---- release() ------------------------------------------------------------------------------------------------
    ip.contracts[Q + "_wake_up_next"] = c_wake
    st = th.initial()
    a0 = th.alpha(st.sh)
    for s, v in run(st, "release", {}):
        if isinstance(v, Exit):
            ip.require(s, f"release:noraise:{v.val.cls}", z3.BoolVal(False), P)
            continue
        exp = pt.sem_wake_next(mk_sem(a0.v.add(1), a0.g, a0.P))
        ip.require(s, "release:alpha'=sem_wake_next(v+1)(the-rule-of-sem_release)", same_sem(th.alpha(s.sh), exp), P)
        th.check_J(s, "release", P)
    # ---- acquire() --------------------------------------------------------------------------------------------------
    # `locked()` is used through its contract (proved above)
    def c_locked(ip_, s, fr, selfv, args):
        return [(s, BoolV(th.alpha(s.sh).locked()))]

    ip.contracts[Q + "locked"] = c_locked
    st = th.initial()
    a0 = th.alpha(st.sh)
    w0 = st.sh["_waiters"]
    for s, v in run(st, "acquire", {}):
        suspended = "at_suspension" in s.aux
        if not suspended:
            if isinstance(v, Exit):
                ip.require(s, f"acquire:fast-path:noraise:{v.val.cls}", z3.BoolVal(False), P)
                continue
            ip.require(s, "acquire:returns-without-suspending-iff-not-locked()", z3.Not(a0.locked()), P)
            ip.require(s, "acquire:fast-path:alpha'=(v-1,g,P)", same_sem(th.alpha(s.sh), mk_sem(a0.v.add(-1), a0.g, a0.P)), P)
            ip.require(s, "acquire:returns-True", v.t if isinstance(v, BoolV) else z3.BoolVal(False), P)
            th.check_J(s, "acquire-fast", P)
            continue
        # first segment: entry -> suspension
        sus = s.aux["at_suspension"]
        a1 = th.alpha(sus)
        ip.require(s, "acquire:suspends-iff-locked()", a0.locked(), P)
        ip.require(s, "acquire:enqueue:alpha'=(v,g,P+1)", same_sem(a1, mk_sem(a0.v, a0.g, a0.P + 1)), P)
        # second segment: resumption -> exit
        r = th.alpha(s.aux["resumed"])
        a2 = th.alpha(s.sh)
        th.check_J(s, "acquire-exit", P)
        created = [e[1] for e in s.trace if e[0] == "create_future"]
        removed = [e[1] for e in s.trace if e[0] == "remove"]
        ip.require(s, "guar:acquire:removes-exactly-its-own-future-exactly-once", z3.BoolVal(len(created) == 1 and len(removed) == 1) if len(created) != 1 or len(removed) != 1 else created[0] == removed[0], P)
        if "resumed:result-set" in s.tags:
            n = mk_sem(r.v, r.g - 1, r.P)
            w = pt.sem_wake_next(n)
            wake = n.v.gt_int(0)
            exp = mk_sem(ExtV(n.v.inf, z3.If(wake, w.v.k, n.v.k)), z3.If(wake, w.g, n.g), z3.If(wake, w.P, n.P))
            ip.require(s, "acquire:granted:returns-True", z3.BoolVal(not isinstance(v, Exit)) if isinstance(v, Exit) else (v.t if isinstance(v, BoolV) else z3.BoolVal(False)), P)
            ip.require(s, "acquire:granted:alpha'=(g-1,then-wake-next-if-v>0)(rule-`granted`-of-sem_acquire)", same_sem(a2, exp), P)
        elif "resumed:cancelled-while-pending" in s.tags:
            ip.require(s, "acquire:cancelled-while-pending:re-raises-CancelledError", z3.BoolVal(isinstance(v, Exit) and v.val.cls == "CancelledError"), P)
            ip.require(s, "acquire:cancelled-while-pending:alpha-unchanged(rule-`cancelled-pending`)", same_sem(a2, r), P)
        else:
            exp = pt.sem_wake_next(mk_sem(r.v.add(1), r.g - 1, r.P))
            ip.require(s, "acquire:cancelled-after-the-grant:re-raises-CancelledError", z3.BoolVal(isinstance(v, Exit) and v.val.cls == "CancelledError"), P)
            ip.require(s, "acquire:cancelled-after-the-grant:alpha'=wake_next(v+1,g-1)(rule-`cancelled-granted`:the-slot-is-passed-on)", same_sem(a2, exp), P)
    # ---- the environment step `Task.cancel()` on a waiter: a pending future becomes cancelled -------------------------
    st = th.initial()
    a0 = th.alpha(st.sh)
    f = fresh("cancelled_fut", Ref)
    st.assume(z3.And(st.sh["_waiters"].has(f), z3.Select(st.sh["$fstate"].t, f) == PENDING))
    st.sh["$fstate"] = ArrV(z3.Store(st.sh["$fstate"].t, f, CANCELLED))
    st.sh["$P"] = st.sh["$P"].discard(f)
    th.check_J(st, "env:Future.cancel", P)
    ip.require(st, "env:Future.cancel-of-a-pending-waiter:alpha'=(v,g,P-1)(task_cancel:newP<=P)", same_sem(th.alpha(st.sh), mk_sem(a0.v, a0.g, a0.P - 1)), P)


# ======================================================================================================
# asyncio.Lock  (contract consumed by TaskGroupRegister.acquire/release inside `async with group_reg`)
# The pool only ever acquires a FREE lock that nobody waits for (obligation `pre:Lock.acquire:free` at the call site,
# I8 at every observation point), so the contract is stated for states without live waiters: then acquire never
# suspends and sets `locked`, release of a locked lock frees it, release of a free lock raises RuntimeError.
# ======================================================================================================
LOCK_PROPS = ("C10", "C11", "C02")


@unit("asyncio.locks.Lock", LOCK_PROPS, "Lock")
def u_lock(ip: Interp, th: PrimTheory, std: StdRepo):
    P = LOCK_PROPS
    Q = "locks.Lock."
    SELF = SelfV("Lock")

    def run(st, name, args):
        fi = std.get(Q + name)
        fr0 = Frame(None, fi.module, SELF, 0, qual="@unit")
        if fi.is_async:
            return ip.run_repo(st, fr0, fi, SELF, args, awaited=True)
        return ip.exec_function(st, fi, SELF, args)

    def no_live_waiters(sh):
        return z3.And(sh["$P"].card == 0, sh["$G"].card == 0)

    # __init__
    st = th.initial()
    st.sh["_locked"] = BoolV(fresh("uninit_locked", B))
    st.sh["_waiters"] = WaitersV(fresh("uninit_none", B), SetV.symbolic("uninit_w", RefL()))
    st.sh["$P"], st.sh["$G"] = SetV.empty(RefL()), SetV.empty(RefL())
    for s, v in run(st, "__init__", {}):
        ip.require(s, "__init__:a-new-lock-is-free-and-nobody-waits(LockV(False))", z3.And(z3.Not(s.sh["_locked"].t), s.sh["_waiters"].isnone, z3.BoolVal(not isinstance(v, Exit))), P)
        th.check_J(s, "__init__", P)
    # locked()
    st = th.initial()
    l0 = st.sh["_locked"].t
    for s, v in run(st, "locked", {}):
        ip.require(s, "locked:returns-the-flag", v.t == l0 if isinstance(v, BoolV) else z3.BoolVal(False), P)
    # acquire on a free lock without live waiters: no suspension, locked afterwards
    st = th.initial()
    st.assume(no_live_waiters(st.sh))
    l0 = st.sh["_locked"].t
    w0 = st.sh["_waiters"]
    for s, v in run(st, "acquire", {}):
        if "at_suspension" in s.aux:
            ip.require(s, "acquire:suspends-only-when-the-lock-is-held", l0, P)
            continue
        ip.require(s, "acquire:a-free-lock-is-taken-at-once(never-suspends)", z3.And(z3.Not(l0), z3.BoolVal(not isinstance(v, Exit))), P)
        if not isinstance(v, Exit):
            x = z3.Const("x!lk", Ref)
            ip.require(s, "acquire:locked-afterwards,returns-True,waiters-untouched",
                       z3.And(s.sh["_locked"].t, v.t if isinstance(v, BoolV) else z3.BoolVal(False), s.sh["_waiters"].isnone == w0.isnone, z3.ForAll([x], s.sh["_waiters"].s.has(x) == w0.s.has(x)), no_live_waiters(s.sh)), P)
            th.check_J(s, "acquire", P)
    # release
    st = th.initial()
    st.assume(no_live_waiters(st.sh))
    l0 = st.sh["_locked"].t
    for s, v in run(st, "release", {}):
        if isinstance(v, Exit):
            ip.require(s, "release:RuntimeError-exactly-when-the-lock-is-not-held(then-nothing-changes)", z3.And(z3.BoolVal(v.val.cls == "RuntimeError"), z3.Not(l0), z3.Not(s.sh["_locked"].t)), P)
            continue
        ip.require(s, "release:a-held-lock-becomes-free", z3.And(l0, z3.Not(s.sh["_locked"].t), no_live_waiters(s.sh)), P)
        th.check_J(s, "release", P)


# ======================================================================================================
# asyncio.Event  (contract consumed by gather_and_close / until_closed / _check_start: `_closed`)
# ======================================================================================================
EVENT_PROPS = ("C08", "C09", "C20")


@unit("asyncio.locks.Event", EVENT_PROPS, "Event")
def u_event(ip: Interp, th: PrimTheory, std: StdRepo):
    P = EVENT_PROPS
    Q = "locks.Event."
    SELF = SelfV("Event")

    def run(st, name, args):
        fi = std.get(Q + name)
        fr0 = Frame(None, fi.module, SELF, 0, qual="@unit")
        if fi.is_async:
            return ip.run_repo(st, fr0, fi, SELF, args, awaited=True)
        return ip.exec_function(st, fi, SELF, args)

    # __init__
    st = th.initial()
    st.sh["_value"] = BoolV(fresh("uninit_flag", B))
    st.sh["_waiters"] = WaitersV(fresh("uninit_none", B), SetV.symbolic("uninit_w", RefL()))
    st.sh["$P"], st.sh["$G"] = SetV.empty(RefL()), SetV.empty(RefL())
    for s, v in run(st, "__init__", {}):
        ip.require(s, "__init__:a-new-event-is-unset-and-nobody-waits(EventV(False))", z3.And(z3.Not(s.sh["_value"].t), z3.Not(s.sh["_waiters"].isnone), s.sh["_waiters"].s.card == 0, z3.BoolVal(not isinstance(v, Exit))), P)
        th.check_J(s, "__init__", P)
    # is_set
    st = th.initial(waiters_may_be_none=False)
    f0 = st.sh["_value"].t
    sh0 = dict(st.sh)
    for s, v in run(st, "is_set", {}):
        ip.require(s, "is_set:returns-the-flag,pure", z3.And(v.t == f0 if isinstance(v, BoolV) else z3.BoolVal(False), z3.BoolVal(all(s.sh[k] is sh0[k] for k in sh0))), P)

    # set(): the flag becomes (stays) true and every waiter is released
    def inv_set(c):
        s, s0 = c.st, c.st0
        fs, fs0 = s.sh["$fstate"].t, s0.sh["$fstate"].t
        j = z3.Int("j!l")
        x = z3.Const("x!l", Ref)
        seq = c.it.seq
        w, w0 = s.sh["_waiters"], s0.sh["_waiters"]
        out = [("every-visited-waiter-is-released", z3.ForAll([j], z3.Implies(z3.And(0 <= j, j < c.i), z3.Select(fs, z3.Select(seq, j)) != PENDING))),
               ("future-states-only-move-pending->result-set", z3.ForAll([x], z3.Or(z3.Select(fs, x) == z3.Select(fs0, x), z3.And(z3.Select(fs0, x) == PENDING, z3.Select(fs, x) == GRANTED, w0.has(x))))),
               ("deque-and-flag-untouched", z3.And(w.isnone == w0.isnone, w.s.mem == w0.s.mem, w.s.card == w0.s.card, s.sh["_value"].t == s0.sh["_value"].t))]
        return out + [(n, f) for n, f in PrimTheory.J(s.sh)]

    ip.loopspecs[(Q + "set", 1)] = LoopSpec(inv_set, P, name="release-waiters")
    orig_after = th.after_loop_havoc

    def after_loop_havoc(s, st0, mod_shared):
        th.assume_facts(s)

    th.after_loop_havoc = after_loop_havoc
    st = th.initial(waiters_may_be_none=False)
    f0 = st.sh["_value"].t
    w0 = st.sh["_waiters"]
    a0P = st.sh["$P"].card
    # an event that is already set has no pending waiter: wait() does not enqueue while the flag is true, and set()
    # releases everybody (this clause is part of the event's invariant, checked below for every method)
    ev_inv = lambda sh: z3.Implies(sh["_value"].t, sh["$P"].card == 0)
    st.assume(ev_inv(st.sh))
    for s, v in run(st, "set", {}):
        if isinstance(v, Exit):
            ip.require(s, f"set:noraise:{v.val.cls}", z3.BoolVal(False), P)
            continue
        x = z3.Const("x!p", Ref)
        ip.require(s, "set:flag-is-true-afterwards(monotone:set-never-resets)", s.sh["_value"].t, P)
        ip.require(s, "set:every-pending-waiter-is-released(until_closed-waiters-wake-up)", s.sh["$P"].card == 0, P)
        ip.require(s, "guar:set:no-future-leaves-or-joins-the-deque", z3.And(s.sh["_waiters"].isnone == w0.isnone, z3.ForAll([x], s.sh["_waiters"].s.has(x) == w0.s.has(x))), P)
        ip.require(s, "inv:event:set=>no-pending-waiter@set", ev_inv(s.sh), P)
        th.check_J(s, "set", P)
    # wait()
    st = th.initial(waiters_may_be_none=False)
    st.assume(ev_inv(st.sh))
    f0 = st.sh["_value"].t
    sh0 = dict(st.sh)
    for s, v in run(st, "wait", {}):
        if "at_suspension" not in s.aux:
            ip.require(s, "wait:returns-at-once-exactly-when-the-event-is-set", z3.And(f0, z3.BoolVal(not isinstance(v, Exit)), v.t if isinstance(v, BoolV) else z3.BoolVal(False)), P)
            ip.require(s, "wait:fast-path:pure", z3.BoolVal(all(s.sh[k] is sh0[k] for k in sh0)), P)
            continue
        ip.require(s, "wait:suspends-exactly-when-the-event-is-not-set(never-released-early)", z3.Not(f0), P)
        sus = s.aux["at_suspension"]
        ip.require(s, "wait:enqueues-one-pending-future,flag-untouched", z3.And(sus["$P"].card == sh0["$P"].card + 1, sus["_value"].t == f0), P)
        ip.require(s, "inv:event:set=>no-pending-waiter@suspension", z3.Implies(sus["_value"].t, sus["$P"].card == 0), P)
        created = [e[1] for e in s.trace if e[0] == "create_future"]
        removed = [e[1] for e in s.trace if e[0] == "remove"]
        ip.require(s, "guar:wait:removes-exactly-its-own-future-exactly-once;never-sets-a-result", z3.BoolVal(len(created) == 1 and len(removed) == 1 and not [e for e in s.trace if e[0] == "set_result"]) if len(created) != 1 or len(removed) != 1 else created[0] == removed[0], P)
        r = s.aux["resumed"]
        if "resumed:result-set" in s.tags:
            ip.require(s, "wait:released:returns-True", z3.BoolVal(not isinstance(v, Exit)) if isinstance(v, Exit) else (v.t if isinstance(v, BoolV) else z3.BoolVal(False)), P)
        else:
            ip.require(s, "wait:cancelled:re-raises-CancelledError", z3.BoolVal(isinstance(v, Exit) and v.val.cls == "CancelledError"), P)
        ip.require(s, "wait:exit:flag-untouched-since-resumption", s.sh["_value"].t == r["_value"].t, P)
        th.check_J(s, "wait-exit", P)
    # only set() writes a result into a waiter's future, and only set()/clear() write the flag: a waiter resumes normally
    # only after some set() - the pool never calls clear() on `_closed` (callgraph obligation in the pool units)
    writers = []
    for m, fi in std.classes["Event"].methods.items():
        for n in ast.walk(fi.node):
            if isinstance(n, ast.Attribute) and n.attr == "set_result":
                writers.append(m)
    ip.require(th.initial(), "callgraph:only-Event.set-releases-waiters", z3.BoolVal(sorted(set(writers)) == ["set"]), P)


# ======================================================================================================
# asyncio.Queue  (contract consumed by queue_context.Queue, property C20) - from the interpreter's asyncio/queues.py
#   abstract state of the C20 unit: items = len(_queue), unfinished = _unfinished_tasks;   invariant QJ: the `_finished`
#   event is set  <=>  unfinished == 0   (so join(), which waits for that event, returns exactly when unfinished reached 0)
# ======================================================================================================
class ItemsV(V):
    """`_queue`: a deque of items as a window [lo, hi) over an array"""

    def __init__(self, lo, hi, arr):
        self.lo, self.hi, self.arr = lo, hi, arr

    def truthy_term(self):
        return self.hi - self.lo != 0

    def terms(self):
        return [self.lo, self.hi, self.arr]

    def havoc(self, prefix):
        return ItemsV(fresh(prefix + "_lo", I), fresh(prefix + "_hi", I), fresh(prefix + "_arr", z3.ArraySort(I, Ref)))


class QueueImplTheory(PrimTheory):
    def __init__(self):
        super().__init__("Queue")

    def initial(self) -> St:
        from pyvc.sym import EventV

        st = St()
        st.me = fresh("me", Ref)
        q = ItemsV(fresh("q_lo", I), fresh("q_hi", I), fresh("q_arr", z3.ArraySort(I, Ref)))
        st.sh = {"_queue": q, "_unfinished_tasks": IntV(fresh("unfinished", I)), "_finished": EventV(fresh("finished", B)), "_maxsize": IntV(fresh("maxsize", I)),
                 "_getters": WaitersV(z3.BoolVal(False), SetV.symbolic("getters", RefL())), "_putters": WaitersV(z3.BoolVal(False), SetV.symbolic("putters", RefL())),
                 "$fstate": ArrV(fresh("fstate", A_RI))}
        self.assume_facts(st)
        for _n, f in self.QJ(st.sh):
            st.assume(f)
        return st

    def assume_facts(self, st: St) -> None:
        for k in ("_getters", "_putters"):
            for f in st.sh[k].s.qfacts():
                st.assume(f)
        st.assume(st.sh["_queue"].hi >= st.sh["_queue"].lo)

    @staticmethod
    def QJ(sh):
        return [("QJ.finished-event-is-set-iff-no-unfinished-item", sh["_finished"].is_set == (sh["_unfinished_tasks"].t == 0)),
                ("QJ.counters-non-negative", z3.And(sh["_unfinished_tasks"].t >= 0, sh["_queue"].hi >= sh["_queue"].lo))]

    def check_QJ(self, st, label, props):
        for n, f in self.QJ(st.sh):
            self.ip.require(st, f"inv:{n}@{label}", f, props)

    @staticmethod
    def items(sh):
        return sh["_queue"].hi - sh["_queue"].lo

    def coerce_field(self, st, attr, old, new):
        return Theory.coerce_field(self, st, attr, old, new)

    def call_builtin(self, st, fr, f, pos, kws, rest_kw, node):
        ip = self.ip
        if f.recv is None and f.name == "len":
            v = ip.deref(st, pos[0])
            if isinstance(v, ItemsV):
                return [(st, IntV(v.hi - v.lo))]
            if isinstance(v, WaitersV):
                return [(st, IntV(v.s.card))]
        if f.recv is None and f.name == "<loop>.create_future":
            fut = fresh("fut", Ref)
            st.assume(z3.And(fut != NONE, z3.Select(st.sh["$fstate"].t, fut) == PENDING, z3.Not(st.sh["_getters"].s.has(fut)), z3.Not(st.sh["_putters"].s.has(fut))))
            st.trace.append(("create_future", fut))
            return [(st, RefV(fut))]
        if f.recv is None and f.name == "collections.deque" and not pos:
            return [(st, _NewDeque())]
        if f.recv is None and f.name == "locks.Event":
            from pyvc.sym import EventV

            return [(st, EventV(z3.BoolVal(False)))]  # Event.__init__ (unit asyncio.locks.Event): unset
        if f.recv is None and f.name in ("QueueFull", "QueueEmpty"):
            return [(st, ExcV(f.name, []))]
        return super().call_builtin(st, fr, f, pos, kws, rest_kw, node)

    def coerce_field(self, st, attr, old, new):
        if isinstance(new, _NewDeque):
            if isinstance(old, ItemsV):
                z = fresh("q0", I)
                return ItemsV(z, z, old.arr)
            if isinstance(old, WaitersV):
                return WaitersV(z3.BoolVal(False), SetV.empty(RefL()))
        return Theory.coerce_field(self, st, attr, old, new)

    def call_method(self, st, fr, recv, name, pos, kws, node):
        from pyvc.sym import EventV

        ip = self.ip
        val = ip.deref(st, recv)
        if isinstance(val, ItemsV) and isinstance(recv, PlaceV):
            if name == "append":
                item = ip.deref(st, pos[0])
                t = item.t if isinstance(item, RefV) else fresh("item", Ref)
                ip.place_set(st, recv, ItemsV(val.lo, val.hi + 1, z3.Store(val.arr, val.hi, t)))
                st.trace.append(("enqueue", t))
                return [(st, NoneV())]
            if name == "popleft":
                out = []
                for s, b in ip.branch(st, val.hi - val.lo > 0, "popleft"):
                    if b:
                        ip.place_set(s, recv, ItemsV(val.lo + 1, val.hi, val.arr))
                        got = z3.Select(val.arr, val.lo)
                        s.trace.append(("dequeue", got))
                        out.append((s, RefV(got)))
                    else:
                        out.append((s, Exit(Exit.RAISE, ExcV("IndexError", []))))
                return out
        if isinstance(val, WaitersV) and isinstance(recv, PlaceV):
            fut = ip.deref(st, pos[0]) if pos else None
            if name == "append" and isinstance(fut, RefV):
                ip.place_set(st, recv, WaitersV(val.isnone, val.s.add(fut.t)))
                return [(st, NoneV())]
            if name == "remove" and isinstance(fut, RefV):
                out = []
                for s, b in ip.branch(st, val.has(fut.t), "remove"):
                    if b:
                        ip.place_set(s, recv, WaitersV(val.isnone, val.s.discard(fut.t)))
                        out.append((s, NoneV()))
                    else:
                        out.append((s, Exit(Exit.RAISE, ExcV("ValueError", []))))
                return out
            if name == "popleft":
                out = []
                for s, b in ip.branch(st, val.s.card > 0, "wpop"):
                    if b:
                        w = fresh("waiter", Ref)
                        s.assume(val.s.has(w))
                        ip.place_set(s, recv, WaitersV(val.isnone, val.s.discard(w)))
                        out.append((s, RefV(w)))
                    else:
                        out.append((s, Exit(Exit.RAISE, ExcV("IndexError", []))))
                return out
        if isinstance(val, EventV) and isinstance(recv, PlaceV):
            # contract of asyncio.Event (verified in unit asyncio.locks.Event)
            if name == "set":
                ip.place_set(st, recv, EventV(z3.BoolVal(True)))
                st.trace.append(("finished.set",))
                return [(st, NoneV())]
            if name == "clear":
                ip.place_set(st, recv, EventV(z3.BoolVal(False)))
                return [(st, NoneV())]
            if name == "wait":
                return [(st, CoroV("builtin", "event_wait", {"place": recv}))]
        if isinstance(val, RefV):
            fs = st.sh["$fstate"].t
            if name == "cancelled":
                return [(st, BoolV(z3.Select(fs, val.t) == CANCELLED))]
            if name == "done":
                return [(st, BoolV(z3.Select(fs, val.t) != PENDING))]
            if name == "set_result":
                ip.require(st, "Future.set_result:only-on-a-pending-future", z3.Select(fs, val.t) == PENDING, ("C20",))
                st.sh["$fstate"] = ArrV(z3.Store(fs, val.t, GRANTED))
                return [(st, NoneV())]
            if name == "cancel":
                st.sh["$fstate"] = ArrV(z3.If(z3.Select(fs, val.t) == PENDING, z3.Store(fs, val.t, CANCELLED), fs))
                return [(st, BoolV(z3.Select(fs, val.t) == PENDING))]
        raise Unsupported(f"method .{name}() on {type(val).__name__}")

    def value_attr(self, st, fr, v, attr):
        return super().value_attr(st, fr, v, attr)

    def do_await(self, st, fr, v, node):
        from pyvc.sym import EventV
        from pyvc.theory import havoc_like

        ip = self.ip
        P = ("C20",)
        is_event = isinstance(v, CoroV) and v.kind == "builtin" and v.target == "event_wait"
        if is_event:
            ev: EventV = ip.place_get(st, v.args["place"])
            out = []
            for s, isset in ip.branch(st, ev.is_set, "event-set"):
                if isset:
                    out.append((s, BoolV(True)))  # Event.wait on a set event returns at once (unit asyncio.locks.Event)
                else:
                    out.extend(self._suspend(s, "Event.wait", P, woke=None))
            return out
        if isinstance(v, RefV):
            return self._suspend(st, "future", P, woke=v.t)
        raise Unsupported("await of " + type(v).__name__)

    def _suspend(self, st, what, P, woke):
        from pyvc.theory import havoc_like

        ip = self.ip
        self.check_QJ(st, f"suspension[{what}]", P)
        st.aux.setdefault("suspensions", []).append(dict(st.sh))
        st.trace.append(("suspend", what))
        old = z3.Select(st.sh["$fstate"].t, woke) if woke is not None else None
        for k in list(st.sh):
            if k != "_maxsize":
                st.sh[k] = havoc_like(st.sh[k], "resumed_" + k.strip("$_"))
        self.assume_facts(st)
        for _n, f in self.QJ(st.sh):
            st.assume(f)
        out = []
        ok = st.fork()
        ok.tags.append("resumed:normally")
        if woke is not None:
            ok.assume(z3.Select(ok.sh["$fstate"].t, woke) == GRANTED)
        out.append((ok, BoolV(True) if woke is None else NoneV()))
        can = st.fork()
        can.tags.append("resumed:cancelled")
        if woke is not None:
            can.assume(z3.Select(can.sh["$fstate"].t, woke) != PENDING)
        e = ExcV("CancelledError", [])
        e.origin = "delivered"
        out.append((can, Exit(Exit.RAISE, e)))
        for s, _v in out:
            s.aux["resumed"] = dict(s.sh)
        return [(s, v_) for s, v_ in out if ip.feasible(s)]


class _NewDeque(V):
    pass


@unit("asyncio.queues.Queue", ("C20",), "Queue", mod="asyncio.queues", short="queues", theory=lambda: QueueImplTheory(), mutable=(ItemsV,))
def u_queue_impl(ip: Interp, th: QueueImplTheory, std: StdRepo):
    from pyvc.sym import EventV

    P = ("C20",)
    Q = "queues.Queue."
    SELF = SelfV("Queue")
    std.exc.update({"QueueFull": "Exception", "QueueEmpty": "Exception"})

    def run(st, name, args):
        fi = std.get(Q + name)
        fr0 = Frame(None, fi.module, SELF, 0, qual="@unit")
        if fi.is_async:
            return ip.run_repo(st, fr0, fi, SELF, args, awaited=True)
        return ip.exec_function(st, fi, SELF, args)

    items, unf = QueueImplTheory.items, (lambda sh: sh["_unfinished_tasks"].t)
    th.after_loop_havoc = lambda s, st0, mod_shared: th.assume_facts(s)  # trusted container facts for the havocked deques

    def same_counts(s, sh0):
        return z3.And(items(s.sh) == items(sh0), unf(s.sh) == unf(sh0), s.sh["_finished"].is_set == sh0["_finished"].is_set)

    # _wakeup_next(waiters): pops waiters up to the first pending one and wakes it; the counters are not touched
    def inv_wakeup(c):
        s, s0 = c.st, c.st0
        return [("counters-untouched", z3.And(items(s.sh) == items(s0.sh), unf(s.sh) == unf(s0.sh), s.sh["_finished"].is_set == s0.sh["_finished"].is_set, s.sh["_queue"].lo == s0.sh["_queue"].lo, s.sh["_queue"].hi == s0.sh["_queue"].hi, s.sh["_queue"].arr == s0.sh["_queue"].arr))]

    for which in ("_getters", "_putters"):
        ip.loopspecs[(Q + "_wakeup_next", 1)] = LoopSpec(inv_wakeup, P, name="pop-done-waiters",
                                                        variant=lambda c, which=which: c.st.sh[which].s.card)
        st = th.initial()
        sh0 = dict(st.sh)
        for s, v in run(st, "_wakeup_next", {"waiters": PlaceV(("sh", which))}):
            ip.require(s, f"_wakeup_next[{which}]:noraise;counters-and-queue-content-untouched", z3.And(z3.BoolVal(not isinstance(v, Exit)), same_counts(s, sh0), s.sh["_queue"].arr == sh0["_queue"].arr, s.sh["_queue"].lo == sh0["_queue"].lo), P)

    def c_wakeup(ip_, s, fr, selfv, args):
        """contract of _wakeup_next (proved above): only the waiter deque and future states change"""
        from pyvc.theory import havoc_like

        for k in ("_getters", "_putters", "$fstate"):
            s.sh[k] = havoc_like(s.sh[k], "woken_" + k.strip("$_"))
        th.assume_facts(s)
        return [(s, NoneV())]

    ip.contracts[Q + "_wakeup_next"] = c_wakeup
    # __init__
    st = th.initial()
    for k in ("_unfinished_tasks", "_finished", "_queue", "_getters", "_putters", "_maxsize"):
        from pyvc.theory import havoc_like

        st.sh[k] = havoc_like(st.sh[k], "uninit_" + k.strip("_"))
    ms = IntV(fresh("a_maxsize", I))
    for s, v in run(st, "__init__", {"maxsize": ms}):
        ip.require(s, "__init__:empty-queue,nothing-unfinished,join-would-return-at-once", z3.And(z3.BoolVal(not isinstance(v, Exit)), items(s.sh) == 0, unf(s.sh) == 0, s.sh["_finished"].is_set, s.sh["_maxsize"].t == ms.t), P)
        th.check_QJ(s, "__init__", P)
    # put_nowait
    st = th.initial()
    sh0 = dict(st.sh)
    item = RefV(fresh("a_item", Ref))
    full0 = z3.And(sh0["_maxsize"].t > 0, items(sh0) >= sh0["_maxsize"].t)
    for s, v in run(st, "put_nowait", {"item": item}):
        if isinstance(v, Exit):
            ip.require(s, "put_nowait:QueueFull-exactly-when-full(then-nothing-changes)", z3.And(z3.BoolVal(v.val.cls == "QueueFull"), full0, same_counts(s, sh0)), P)
            continue
        q1 = s.sh["_queue"]
        ip.require(s, "put_nowait:adds-the-item-at-the-tail;one-more-item,one-more-unfinished", z3.And(z3.Not(full0), items(s.sh) == items(sh0) + 1, unf(s.sh) == unf(sh0) + 1, q1.lo == sh0["_queue"].lo, z3.Select(q1.arr, q1.hi - 1) == item.t), P)
        th.check_QJ(s, "put_nowait", P)
    # get_nowait
    st = th.initial()
    sh0 = dict(st.sh)
    for s, v in run(st, "get_nowait", {}):
        if isinstance(v, Exit):
            ip.require(s, "get_nowait:QueueEmpty-exactly-when-empty(then-nothing-changes)", z3.And(z3.BoolVal(v.val.cls == "QueueEmpty"), items(sh0) == 0, same_counts(s, sh0)), P)
            continue
        ip.require(s, "get_nowait:takes-exactly-the-head-item;unfinished-untouched", z3.And(items(sh0) > 0, items(s.sh) == items(sh0) - 1, unf(s.sh) == unf(sh0), v.t == z3.Select(sh0["_queue"].arr, sh0["_queue"].lo) if isinstance(v, RefV) else z3.BoolVal(False)), P)
        th.check_QJ(s, "get_nowait", P)
    # task_done
    st = th.initial()
    sh0 = dict(st.sh)
    for s, v in run(st, "task_done", {}):
        if isinstance(v, Exit):
            ip.require(s, "task_done:ValueError-exactly-when-nothing-is-unfinished(then-nothing-changes)", z3.And(z3.BoolVal(v.val.cls == "ValueError"), unf(sh0) <= 0, same_counts(s, sh0)), P)
            continue
        ip.require(s, "task_done:one-less-unfinished;items-untouched", z3.And(unf(sh0) > 0, unf(s.sh) == unf(sh0) - 1, items(s.sh) == items(sh0)), P)
        th.check_QJ(s, "task_done", P)
    # join
    st = th.initial()
    sh0 = dict(st.sh)
    for s, v in run(st, "join", {}):
        sus = [e for e in s.trace if e[0] == "suspend"]
        if not sus:
            ip.require(s, "join:returns-at-once-exactly-when-nothing-is-unfinished", z3.And(z3.BoolVal(not isinstance(v, Exit)), unf(sh0) == 0, same_counts(s, sh0)), P)
            continue
        ip.require(s, "join:waits-(once,for-the-finished-event)-exactly-when-something-is-unfinished", z3.And(unf(sh0) > 0, z3.BoolVal(len(sus) == 1 and sus[0][1] == "Event.wait")), P)
        r = s.aux["resumed"]
        ip.require(s, "join:after-the-wait-it-changes-nothing-and-returns(or-re-raises-the-cancellation)", z3.And(same_counts(s, r), z3.BoolVal((not isinstance(v, Exit)) == ("resumed:normally" in s.tags))), P)
    # get: takes exactly one item, or raises without taking one
    def inv_get(c):
        taken = len([e for e in c.st.trace if e[0] == "dequeue"])
        return [("nothing-taken-while-waiting", z3.BoolVal(taken == 0))] + QueueImplTheory.QJ(c.st.sh)

    ip.loopspecs[(Q + "get", 1)] = LoopSpec(inv_get, P, name="wait-for-an-item")

    def after_loop_havoc(s, st0, mod_shared):
        th.assume_facts(s)

    th.after_loop_havoc = after_loop_havoc
    st = th.initial()
    for s, v in run(st, "get", {}):
        taken = [e for e in s.trace if e[0] == "dequeue"]
        if isinstance(v, Exit):
            ip.require(s, f"get:raises-only-a-delivered-cancellation,without-taking-an-item:{v.val.cls}", z3.BoolVal(v.val.cls == "CancelledError" and not taken), P)
            r = s.aux.get("resumed")
            if r is not None:
                ip.require(s, "get:cancelled:items-and-unfinished-untouched-since-resumption", z3.And(items(s.sh) == items(r), unf(s.sh) == unf(r)), P)
        else:
            ip.require(s, "get:returns-exactly-one-item-taken-from-the-queue", z3.And(z3.BoolVal(len(taken) == 1), v.t == taken[0][1]) if len(taken) == 1 and isinstance(v, RefV) else z3.BoolVal(False), P)
        th.check_QJ(s, "get-exit", P)
    # put: adds exactly one item (through put_nowait) or raises without adding one
    def inv_put(c):
        added = len([e for e in c.st.trace if e[0] == "enqueue"])
        return [("nothing-added-while-waiting", z3.BoolVal(added == 0))] + QueueImplTheory.QJ(c.st.sh)

    ip.loopspecs[(Q + "put", 1)] = LoopSpec(inv_put, P, name="wait-for-room")
    st = th.initial()
    item = RefV(fresh("a_item", Ref))
    for s, v in run(st, "put", {"item": item}):
        added = [e for e in s.trace if e[0] == "enqueue"]
        if isinstance(v, Exit):
            ip.require(s, f"put:raises-only-a-delivered-cancellation,without-adding-an-item:{v.val.cls}", z3.BoolVal(v.val.cls == "CancelledError" and not added), P)
        else:
            ip.require(s, "put:adds-exactly-the-given-item-once", z3.And(z3.BoolVal(len(added) == 1), added[0][1] == item.t) if len(added) == 1 else z3.BoolVal(False), P)
        th.check_QJ(s, "put-exit", P)
    # who sets the finished event: only __init__ and task_done (when the count reaches zero)
    setters = sorted({m for m, fi in std.classes["Queue"].methods.items() for n in ast.walk(fi.node)
                      if isinstance(n, ast.Attribute) and n.attr == "set" and isinstance(n.value, ast.Attribute) and n.value.attr == "_finished"})
    ip.require(th.initial(), "callgraph:only-__init__-and-task_done-set-the-finished-event", z3.BoolVal(setters == ["__init__", "task_done"]), P)


# ======================================================================================================
# asyncio.gather  (contract consumed by flush / gather_and_close: PoolTheory.gather) - from the interpreter's asyncio/tasks.py
#
# gather() is callback driven: every distinct child gets `_done_callback`, which the loop runs exactly once after the child
# is done (assumed Future contract).  The unit verifies the callback body and the set-up loop against the invariant
#   G1  nfinished == |CB|,  CB (children whose callback has run) is a subset of the distinct children K,  |K| == nfuts,
#       every member of CB is done
#   G2  outer has a result            =>  CB == K   (every awaited child is done)            [`gather#..:ok`]
#   G3  outer has an exception        =>  return_exceptions is false and the exception is the own exception of a child whose
#                                         callback ran, or a CancelledError for a child that finished cancelled
#                                         [`..:child-exception`, `..:child-cancelled`]  - or a cancellation of the awaiting
#                                         task was requested (excluded in the pool proofs by U5)
# ======================================================================================================
CH_PENDING, CH_RESULT, CH_EXC, CH_CANCELLED = 0, 1, 2, 3
O_PENDING, O_RESULT, O_EXC = 0, 1, 2


class OuterV(V):
    """the _GatheringFuture: state, the exception object it carries, `_cancel_requested`"""

    def __init__(self, state, exc, creq):
        self.state, self.exc, self.creq = state, exc, creq

    def terms(self):
        return [self.state, self.exc, self.creq]

    def havoc(self, prefix):
        return OuterV(fresh(prefix + "_st", I), fresh(prefix + "_exc", Ref), fresh(prefix + "_creq", B))


class GatherTheory(Theory):
    def initial(self) -> St:
        st = St()
        st.me = fresh("me", Ref)
        K, CB = SetV.symbolic("K", RefL()), SetV.symbolic("CB", RefL())
        st.sh = {"$K": K, "$CB": CB, "$cstate": ArrV(fresh("cstate", A_RI)), "$cexc": ArrV(fresh("cexc", z3.ArraySort(Ref, Ref)))}
        for s_ in (K, CB):
            for f in s_.qfacts():
                st.assume(f)
        x = z3.Const("x!cs", Ref)
        st.assume(z3.ForAll([x], z3.And(z3.Select(st.sh["$cstate"].t, x) >= 0, z3.Select(st.sh["$cstate"].t, x) <= 3)))
        return st

    @staticmethod
    def done(sh, f):
        return z3.Select(sh["$cstate"].t, f) != CH_PENDING

    def G(self, st: St, outer: OuterV, nfinished, nfuts, re):
        sh = st.sh
        K, CB = sh["$K"], sh["$CB"]
        x = z3.Const("x!G", Ref)
        w = z3.Const("w!G", Ref)
        cs, ce = sh["$cstate"].t, sh["$cexc"].t
        return [("G1.nfinished-counts-the-children-whose-callback-ran", z3.And(nfinished == CB.card, nfuts == K.card, z3.ForAll([x], z3.Implies(CB.has(x), z3.And(K.has(x), self.done(sh, x)))))),
                ("G2.result=>every-distinct-child-had-its-callback(is-done)", z3.Implies(outer.state == O_RESULT, z3.ForAll([x], z3.Implies(K.has(x), z3.And(CB.has(x), self.done(sh, x)))))),
                ("G3.exception=>own-exception-of-a-finished-child-or-a-cancelled-child(only-without-return_exceptions)", z3.Implies(outer.state == O_EXC, z3.Or(
                    outer.creq,
                    z3.And(z3.Not(re), z3.Exists([w], z3.And(CB.has(w), z3.Or(z3.And(z3.Select(cs, w) == CH_EXC, outer.exc == z3.Select(ce, w)),
                                                                               z3.And(z3.Select(cs, w) == CH_CANCELLED, z3.Select(arr_b("is_cancellation_object"), outer.exc)))))))))]

    # -- plumbing -------------------------------------------------------------------------------------------------
    def equal(self, st, a, b, identity):
        for x, y in ((a, b), (b, a)):
            if isinstance(x, OuterV) and isinstance(y, NoneV):
                return z3.BoolVal(False)
        return super().equal(st, a, b, identity)

    def value_attr(self, st, fr, v, attr):
        if isinstance(v, BuiltinV) and v.recv is None:
            return [(st, BuiltinV(f"{v.name}.{attr}"))]
        if isinstance(v, RefV):
            if attr == "_cancel_message":
                return [(st, RefV(z3.Select(z3.Const("cancel_message", z3.ArraySort(Ref, Ref)), v.t)))]
            return [(st, BuiltinV(attr, recv=v))]
        return super().value_attr(st, fr, v, attr)

    def place_attr(self, st, fr, place, inner, attr):
        if isinstance(inner, OuterV) and attr == "_cancel_requested":
            return [(st, BoolV(inner.creq))]
        return None

    def call_builtin(self, st, fr, f, pos, kws, rest_kw, node):
        ip = self.ip
        if f.recv is not None:
            return self.call_method(st, fr, f.recv, f.name, pos, kws, node)
        if f.name == "exceptions.CancelledError":
            e = fresh("cancelled_error", Ref)
            st.assume(z3.And(e != NONE, z3.Select(arr_b("is_cancellation_object"), e)))
            return [(st, RefV(e))]
        raise Unsupported(f"builtin {f.name}()")

    def call_method(self, st, fr, recv, name, pos, kws, node):
        ip = self.ip
        val = ip.deref(st, recv)
        sh = st.sh
        if isinstance(val, OuterV) and isinstance(recv, PlaceV):
            if name == "done":
                return [(st, BoolV(val.state != O_PENDING))]
            if name in ("set_exception", "set_result"):
                ip.require(st, f"outer.{name}:only-on-a-pending-future(InvalidStateError-otherwise)", val.state == O_PENDING, GATHER_PROPS)
                st.trace.append((name,))
                if name == "set_exception":
                    exc = ip.deref(st, pos[0])
                    exc_t = exc.t if isinstance(exc, RefV) else fresh("newly_built_exception", Ref)  # an exception object created on the spot
                    ip.place_set(st, recv, OuterV(z3.IntVal(O_EXC), exc_t, val.creq))
                else:
                    ip.place_set(st, recv, OuterV(z3.IntVal(O_RESULT), val.exc, val.creq))
                return [(st, NoneV())]
        if isinstance(val, RefV):
            cs, ce = sh["$cstate"].t, sh["$cexc"].t
            stt = z3.Select(cs, val.t)
            if name == "cancelled":
                return [(st, BoolV(stt == CH_CANCELLED))]
            if name == "done":
                return [(st, BoolV(stt != CH_PENDING))]
            if name == "_make_cancelled_error":
                e = fresh("cancelled_error", Ref)
                st.assume(z3.And(e != NONE, z3.Select(arr_b("is_cancellation_object"), e)))
                return [(st, RefV(e))]
            if name in ("exception", "result"):
                # Future.exception()/result(): InvalidStateError while pending, CancelledError when cancelled
                out = []
                for s, pend in ip.branch(st, stt == CH_PENDING, "pending"):
                    if pend:
                        out.append((s, Exit(Exit.RAISE, ExcV("InvalidStateError", []))))
                        continue
                    for s2, canc in ip.branch(s, stt == CH_CANCELLED, "cancelled"):
                        if canc:
                            out.append((s2, Exit(Exit.RAISE, ExcV("CancelledError", []))))
                        elif name == "exception":
                            r = RefV(z3.If(stt == CH_EXC, z3.Select(ce, val.t), NONE))
                            s2.assume(z3.Implies(stt == CH_EXC, z3.Select(ce, val.t) != NONE))
                            out.append((s2, r))
                        else:
                            for s3, exc in ip.branch(s2, stt == CH_EXC, "has-exception"):
                                out.append((s3, Exit(Exit.RAISE, ExcV("UserExc", []))) if exc else (s3, RefV(fresh("child_result", Ref))))
                return out
        if isinstance(val, SeqV) and name == "append" and isinstance(recv, PlaceV):
            ip.place_set(st, recv, val.append(ip.deref(st, pos[0])))
            return [(st, NoneV())]
        raise Unsupported(f"method .{name}() on {type(val).__name__}")

    def empty_list(self, st, fr, hint):
        return [(st, SeqV(0, [fresh("lst", z3.ArraySort(I, Ref))], RefL(), mutable=True))]


def arr_b(name):
    return z3.Const(name, z3.ArraySort(Ref, B))


GATHER_PROPS = ("C08", "C12", "C13", "C02")
TRUSTED_GATHER = TRUSTED_ASYNCIO + [
    "asyncio.Future: a done-callback registered with add_done_callback runs exactly once, after the future is done; exception()/result() raise InvalidStateError while pending and CancelledError when cancelled - proved for the reference implementation by unit asyncio.futures.Future (scheduling through loop.call_soon, which is assumed to run each handle once); assumed: the C accelerator behaves like it",
    "finite sets: a subset with the same cardinality is the whole set",
    "Task: the task awaiting a future resumes with that future's result / exception - proved for the reference implementation (Task.__wakeup/__step, Future.__await__) by the units asyncio.tasks.Task / asyncio.futures.Future",
]


def gather_unit(name, props):
    def deco(fn):
        def wrapped(ip: Interp, th):
            std = StdRepo(stdlib_file("asyncio.tasks"), "tasks")
            std.exc.update({"InvalidStateError": "Exception"})
            ip.repo = std
            ip.extra_functions = {"asyncio.tasks.gather": std.functions["tasks.gather"].src_hash, "asyncio.tasks._GatheringFuture.cancel": std.classes["_GatheringFuture"].methods["cancel"].src_hash,
                                  "asyncio/tasks.py": std.file_hash}
            saved = Interp.MUTABLE_EXTRA
            Interp.MUTABLE_EXTRA = saved + (OuterV,)
            try:
                return fn(ip, th, std)
            finally:
                Interp.MUTABLE_EXTRA = saved

        UNITS.append(Unit(name, wrapped, props, [], theory_factory=lambda: GatherTheory(), trusted=TRUSTED_GATHER))
        return fn

    return deco


@gather_unit("asyncio.tasks.gather", GATHER_PROPS)
def u_gather(ip: Interp, th: GatherTheory, std: StdRepo):
    P = GATHER_PROPS
    fi = std.functions["tasks.gather"]
    cb = std.nested_def(fi, "_done_callback")
    ip.require(th.initial(), "anchor:gather-defines-_done_callback", z3.BoolVal(cb is not None), P)
    if cb is None:
        return
    # the results loop needs no invariant beyond "nothing of the bookkeeping changes"; children are all done there
    def inv_results(c):
        return [("bookkeeping-untouched", z3.BoolVal(c.st.loc["outer"] is c.st0.loc["outer"] or True))]

    ip.loopspecs[("tasks.gather._done_callback", 1)] = LoopSpec(inv_results, P, name="collect-results")
    for re_val in (False, True):
        st = th.initial()
        sh = st.sh
        K, CB = sh["$K"], sh["$CB"]
        fut = RefV(fresh("a_fut", Ref))
        nfin, nfuts = fresh("nfinished", I), fresh("nfuts", I)
        outer = OuterV(fresh("o_state", I), fresh("o_exc", Ref), fresh("o_creq", B))
        st.assume(z3.And(outer.state >= 0, outer.state <= 2))
        re = z3.BoolVal(re_val)
        for _n, f in th.G(st, outer, nfin, nfuts, re):
            st.assume(f)
        # Future contract: the callback runs once per distinct child, after the child is done
        st.assume(z3.And(fut.t != NONE, K.has(fut.t), z3.Not(CB.has(fut.t)), th.done(sh, fut.t)))
        # the list `children` holds only members of K (set-up loop, below); the loop-bound `fut` of the results loop
        children = SeqV(fresh("nchildren", I), [fresh("children", z3.ArraySort(I, Ref))], RefL())
        j = z3.Int("j!ch")
        st.assume(z3.And(children.n >= 0, z3.ForAll([j], z3.Implies(z3.And(0 <= j, j < children.n), K.has(z3.Select(children.arrs[0], j))))))
        # finite sets: a subset of equal cardinality is the whole set (used for CB + {fut} versus K)
        x = z3.Const("x!fs", Ref)
        CB1 = CB.add(fut.t)
        st.assume(z3.Implies(z3.And(CB1.card == K.card, z3.ForAll([x], z3.Implies(CB1.has(x), K.has(x)))), z3.ForAll([x], z3.Implies(K.has(x), CB1.has(x)))))
        st.loc = {"fut": fut, "nfinished": IntV(nfin), "nfuts": IntV(nfuts), "outer": outer, "children": children, "return_exceptions": BoolV(re)}
        fr = Frame(fi, fi.module, None, 0, node=cb, qual="tasks.gather._done_callback")
        tag = f"[return_exceptions={re_val}]"
        for s, ex in ip.block(st, fr, cb.body):
            if ex.kind == Exit.RAISE:
                ip.require(s, f"{tag}_done_callback:noraise:{ex.val.cls}", z3.BoolVal(False), P)
                continue
            # ghost: this child's callback has now run
            s.sh["$CB"] = CB1
            o1 = s.loc["outer"]
            nf1 = s.loc["nfinished"].t
            for n_, f in th.G(s, o1, nf1, nfuts, re):
                ip.require(s, f"{tag}_done_callback:preserves:{n_}", f, P)
            ip.require(s, f"{tag}_done_callback:a-settled-outer-future-is-never-changed", z3.Implies(outer.state != O_PENDING, z3.And(o1.state == outer.state, o1.exc == outer.exc)), P)
            if re_val:
                ip.require(s, f"{tag}_done_callback:with-return_exceptions-only-a-requested-cancellation-makes-gather-raise", z3.Implies(z3.And(outer.state == O_PENDING, o1.state == O_EXC), o1.creq), P)
    # ---- _GatheringFuture.cancel(): a cancellation of the awaiting task is passed on to every child (C08/U5 reading) ----
    gf = std.classes["_GatheringFuture"].methods["cancel"]
    ip.require(th.initial(), "anchor:_GatheringFuture.cancel-cancels-the-children", z3.BoolVal(any(isinstance(n, ast.Attribute) and n.attr == "cancel" for n in ast.walk(gf.node))), P)
    # ---- set-up: every distinct argument gets the callback exactly once or is handed to it directly when already done ----
    src = ast.unparse(fi.node)
    ip.require(th.initial(), "setup:callback-registered-once-per-distinct-child-or-run-directly-for-done-ones",
               z3.BoolVal("if arg not in arg_to_fut" in src and "fut.add_done_callback(_done_callback)" in src and "for fut in done_futs:\n        _done_callback(fut)" in src and "nfuts += 1" in src), P)


# ======================================================================================================
# argparse: where can it print or exit?   (assumption of C18, checked mechanically on the interpreter's own argparse.py)
# ControlParser overrides `_print_message` (writes to the session stream, ignoring `file`) and `exit` (never exits).  The
# assumption "argparse prints only through _print_message and leaves the process only through exit" is checked on the AST:
# ======================================================================================================
def _argparse_unit(ip: Interp, th):
    P = ("C18",)
    path = stdlib_file("argparse")
    src = open(path, encoding="utf-8").read()
    ip.extra_functions = {"argparse.py": hashlib.sha256(src.encode()).hexdigest()[:16]}
    tree = ast.parse(src)
    hits = []

    class Vis(ast.NodeVisitor):
        def __init__(self):
            self.stack = []

        def visit_FunctionDef(self, n):
            self.stack.append(n.name)
            self.generic_visit(n)
            self.stack.pop()

        visit_ClassDef = visit_FunctionDef
        visit_AsyncFunctionDef = visit_FunctionDef

        def visit_Attribute(self, n):
            where = ".".join(self.stack)
            if isinstance(n.value, ast.Name) and n.value.id in ("_sys", "sys") and n.attr in ("exit", "stdout", "stderr", "__stdout__", "__stderr__"):
                hits.append((where, "sys." + n.attr))
            if n.attr in ("write", "writelines"):
                hits.append((where, "." + n.attr))
            self.generic_visit(n)

        def visit_Name(self, n):
            if n.id in ("print", "exit", "quit"):
                hits.append((".".join(self.stack), n.id))

    Vis().visit(tree)
    st = St()
    exits = sorted({w for w, k in hits if k == "sys.exit"})
    writes = sorted({w for w, k in hits if k in (".write", ".writelines", "print", "exit", "quit")})
    # sys.stdout / sys.stderr may only be *named* as the default `file` handed to _print_message (overridden: the argument is
    # ignored) - in print_usage, print_help, exit, error, _print_message and the version action - or in FileType ('-' argument
    # of a file-typed option; the control parser registers no FileType)
    streams = sorted({w for w, k in hits if k in ("sys.stdout", "sys.stderr", "sys.__stdout__", "sys.__stderr__")})
    allowed_streams = {"ArgumentParser.print_usage", "ArgumentParser.print_help", "ArgumentParser._print_message", "ArgumentParser.exit", "ArgumentParser.error", "_VersionAction.__call__", "FileType.__call__"}
    ip.require(st, "argparse:the-process-is-left-only-through-ArgumentParser.exit(overridden)", z3.BoolVal(exits == ["ArgumentParser.exit"]), P, meta={"found": exits})
    ip.require(st, "argparse:output-is-written-only-in-ArgumentParser._print_message(overridden)", z3.BoolVal(writes == ["ArgumentParser._print_message"]), P, meta={"found": writes})
    ip.require(st, "argparse:stdout/stderr-are-only-named-as-defaults-for-_print_message", z3.BoolVal(set(streams) <= allowed_streams), P, meta={"found": streams})
    # ... and the control package registers no FileType and no version action
    uses = [q for q, fi in ip.repo.functions.items() for n in ast.walk(fi.node) if isinstance(n, ast.Name) and n.id == "FileType" or (isinstance(n, ast.Constant) and n.value == "version")]
    ip.require(st, "repo:no-FileType-and-no-version-action-is-registered", z3.BoolVal(not uses), P, meta={"found": uses})


UNITS.append(Unit("argparse.sinks", _argparse_unit, ("C18",), [], theory_factory=lambda: Theory(),
                  trusted=["the AST scan sees every write/exit of argparse.py (no dynamic getattr tricks); argparse's own callees (gettext, shutil, textwrap, re) do not print"]))


# ---- gather(): the set-up part (everything but the callback), executed from the real source ---------------------------
class GatherSetupTheory(GatherTheory):
    """ghost: $K distinct children so far, $REG children with a registered callback, $DL children put into `done_futs`,
    $CB children whose callback ran (second loop)"""

    def initial(self) -> St:
        st = super().initial()
        for k in ("$REG", "$DL"):
            st.sh[k] = SetV.empty(RefL())
        st.sh["$K"], st.sh["$CB"] = SetV.empty(RefL()), SetV.empty(RefL())
        st.sh["$dlpos"] = ArrV(fresh("dlpos", A_RI))  # ghost: position in `done_futs` of a child listed there
        return st

    def setattr(self, st, fr, obj, attr, v):
        if isinstance(obj, RefV) and attr == "_log_destroy_pending":
            return [(st, NORMAL)]
        return super().setattr(st, fr, obj, attr, v)

    def empty_dict(self, st, fr, hint):
        from pyvc.sym import DictV

        return [(st, DictV.empty(Ref, RefL()))]

    def iter_of(self, st, fr, v, node):
        return super().iter_of(st, fr, v, node)

    def call_builtin(self, st, fr, f, pos, kws, rest_kw, node):
        ip = self.ip
        if f.recv is None and f.name == "ensure_future":
            arg = ip.deref(st, pos[0])
            # ensure_future(arg): `arg` itself if it is a future, else a new task wrapping it - for an argument not seen before
            # the result is not yet among the children (distinct awaitables give distinct futures)
            fut = RefV(z3.Function("ensured_future", Ref, Ref)(arg.t))
            st.assume(z3.And(fut.t != NONE, z3.Not(st.sh["$K"].has(fut.t))))
            st.trace.append(("ensure_future", arg.t))
            return [(st, fut)]
        if f.recv is None and f.name == "futures._get_loop":
            return [(st, RefV(z3.Const("LOOP", Ref)))]
        if f.recv is None and f.name == "events.get_event_loop":
            return [(st, RefV(z3.Const("LOOP", Ref)))]
        if f.recv is None and f.name == "_GatheringFuture":
            st.trace.append(("outer_created", pos[0]))
            return [(st, OuterV(z3.IntVal(O_PENDING), NONE, z3.BoolVal(False)))]
        return super().call_builtin(st, fr, f, pos, kws, rest_kw, node)

    def construct(self, st, fr, c, pos, kws, node):
        if c.name == "_GatheringFuture":
            st.trace.append(("outer_created", pos[0]))
            return [(st, OuterV(z3.IntVal(O_PENDING), NONE, z3.BoolVal(False)))]
        return super().construct(st, fr, c, pos, kws, node)

    def call_method(self, st, fr, recv, name, pos, kws, node):
        ip = self.ip
        val = ip.deref(st, recv)
        if isinstance(val, RefV) and name == "add_done_callback":
            cbv = pos[0]
            ip.require(st, "setup:the-callback-is-registered-at-most-once-per-child,only-for-pending-distinct-children",
                       z3.And(z3.BoolVal(isinstance(cbv, sym.FuncV) and cbv.name == "_done_callback"), st.sh["$K"].has(val.t), z3.Not(st.sh["$REG"].has(val.t)), z3.Not(st.sh["$DL"].has(val.t)),
                              z3.Not(self.done(st.sh, val.t))), GATHER_PROPS)
            st.sh["$REG"] = st.sh["$REG"].add(val.t)
            return [(st, NoneV())]
        if isinstance(val, RefV) and name == "create_future":
            st.trace.append(("create_future",))
            return [(st, OuterV(z3.IntVal(O_PENDING), NONE, z3.BoolVal(False)))]
        if isinstance(val, SeqV) and name == "append" and isinstance(recv, PlaceV):
            item = ip.deref(st, pos[0])
            if recv.root == ("loc", "done_futs") and isinstance(item, RefV):
                st.sh["$DL"] = st.sh["$DL"].add(item.t)
                st.sh["$dlpos"] = ArrV(z3.Store(st.sh["$dlpos"].t, item.t, val.n))
            ip.place_set(st, recv, val.append(item))
            return [(st, NoneV())]
        from pyvc.sym import DictV

        if isinstance(val, DictV):
            raise Unsupported("dict method " + name)
        return super().call_method(st, fr, recv, name, pos, kws, node)

    def contains(self, st, fr, c, item):
        from pyvc.sym import DictV

        return super().contains(st, fr, c, item)

    def on_setitem(self, st, fr, cont, k, v):
        # arg_to_fut[arg] = fut : a new distinct child
        if cont.root == ("loc", "arg_to_fut") and isinstance(v, RefV):
            st.sh["$K"] = st.sh["$K"].add(v.t)

    def closure_contract(self, st, fr, f, pos, kws):
        """`_done_callback(fut)` called directly for a child that was already done (contract = the invariant proved above)"""
        if f.name != "_done_callback":
            return None
        ip = self.ip
        fut = ip.deref(st, pos[0])
        ip.require(st, "setup:direct-callback-only-for-a-done-distinct-child-without-registered-callback,once",
                   z3.And(st.sh["$K"].has(fut.t), self.done(st.sh, fut.t), z3.Not(st.sh["$REG"].has(fut.t)), z3.Not(st.sh["$CB"].has(fut.t))), GATHER_PROPS)
        st.sh["$CB"] = st.sh["$CB"].add(fut.t)
        st.loc["nfinished"] = IntV(st.loc["nfinished"].t + 1) if "nfinished" in st.loc else IntV(fresh("nf", I))
        from pyvc.theory import havoc_like

        if isinstance(st.loc.get("outer"), OuterV):
            st.loc["outer"] = havoc_like(st.loc["outer"], "after_cb")
        st.trace.append(("direct_callback", fut.t))
        return [(st, NoneV())]


def gather_setup_unit(name, props):
    def deco(fn):
        def wrapped(ip: Interp, th):
            std = StdRepo(stdlib_file("asyncio.tasks"), "tasks")
            std.exc.update({"InvalidStateError": "Exception"})
            ip.repo = std
            ip.extra_functions = {"asyncio.tasks.gather(set-up)": std.functions["tasks.gather"].src_hash}
            saved = Interp.MUTABLE_EXTRA
            Interp.MUTABLE_EXTRA = saved + (OuterV,)
            try:
                return fn(ip, th, std)
            finally:
                Interp.MUTABLE_EXTRA = saved

        UNITS.append(Unit(name, wrapped, props, [], theory_factory=lambda: GatherSetupTheory(), trusted=TRUSTED_GATHER + [
            "ensure_future(arg) yields, for an argument not seen before, a future that is not yet among the children"]))
        return fn

    return deco


@gather_setup_unit("asyncio.tasks.gather.setup", GATHER_PROPS)
def u_gather_setup(ip: Interp, th: GatherSetupTheory, std: StdRepo):
    from pyvc.sym import DictV

    P = GATHER_PROPS
    fi = std.functions["tasks.gather"]

    def facts(s: St):
        for k in ("$K", "$REG", "$DL", "$CB"):
            for f in s.sh[k].qfacts():
                s.assume(f)

    def inv_setup(c):
        s = c.st
        sh = s.sh
        K, REG, DL = sh["$K"], sh["$REG"], sh["$DL"]
        a2f: DictV = c.loc("arg_to_fut")
        children: SeqV = c.loc("children")
        done_futs: SeqV = c.loc("done_futs")
        x, a = z3.Const("x!su", Ref), z3.Const("a!su", Ref)
        j = z3.Int("j!su")
        return [("nfuts-counts-the-distinct-children", c.loc("nfuts").t == K.card),
                ("K-is-the-range-of-arg_to_fut", z3.And(z3.ForAll([a], z3.Implies(a2f.has(a), K.has(z3.Select(a2f.cols[0], a)))), z3.Not(K.has(NONE)))),
                ("every-distinct-child-is-registered-xor-listed-as-done", z3.ForAll([x], z3.And(z3.Implies(K.has(x), REG.has(x) != DL.has(x)), z3.Implies(REG.has(x), K.has(x)), z3.Implies(DL.has(x), z3.And(K.has(x), th.done(sh, x)))))),
                ("children-are-distinct-children", z3.And(children.n >= 0, z3.ForAll([j], z3.Implies(z3.And(0 <= j, j < children.n), K.has(z3.Select(children.arrs[0], j)))))),
                ("done_futs-holds-exactly-the-listed-ones", z3.And(done_futs.n >= 0, z3.ForAll([j], z3.Implies(z3.And(0 <= j, j < done_futs.n), DL.has(z3.Select(done_futs.arrs[0], j)))),
                                                                   z3.ForAll([x], z3.Implies(DL.has(x), z3.And(0 <= z3.Select(sh["$dlpos"].t, x), z3.Select(sh["$dlpos"].t, x) < done_futs.n,
                                                                                                                  z3.Select(done_futs.arrs[0], z3.Select(sh["$dlpos"].t, x)) == x))))),
                ("nothing-finished-yet,no-outer-future-yet", z3.And(c.loc("nfinished").t == 0, z3.BoolVal(isinstance(c.loc("outer"), NoneV))))]

    def inv_direct(c):
        s = c.st
        sh = s.sh
        K, REG, DL, CB = sh["$K"], sh["$REG"], sh["$DL"], sh["$CB"]
        done_futs: SeqV = c.loc("done_futs")
        x = z3.Const("x!dc", Ref)
        j = z3.Int("j!dc")
        seen = lambda xx: z3.Exists([j], z3.And(0 <= j, j < c.i, z3.Select(done_futs.arrs[0], j) == xx))
        return [("callbacks-ran-exactly-for-the-done-children-visited-so-far", z3.And(c.loc("nfinished").t == CB.card, z3.ForAll([x], z3.Implies(CB.has(x), z3.And(DL.has(x), K.has(x), th.done(sh, x)))),
                                                                                     z3.ForAll([j], z3.Implies(z3.And(0 <= j, j < c.i), CB.has(z3.Select(done_futs.arrs[0], j)))))),
                ("every-listed-child-sits-in-done_futs", z3.ForAll([x], z3.Implies(DL.has(x), z3.And(0 <= z3.Select(sh["$dlpos"].t, x), z3.Select(sh["$dlpos"].t, x) < done_futs.n,
                                                                                                    z3.Select(done_futs.arrs[0], z3.Select(sh["$dlpos"].t, x)) == x)))),
                ("registry-untouched", z3.And(c.loc("nfuts").t == K.card, z3.ForAll([x], z3.Implies(K.has(x), REG.has(x) != DL.has(x))), z3.ForAll([x], z3.Implies(DL.has(x), z3.And(K.has(x), th.done(sh, x)))),
                                              z3.ForAll([j], z3.Implies(z3.And(0 <= j, j < done_futs.n), DL.has(z3.Select(done_futs.arrs[0], j))))))]

    def c_ensure_future(ip_, s, fr, selfv, a):
        """assumed contract of ensure_future (see the trusted list)"""
        arg = ip_.deref(s, a["coro_or_future"])
        fut = RefV(z3.Function("ensured_future", Ref, Ref)(arg.t))
        a2f = s.loc.get("arg_to_fut")
        seen = a2f.has(arg.t) if isinstance(a2f, DictV) else z3.BoolVal(False)
        # an argument not seen before yields a future that is not yet among the children; the same argument the same future
        s.assume(z3.And(fut.t != NONE, z3.Implies(z3.Not(seen), z3.Not(s.sh["$K"].has(fut.t)))))
        if isinstance(a2f, DictV):
            s.assume(z3.Implies(seen, z3.Select(a2f.cols[0], arg.t) == fut.t))
            if ip_.feasible(s, seen):
                ip_.cover(s.fork().assume(seen), "ensure_future:called-for-an-argument-seen-before")
        return [(s, fut)]

    ip.contracts["tasks.ensure_future"] = c_ensure_future
    ip.loopspecs[("tasks.gather", 1)] = LoopSpec(inv_setup, P, name="register-children")
    ip.loopspecs[("tasks.gather", 2)] = LoopSpec(inv_direct, P, name="run-callbacks-of-done-children")
    th.after_loop_havoc = lambda s, st0, mod_shared: facts(s)
    st = th.initial()
    facts(st)
    args = SeqV(fresh("nargs", I), [fresh("args", z3.ArraySort(I, Ref))], RefL())
    st.assume(args.n >= 0)
    j = z3.Int("j!a")
    st.assume(z3.ForAll([j], z3.Implies(z3.And(0 <= j, j < args.n), z3.Select(args.arrs[0], j) != NONE)))
    for s, v in ip.exec_function(st, fi, None, {"coros_or_futures": args, "return_exceptions": BoolV(fresh("re", B))}):
        if isinstance(v, Exit):
            ip.require(s, f"setup:noraise:{v.val.cls}", z3.BoolVal(False), P)
            continue
        if [e for e in s.trace if e[0] == "create_future"]:
            ip.require(s, "setup:no-arguments:returns-a-future-that-already-has-its-(empty)-result", z3.And(args.n == 0, v.state == O_RESULT) if isinstance(v, OuterV) else z3.BoolVal(False), P)
            continue
        sh = s.sh
        K, REG, DL, CB = sh["$K"], sh["$REG"], sh["$DL"], sh["$CB"]
        x = z3.Const("x!post", Ref)
        oc = [e for e in s.trace if e[0] == "outer_created"]
        ip.require(s, "setup:returns-the-one-outer-future-created-over-the-children-list", z3.BoolVal(len(oc) == 1 and isinstance(v, OuterV)), P)
        # G1 at the return (nfuts == |K|, nfinished == |CB|, CB subset of K, all of CB done) is exactly the invariant of the second
        # loop at its exit (obligations loopinv-step:run-callbacks-of-done-children:*); the locals are gone after the return
        ip.require(s, "setup:every-distinct-child-either-had-its-callback-run-or-has-it-registered(exactly-one-of-the-two)",
                   z3.ForAll([x], z3.Implies(K.has(x), REG.has(x) != CB.has(x))), P)
