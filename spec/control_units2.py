"""Verification units (2) for the control package: the registration chain that turns a pool class into commands
(parser._get_type_from_annotation, ControlParser.add_function_arg / add_function_args / add_function_command /
add_property_command), the session's handshake and constructor, and the server glue
(ControlServer._client_connected_cb / _serve_forever / serve_forever / is_serving, UnixControlServer._final_callback).

Precondition chain (modular, each link is an obligation at the call site of the next):
    _get_arg_type_wrapper(cls)            requires  cls has a __name__
    _get_type_from_annotation(a)          requires  a is one of the typing aliases, or has a __name__      =: conv_ok(a)
    add_function_arg(p, ...)              requires  p becomes a store_true flag, or conv_ok(p.annotation)  =: arg_ok(p)
    add_function_args(f, omit)            requires  arg_ok(p) for every parameter p of f not in omit       =: sig_ok(f, omit)
    add_function_command(f, omit)         requires  sig_ok(f, omit)                                        =: cmd_ok(f)
    add_property_command(prop)            requires  prop has no setter or arg_ok(value parameter)          =: cmd_ok(prop)
    add_class_commands(cls)               requires  cmd_ok(m) for every exposed member m of cls            =: surface_ok(cls)
    client_handshake()                    requires  surface_ok(type(pool))
The last link is not a property of the session code but of the pool classes: it is decided mechanically from the real
source of pool.py (postponed annotations make every annotation a `str`, which has no __name__) - that obligation is the
deductive face of the known finding F6; the exhaustive enumeration (replay/control_enum.py) decides the same chain
concretely for the two shipped classes."""
from __future__ import annotations

import ast as _ast
from typing import List

import z3

from pyvc import sym
from pyvc.interp import NORMAL, ExcV, Exit, Frame, Interp, LoopSpec, SelfV, St
from pyvc.run import Unit
from pyvc.sym import (B, I, NONE, S, BoolV, BuiltinV, BytesV, ClassV, CoroV, DictV, FuncV, IntV, KwV, NoneV, PlaceV, Ref, RefL, RefV, SeqV, SetV, StarV, StrL,
                      StrV, TupleV, Unsupported, V, fresh)

from .control_theory import (A_RB, BOOL_T, EMPTY, KINDS, PARAM_EMPTY, BufV, ControlTheory, EncodedV, LineV, ParamV, SigV, SigValuesV, TRUSTED_CONTROL, arr, bufcat,
                             str_of)
from .control_units import PAR, SES, calls, install_session_hooks, run_async, writes

UNITS: List[Unit] = []
SRV = "server.ControlServer."

TRUSTED2 = TRUSTED_CONTROL + [
    "argparse: ArgumentParser.add_argument registers what it is given (dest from the first long flag / the positional name; `type`, `default`, `nargs`, `action` as documented); _SubParsersAction.add_parser(**kw) returns a parser of the parent's class built from kw",
    "json.loads returns the decoded object or raises ValueError; inspect.getdoc is pure",
    "typing: each alias (AnyCoroutineFunc, EndCB, CancelCB, ArgsT, KwArgsT, Iterable[ArgsT], Iterable[KwArgsT]) is one object, pairwise distinct, distinct from every class with a __name__ that is passed as an annotation",
    "asyncio.Server: `async with server` enters/leaves without side effect on the repo's objects; start_server/serve_forever as documented (C19 is not claimed)",
]


def unit(name, props, functions):
    def deco(fn):
        def wrapped(ip, th):
            saved = Interp.MUTABLE_EXTRA
            Interp.MUTABLE_EXTRA = saved + (KwV,)  # a **kwargs dictionary held in a local is updated in place (setdefault/pop)
            try:
                return fn(ip, th)
            finally:
                Interp.MUTABLE_EXTRA = saved

        UNITS.append(Unit(name, wrapped, props, functions, theory_factory=ControlTheory, trusted=TRUSTED2))
        return fn

    return deco


# ------------------------------------------------------------------------------------------------------
# shared vocabulary
# ------------------------------------------------------------------------------------------------------
CALLABLE_ALIASES = ("AnyCoroutineFunc", "EndCB", "CancelCB")
ITER_ALIASES = ("ArgsT", "KwArgsT")
ALIAS = {n: z3.Const("typing:" + n, Ref) for n in CALLABLE_ALIASES + ITER_ALIASES}
ITERABLE_OF = z3.Function("typing_Iterable", Ref, Ref)
HAS_NAME = arr("has___name__")
SUPPRESS = z3.Const("SUPPRESS", Ref)
conv_of = z3.Function("converter_of_annotation", Ref, Ref)  # what _get_type_from_annotation returns for an annotation
STORE_TRUE = sym.str_lit("store_true")


def alias_terms():
    return [ALIAS[n] for n in CALLABLE_ALIASES] + [ALIAS[n] for n in ITER_ALIASES] + [ITERABLE_OF(ALIAS["ArgsT"]), ITERABLE_OF(ALIAS["KwArgsT"])]


def is_callable_alias(a):
    return z3.Or([a == ALIAS[n] for n in CALLABLE_ALIASES])


def is_iter_alias(a):
    return z3.Or([a == ALIAS[n] for n in ITER_ALIASES] + [a == ITERABLE_OF(ALIAS["ArgsT"]), a == ITERABLE_OF(ALIAS["KwArgsT"])])


def conv_ok(a):
    """precondition of _get_type_from_annotation"""
    return z3.Or(is_callable_alias(a), is_iter_alias(a), z3.And(a != NONE, z3.Select(HAS_NAME, a)))


def arg_ok(default_t, annot_t, preset_store_true=False):
    """precondition of add_function_arg: the parameter becomes a store_true flag (no converter needed) or its annotation
    is convertible"""
    flag = z3.And(default_t != PARAM_EMPTY, annot_t == BOOL_T)
    return z3.Or(z3.BoolVal(preset_store_true), flag, conv_ok(annot_t))


def install_aliases(ip: Interp, st: St) -> None:
    for n, c in ALIAS.items():
        ip.consts[n] = RefV(c)
    ip.consts["SUPPRESS"] = RefV(SUPPRESS)
    terms = alias_terms() + [BOOL_T, PARAM_EMPTY, SUPPRESS]
    st.assume(z3.Distinct(*terms))
    st.assume(z3.And([t != NONE for t in terms]))
    # the typing aliases are not classes: none of them is `bool`; `bool` has a __name__
    st.assume(z3.Select(HAS_NAME, BOOL_T))


def parser_self(st: St) -> None:
    """fields of a ControlParser instance (ControlParser.__init__ sets exactly these)"""
    flags = SetV.symbolic("flags", StrL())
    for f in flags.qfacts():
        st.assume(f)
    st.sh = {"_stream": BufV(fresh("stream0", S)), "_terminal_width": IntV(fresh("tw", I)), "_flags": flags, "_commands": RefV(fresh("commands", Ref))}


# ======================================================================================================
# parser._get_type_from_annotation      (C17: dotted-path functions, Python-literal containers, plain types)
# ======================================================================================================
@unit("parser._get_type_from_annotation", ("C17", "C16"), ["parser._get_type_from_annotation"])
def u_type_from_annotation(ip: Interp, th: ControlTheory):
    P = ("C17",)
    st = th.initial()
    install_aliases(ip, st)
    a = RefV(fresh("a_annotation", Ref))
    st.assume(conv_ok(a.t))  # the function's own precondition

    def c_wrapper(ip_, s, fr, selfv, args):
        """contract of _get_arg_type_wrapper (unit parser._get_arg_type_wrapper): requires a named callable"""
        cls_ = args["cls"]
        named = z3.BoolVal(True) if isinstance(cls_, (FuncV, BuiltinV)) else (z3.And(cls_.t != NONE, z3.Select(HAS_NAME, cls_.t)) if isinstance(cls_, RefV) else z3.BoolVal(False))
        ip_.require(s, "pre:_get_arg_type_wrapper:converter-has-a-__name__", named, ("C16", "C17"))
        s.trace.append(("wrap", cls_))
        r = RefV(fresh("converter", Ref))
        s.assume(r.t != NONE)
        return [(s, r)]

    ip.contracts["parser._get_arg_type_wrapper"] = c_wrapper
    fi = ip.repo.get("parser._get_type_from_annotation")
    for s, v in ip.exec_function(st, fi, None, {"annotation": a}):
        if isinstance(v, Exit):
            ip.require(s, f"noraise:{v.val.cls}", z3.BoolVal(False), P + ("C16",))
            continue
        wraps = [e for e in s.trace if e[0] == "wrap"]
        ip.require(s, "post:wraps-exactly-one-converter-and-returns-the-wrapper", z3.BoolVal(len(wraps) == 1 and isinstance(v, RefV)), P)
        if len(wraps) != 1:
            continue
        tgt = wraps[0][1]
        is_rdp = isinstance(tgt, FuncV) and tgt.finfo is not None and tgt.finfo.qualname == "helpers.resolve_dotted_path"
        is_le = isinstance(tgt, BuiltinV) and tgt.name == "literal_eval"
        if is_rdp:
            ip.require(s, "post:callable-annotations-are-resolved-from-a-dotted-path", is_callable_alias(a.t), P)
        elif is_le:
            ip.require(s, "post:container-annotations-are-evaluated-as-Python-literals", z3.And(is_iter_alias(a.t), z3.Not(is_callable_alias(a.t))), P)
        elif isinstance(tgt, RefV):
            ip.require(s, "post:any-other-annotation-converts-by-itself", z3.And(tgt.t == a.t, z3.Not(is_callable_alias(a.t)), z3.Not(is_iter_alias(a.t))), P)
        else:
            ip.require(s, "post:converter-shape", z3.BoolVal(False), P)
    if not ip.feasible(st):  # vacuity guard: the assumed precondition must be satisfiable
        raise Unsupported("vacuous precondition in unit parser._get_type_from_annotation")


def c_type_from_annotation(ip_: Interp, s: St, fr, selfv, args):
    """contract of _get_type_from_annotation (unit above)"""
    a = args["annotation"]
    ok = conv_ok(a.t) if isinstance(a, RefV) else z3.BoolVal(False)
    ip_.require(s, "pre:_get_type_from_annotation:annotation-is-convertible(alias-or-named-type)", ok, ("C16", "C17"))
    s.trace.append(("type_from_annotation", a))
    r = RefV(conv_of(a.t)) if isinstance(a, RefV) else RefV(fresh("conv", Ref))
    return [(s, r)]


# ======================================================================================================
# ControlParser.add_function_arg      (C17: positional iff no default, flags, store_true, *args, defaults, converter)
# ======================================================================================================
def dash_name(name_t):
    return sym.str_concat(["--", StrV(z3.Function("str_replace_us_dash", S, S)(name_t))]).t


def short_flag(letter_t):
    return sym.str_concat(["-", StrV(letter_t)]).t


FIRST = z3.Function("str_first_char", S, S)
UPPER = z3.Function("str_upper", S, S)


@unit(PAR + "add_function_arg", ("C17", "C16"), [PAR + "add_function_arg"])
def u_add_function_arg(ip: Interp, th: ControlTheory):
    P = ("C17",)
    ip.contracts["parser._get_type_from_annotation"] = c_type_from_annotation
    fi = ip.repo.get(PAR + "add_function_arg")

    def add_argument(st, fr, pos, kws, node):
        st.trace.append(("add_argument", list(pos), dict(kws)))
        r = RefV(fresh("action", Ref))
        st.assume(r.t != NONE)
        return [(st, r)]

    th.hooks["self.add_argument"] = add_argument
    variants = {
        "plain": lambda: {},
        "with-help": lambda: {"help": StrV(fresh("a_help", S))},
        "property-value": lambda: {"nargs": StrV("?"), "default": RefV(SUPPRESS), "help": StrV(fresh("a_help", S))},
        "preset-store_true": lambda: {"action": StrV("store_true")},
    }
    for vname, mk in variants.items():
        st = th.initial()
        install_aliases(ip, st)
        parser_self(st)
        flags0: SetV = st.sh["_flags"]
        name_t, kind_t = fresh("a_pname", S), fresh("a_pkind", I)
        p = ParamV(name_t, kind_t, fresh("a_pdefault", Ref), fresh("a_pannotation", Ref))
        st.assume(z3.And(kind_t >= 0, kind_t <= 4))
        kw0 = mk()
        st.assume(arg_ok(p.default_t, p.annot_t, preset_store_true=(vname == "preset-store_true")))  # precondition
        letter = FIRST(name_t)
        H = sym.str_lit("h")
        xs = z3.Const("x!up", S)
        st.assume(z3.ForAll([xs], UPPER(xs) != H))  # trusted string fact: an upper-cased string is never the lower-case "h"
        for s, v in ip.exec_function(st, fi, SelfV("ControlParser"), {"parameter": p, "kwargs": KwV(dict(kw0))}):
            tag = f"[{vname}]"
            if isinstance(v, Exit):
                ip.require(s, f"{tag}noraise:{v.val.cls}", z3.BoolVal(False), P + ("C16",))
                continue
            adds = [e for e in s.trace if e[0] == "add_argument"]
            ok_shape = len(adds) == 1 and len(adds[0][1]) == 1 and isinstance(adds[0][1][0], StarV) and isinstance(ip.deref(s, adds[0][1][0].v), TupleV)
            ip.require(s, f"{tag}post:registers-exactly-one-argument-and-returns-it", z3.BoolVal(ok_shape and isinstance(v, RefV)), P)
            if not ok_shape:
                continue
            names = ip.deref(s, adds[0][1][0].v).items
            kws = adds[0][2]
            flags1: SetV = s.sh["_flags"]
            x = z3.Const("x!flag", S)
            has_default = p.default_t != PARAM_EMPTY
            if not all(isinstance(n, StrV) for n in names):
                ip.require(s, f"{tag}post:names-are-strings", z3.BoolVal(False), P)
                continue
            if len(names) == 1:
                # positional (no default) or long option only (both letters taken)
                ip.require(s, f"{tag}post:positional-iff-no-default-else---long-name-with-dashes(no-short-flag-only-if-none-is-free)",
                           z3.If(has_default, z3.And(names[0].t == dash_name(name_t), z3.Or(flags0.has(letter), letter == H), flags0.has(UPPER(letter))), names[0].t == name_t), P)
                ip.require(s, f"{tag}frame:flag-letters-unchanged", z3.ForAll([x], flags1.has(x) == flags0.has(x)), P)
            elif len(names) == 2:
                L = z3.If(z3.Or(flags0.has(letter), letter == H), UPPER(letter), letter)
                ip.require(s, f"{tag}post:option-has-a-fresh-short-flag-and-the---long-name-with-dashes",
                           z3.And(has_default, names[1].t == dash_name(name_t), names[0].t == short_flag(L), z3.Not(flags0.has(L))), P)
                ip.require(s, f"{tag}post:the-short-flag-letter-is-now-taken(and-nothing-else-changed)", z3.ForAll([x], flags1.has(x) == z3.Or(flags0.has(x), x == L)), P)
                # every sub-parser has argparse's automatic `-h/--help`: a second `-h` makes add_argument raise ArgumentError
                # (conflicting option string), add_class_commands fails and with it the handshake
                ip.require(s, f"{tag}post:the-short-flag-never-collides-with-the-help-flag(-h)", z3.And(L != H, names[0].t == short_flag(L)), ("C16",))
            else:
                ip.require(s, f"{tag}post:one-or-two-names", z3.BoolVal(False), P)
            # keyword arguments handed to argparse
            action = kws.get("action")
            is_flag = isinstance(action, StrV) and action.lit == "store_true"
            if vname != "preset-store_true":
                ip.require(s, f"{tag}post:bool-option-becomes-a-store_true-flag(only-then)", z3.BoolVal(is_flag) == z3.And(has_default, p.annot_t == BOOL_T), P)
            if is_flag:
                ip.require(s, f"{tag}post:a-flag-has-no-converter", z3.BoolVal("type" not in kws), P)
            else:
                t = kws.get("type")
                ip.require(s, f"{tag}post:converter-is-the-one-of-the-parameter's-annotation", t.t == conv_of(p.annot_t) if isinstance(t, RefV) else z3.BoolVal(False), P)
                if "default" not in kw0:
                    d = kws.get("default")
                    ip.require(s, f"{tag}post:omitted-option-takes-the-method's-own-default(positional-has-none)",
                               z3.If(has_default, d.t == p.default_t if isinstance(d, RefV) else z3.BoolVal(False), z3.BoolVal(d is None)), P)
                else:
                    d = kws.get("default")
                    ip.require(s, f"{tag}post:a-preset-default-is-kept", d.t == kw0["default"].t if isinstance(d, RefV) else z3.BoolVal(False), P)
            na = kws.get("nargs")
            if "nargs" not in kw0:
                ip.require(s, f"{tag}post:*args-collects-repeated-positionals(nargs=*)-iff-VAR_POSITIONAL",
                           (kind_t == KINDS["VAR_POSITIONAL"]) == z3.BoolVal(isinstance(na, StrV) and na.lit == "*"), P)
                ip.require(s, f"{tag}post:no-other-nargs", z3.BoolVal(na is None or (isinstance(na, StrV) and na.lit == "*")), P)
            else:
                ip.require(s, f"{tag}post:a-preset-nargs-is-kept", z3.BoolVal(isinstance(na, StrV) and na.lit == kw0["nargs"].lit), P)
            for k in kw0:
                if k not in ("nargs", "default", "action"):
                    ip.require(s, f"{tag}frame:passes-{k}-through", z3.BoolVal(k in kws and kws[k] is kw0[k]), P)
            ip.require(s, f"{tag}frame:no-unexpected-keyword", z3.BoolVal(set(kws) <= set(kw0) | {"action", "default", "nargs", "type"}), P)


def c_add_function_arg(ip_: Interp, s: St, fr, selfv, args, on_ref=False):
    """contract of add_function_arg (unit above)"""
    p = args["parameter"]
    kw = args.get("kwargs", KwV({}))
    preset = isinstance(kw, KwV) and isinstance(kw.d.get("action"), StrV) and kw.d["action"].lit == "store_true"
    ok = arg_ok(p.default_t, p.annot_t, preset) if isinstance(p, ParamV) else z3.BoolVal(False)
    ip_.require(s, "pre:add_function_arg:parameter-is-a-flag-or-its-annotation-is-convertible", ok, ("C16", "C17"))
    s.trace.append(("add_function_arg", p, kw))
    r = RefV(fresh("action", Ref))
    return [(s, r)]


# ======================================================================================================
# ControlParser.add_function_args      (C17: every parameter but the omitted ones becomes exactly one argument)
# ======================================================================================================
def sig_ok(params: SeqV, omitted, upto=None):
    j = z3.Int("j!sig")
    n = params.n if upto is None else upto
    name = lambda jj: z3.Select(params.arrs[0], jj)
    pv = lambda jj: ParamV(name(jj), z3.Select(params.arrs[1], jj))
    return z3.ForAll([j], z3.Implies(z3.And(0 <= j, j < n, z3.Not(omitted(name(j)))), arg_ok(pv(j).default_t, pv(j).annot_t)))


@unit(PAR + "add_function_args", ("C17", "C16"), [PAR + "add_function_args"])
def u_add_function_args(ip: Interp, th: ControlTheory):
    P = ("C17",)
    st = th.initial()
    install_aliases(ip, st)
    parser_self(st)
    fn = RefV(fresh("a_function", Ref))
    st.assume(fn.t != NONE)
    params = SigV(fn.t).params()
    st.assume(params.n >= 0)
    name = lambda jj: z3.Select(params.arrs[0], jj)
    j, j2 = z3.Int("j!s"), z3.Int("j2!s")
    st.assume(z3.ForAll([j, j2], z3.Implies(z3.And(0 <= j, j < j2, j2 < params.n), name(j) != name(j2))))  # inspect: distinct names
    omit_names = [StrV("self"), StrV(fresh("a_omit1", S))]
    omit = TupleV(omit_names)
    omitted = lambda nm: z3.Or([nm == o.t for o in omit_names])
    st.assume(sig_ok(params, omitted))  # precondition
    # ghost: reg[j] <=> parameter j has been registered
    st.loc["$reg"] = SeqV(z3.IntVal(0), [z3.K(I, z3.BoolVal(False))], _BoolL())
    st.loc["$j"] = IntV(-1)

    def on_iter(s, fr, lname, i):
        s.loc["$j"] = IntV(i)

    th.on_loop_iteration = on_iter

    def c_arg(ip_, s, fr, selfv, args):
        jj = s.loc["$j"].t
        p = args["parameter"]
        kw = args.get("kwargs")
        reg = s.loc["$reg"].arrs[0]
        hlp = kw.d.get("help") if isinstance(kw, KwV) else None
        ip_.require(s, "add_function_arg:called-for-the-current-parameter-once-with-help=repr(annotation)",
                    z3.And(p.name_t == name(jj), z3.Not(z3.Select(reg, jj)), z3.BoolVal(isinstance(kw, KwV) and set(kw.d) == {"help"}),
                           hlp.t == z3.Function("repr_of", Ref, S)(p.annot_t) if isinstance(hlp, StrV) else z3.BoolVal(False)) if isinstance(p, ParamV) else z3.BoolVal(False), P)
        res = c_add_function_arg(ip_, s, fr, selfv, args)
        s.loc["$reg"] = SeqV(s.loc["$reg"].n, [z3.Store(reg, jj, True)], s.loc["$reg"].layout)
        return res

    ip.contracts[PAR + "add_function_arg"] = c_arg

    def inv(c):
        reg = c.st.loc["$reg"].arrs[0]
        jj = z3.Int("j!l")
        return [("registered-exactly-the-non-omitted-parameters-seen-so-far",
                 z3.ForAll([jj], z3.Implies(z3.And(0 <= jj, jj < params.n), z3.Select(reg, jj) == z3.And(jj < c.i, z3.Not(omitted(name(jj)))))))]

    ip.loopspecs[(PAR + "add_function_args", 1)] = LoopSpec(inv, P, name="each-parameter")
    fi = ip.repo.get(PAR + "add_function_args")
    for s, v in ip.exec_function(st, fi, SelfV("ControlParser"), {"function": fn, "omit": omit}):
        if isinstance(v, Exit):
            ip.require(s, f"noraise:{v.val.cls}", z3.BoolVal(False), P + ("C16",))
            continue
        reg = s.loc["$reg"].arrs[0]
        jj = z3.Int("j!p")
        ip.require(s, "post:every-parameter-but-the-omitted-ones-is-registered-exactly-once",
                   z3.ForAll([jj], z3.Implies(z3.And(0 <= jj, jj < params.n), z3.Select(reg, jj) == z3.Not(omitted(name(jj))))), P)


class _BoolL(sym.Layout):
    def sorts(self):
        return [B]

    def pack(self, v):
        return [v.t]

    def unpack(self, ts):
        return BoolV(ts[0])


# ======================================================================================================
# ControlParser.add_function_command / add_property_command     (C16: command name, help; C17: arguments)
# ======================================================================================================
CMD_OK_FN = z3.Function("cmd_ok", Ref, B)  # precondition predicate of add_function_command / add_property_command
NAME_OF = arr("fname", z3.ArraySort(Ref, S))
US_DASH = z3.Function("str_replace_us_dash", S, S)


def command_hooks(ip: Interp, th: ControlTheory, params: SeqV = None, omitted=None):
    def add_parser(st, fr, recv, pos, kws, node):
        st.trace.append(("add_parser", recv.t, dict(kws)))
        r = RefV(fresh("subparser", Ref))
        st.assume(r.t != NONE)
        st.aux["subparser"] = r.t
        return [(st, r)]

    th.hooks["ref.add_parser"] = add_parser

    def getdoc(st, fr, pos, kws, node):
        v = ip.deref(st, pos[0])
        out = []
        has = fresh("has_doc", B)
        s1 = st.fork().assume(has)
        s1.tags.append("doc+")
        out.append((s1, StrV(z3.Function("doc_of", Ref, S)(v.t))))
        s2 = st.fork().assume(z3.Not(has))
        s2.tags.append("doc-")
        out.append((s2, NoneV()))
        return out

    th.hooks["getdoc"] = getdoc

    def c_first_doc_line(ip_, s, fr, selfv, args):
        """helpers.get_first_doc_line is pure string processing of the member's docstring: some string or None"""
        v = args["obj"]
        has = fresh("has_doc", B)
        s1 = s.fork().assume(has)
        s1.tags.append("doc+")
        s2 = s.fork().assume(z3.Not(has))
        s2.tags.append("doc-")
        return [(s1, StrV(z3.Function("first_doc_line", Ref, S)(v.t))), (s2, NoneV())]

    ip.contracts["helpers.get_first_doc_line"] = c_first_doc_line

    def ref_add_function_args(st, fr, recv, pos, kws, node):
        """contract of add_function_args (unit above), applied to the new sub-parser"""
        st.trace.append(("add_function_args", recv.t, list(pos)))
        if params is not None:
            ip.require(st, "pre:add_function_args:every-registered-parameter-is-a-flag-or-convertible", sig_ok(params, omitted), ("C16", "C17"))
        return [(st, NoneV())]

    th.hooks["ref.add_function_args"] = ref_add_function_args

    def ref_add_function_arg(st, fr, recv, pos, kws, node):
        return c_add_function_arg(ip, st, fr, None, {"parameter": pos[0], "kwargs": KwV(dict(kws))})

    th.hooks["ref.add_function_arg"] = ref_add_function_arg


@unit(PAR + "add_function_command", ("C16", "C17"), [PAR + "add_function_command"])
def u_add_function_command(ip: Interp, th: ControlTheory):
    P = ("C16",)
    fi = ip.repo.get(PAR + "add_function_command")
    for preset_name in (False, True):
        st = th.initial()
        install_aliases(ip, st)
        parser_self(st)
        fn = RefV(fresh("a_function", Ref))
        st.assume(fn.t != NONE)
        params = SigV(fn.t).params()
        omit_names = [StrV("self")]
        omitted = lambda nm: z3.Or([nm == o.t for o in omit_names])
        st.assume(sig_ok(params, omitted))  # precondition cmd_ok(function)
        command_hooks(ip, th, params, omitted)
        stream = PlaceV(("sh", "_stream"))
        kw0 = {"stream": stream, "terminal_width": IntV(fresh("tw2", I))}
        if preset_name:
            kw0["name"] = StrV(fresh("a_given_name", S))
        commands0 = st.sh["_commands"].t
        for s, v in ip.exec_function(st, fi, SelfV("ControlParser"), {"function": fn, "omit_params": TupleV(omit_names), "subparser_kwargs": KwV(dict(kw0))}):
            tag = "[name-given]" if preset_name else ""
            if isinstance(v, Exit):
                ip.require(s, f"{tag}raises:SubParsersNotInitialized-only-before-add_subparsers", z3.And(z3.BoolVal(v.val.cls == "SubParsersNotInitialized"), commands0 == NONE), P)
                ip.require(s, f"{tag}raises:nothing-registered", z3.BoolVal(not [e for e in s.trace if e[0] in ("add_parser", "add_function_args")]), P)
                continue
            aps = [e for e in s.trace if e[0] == "add_parser"]
            afa = [e for e in s.trace if e[0] == "add_function_args"]
            ip.require(s, f"{tag}post:one-sub-parser-added-to-the-commands-of-this-parser-and-returned",
                       z3.And(z3.BoolVal(len(aps) == 1 and isinstance(v, RefV)), aps[0][1] == commands0, v.t == s.aux.get("subparser")) if len(aps) == 1 and isinstance(v, RefV) else z3.BoolVal(False), P)
            if len(aps) != 1:
                continue
            kws = aps[0][2]
            nm = kws.get("name")
            expected = kw0["name"].t if preset_name else US_DASH(z3.Select(NAME_OF, fn.t))
            ip.require(s, f"{tag}post:command-is-named-after-the-method-with-underscores-as-dashes", nm.t == expected if isinstance(nm, StrV) else z3.BoolVal(False), P)
            pr = kws.get("prog")
            ip.require(s, f"{tag}post:prog-is-the-command-name", pr.t == expected if isinstance(pr, StrV) else z3.BoolVal(False), P)
            ip.require(s, f"{tag}post:help-and-description-come-from-the-method's-docstring(-h-describes-it)",
                       z3.BoolVal("help" in kws and "description" in kws and (kws["help"] is kws["description"] or (isinstance(kws["help"], StrV) and isinstance(kws["description"], StrV) and z3.eq(kws["help"].t, kws["description"].t))
                                                                              or (isinstance(kws["help"], NoneV) and isinstance(kws["description"], NoneV)))), P)
            ip.require(s, f"{tag}frame:session-stream-and-width-are-handed-to-the-sub-parser", z3.BoolVal(kws.get("stream") is stream and kws.get("terminal_width") is kw0["terminal_width"]), P + ("C18",))
            ok = len(afa) == 1 and len(afa[0][2]) == 2 and isinstance(afa[0][2][0], RefV) and isinstance(ip.deref(s, afa[0][2][1]), TupleV)
            ip.require(s, f"{tag}post:the-method's-parameters-are-registered-on-the-new-sub-parser-once",
                       z3.And(afa[0][1] == v.t, afa[0][2][0].t == fn.t, z3.BoolVal(ip.deref(s, afa[0][2][1]).items == omit_names)) if ok and isinstance(v, RefV) else z3.BoolVal(False), P + ("C17",))


@unit(PAR + "add_property_command", ("C16", "C17"), [PAR + "add_property_command"])
def u_add_property_command(ip: Interp, th: ControlTheory):
    P = ("C16",)
    fi = ip.repo.get(PAR + "add_property_command")
    st = th.initial()
    install_aliases(ip, st)
    parser_self(st)
    prop_ = RefV(fresh("a_prop", Ref))
    st.assume(prop_.t != NONE)
    fget = z3.Select(arr("prop_fget", z3.ArraySort(Ref, Ref)), prop_.t)
    fset = z3.Select(arr("prop_fset", z3.ArraySort(Ref, Ref)), prop_.t)
    sparams = SigV(fset).params()
    value_p = ParamV(z3.Select(sparams.arrs[0], 1), z3.Select(sparams.arrs[1], 1))
    # precondition cmd_ok(prop): a setter takes (self, value) and its value parameter is convertible
    st.assume(z3.Implies(fset != NONE, z3.And(sparams.n == 2, arg_ok(value_p.default_t, value_p.annot_t))))
    command_hooks(ip, th)
    stream = PlaceV(("sh", "_stream"))
    kw0 = {"stream": stream, "terminal_width": IntV(fresh("tw2", I))}
    commands0 = st.sh["_commands"].t
    cls_name = StrV(fresh("a_cls_name", S))
    for s, v in ip.exec_function(st, fi, SelfV("ControlParser"), {"prop": prop_, "cls_name": cls_name, "subparser_kwargs": KwV(dict(kw0))}):
        if isinstance(v, Exit):
            ip.require(s, "raises:TypeError-without-getter/SubParsersNotInitialized-before-add_subparsers-only",
                       z3.Or(z3.And(z3.BoolVal(v.val.cls == "TypeError"), fget == NONE), z3.And(z3.BoolVal(v.val.cls == "SubParsersNotInitialized"), commands0 == NONE)), P)
            ip.require(s, "raises:nothing-registered", z3.BoolVal(not [e for e in s.trace if e[0] in ("add_parser", "add_function_arg")]), P)
            continue
        aps = [e for e in s.trace if e[0] == "add_parser"]
        args_ = [e for e in s.trace if e[0] == "add_function_arg"]
        ip.require(s, "post:one-sub-parser-added-to-the-commands-of-this-parser-and-returned",
                   z3.And(aps[0][1] == commands0, v.t == s.aux.get("subparser")) if len(aps) == 1 and isinstance(v, RefV) else z3.BoolVal(False), P)
        if len(aps) != 1:
            continue
        kws = aps[0][2]
        nm = kws.get("name")
        expected = US_DASH(z3.Select(NAME_OF, fget))
        ip.require(s, "post:command-is-named-after-the-property-with-underscores-as-dashes", nm.t == expected if isinstance(nm, StrV) else z3.BoolVal(False), P)
        ip.require(s, "post:help-and-description-present(-h-describes-it)", z3.BoolVal("help" in kws and "description" in kws), P)
        ip.require(s, "frame:session-stream-and-width-are-handed-to-the-sub-parser", z3.BoolVal(kws.get("stream") is stream and kws.get("terminal_width") is kw0["terminal_width"]), P + ("C18",))
        # C17: without a value the command reads the property, with a value it assigns it: one optional positional for the
        # setter's value parameter, absent (SUPPRESS) when omitted, iff the property has a setter
        ip.require(s, "post:optional-value-argument-iff-the-property-has-a-setter", (fset != NONE) == z3.BoolVal(len(args_) == 1), P + ("C17",))
        if len(args_) == 1:
            p, kw = args_[0][1], args_[0][2]
            na, d = kw.d.get("nargs"), kw.d.get("default")
            ip.require(s, "post:the-value-argument-is-the-setter's-value-parameter,optional(nargs=?),suppressed-when-omitted",
                       z3.And(p.name_t == value_p.name_t, z3.BoolVal(isinstance(na, StrV) and na.lit == "?"), d.t == SUPPRESS if isinstance(d, RefV) else z3.BoolVal(False)) if isinstance(p, ParamV) else z3.BoolVal(False),
                       P + ("C17",))


# ======================================================================================================
# ControlSession.client_handshake      (C16: the client receives the pool's name; the command surface is registered)
# ======================================================================================================
SURFACE_OK = z3.Function("surface_ok", Ref, B)  # precondition predicate of add_class_commands


def postponed_annotation_sites(repo) -> List[str]:
    """mechanical domain fact, read from the real pool.py: with `from __future__ import annotations` every parameter
    annotation of a pool member is a str at run time (inspect.signature does not evaluate), and a str has no __name__"""
    if not repo.future_annotations.get("pool"):
        return []
    out = []
    for cname, ci in repo.classes.items():
        if ci.module != "pool":
            continue
        members = list(ci.methods.items()) + [(n, f) for n, f in ci.props_set.items()]
        for mname, fi in members:
            if mname.startswith("_"):
                continue
            a = fi.node.args
            for p in a.posonlyargs + a.args + a.kwonlyargs + ([a.vararg] if a.vararg else []) + ([a.kwarg] if a.kwarg else []):
                if p.arg != "self" and p.annotation is not None:
                    out.append(f"{cname}.{mname}.{p.arg}")
    return out


@unit(SES + "client_handshake", ("C16", "C18"), [SES + "client_handshake"])
def u_client_handshake(ip: Interp, th: ControlTheory):
    P = ("C16",)
    install_session_hooks(ip, th)
    st = th.initial()
    st.sh["_parser"] = RefV(NONE)  # ControlSession.__init__ (unit below): no parser before the handshake
    POOL = z3.Const("POOL", Ref)
    pool_cls = z3.Select(arr("class_of", z3.ArraySort(Ref, Ref)), POOL)
    buf0 = st.sh["_response_buffer"].content

    def json_loads(s, fr, pos, kws, node):
        s.trace.append(("json_loads", ip.deref(s, pos[0])))
        ok = s.fork()
        ok.tags.append("json:object")
        info = RefV(fresh("client_info", Ref))
        ok.assume(info.t != NONE)
        bad = s.fork()
        bad.tags.append("json:malformed")
        e = ExcV("ValueError", [])
        e.origin = "json"
        return [(ok, info), (bad, Exit(Exit.RAISE, e))]

    th.hooks["json.loads"] = json_loads

    def subscript(s, fr, c, key):
        if isinstance(c, RefV) and isinstance(key, StrV):
            ok = s.fork()
            ok.tags.append("info:has-" + (key.lit or "key"))
            val = RefV(z3.Function("json_item", Ref, S, Ref)(c.t, key.t))
            bad = s.fork()
            bad.tags.append("info:lacks-key")
            e = ExcV("KeyError", [key])
            e.origin = "json"
            bad2 = s.fork()
            bad2.tags.append("info:not-an-object")
            e2 = ExcV("TypeError", [])
            e2.origin = "json"
            return [(ok, val), (bad, Exit(Exit.RAISE, e)), (bad2, Exit(Exit.RAISE, e2))]
        return None

    th.hooks["subscript"] = subscript

    def new_parser(s, fr, pos, kws, node):
        s.trace.append(("ControlParser", list(pos), dict(kws)))
        r = RefV(fresh("new_parser", Ref))
        s.assume(r.t != NONE)
        s.aux["new_parser"] = r.t
        return [(s, r)]

    th.hooks["ControlParser"] = new_parser
    th.hooks["ref.add_subparsers"] = lambda s, fr, recv, pos, kws, node: (s.trace.append(("add_subparsers", recv.t)), [(s, RefV(fresh("subparsers", Ref)))])[1]

    def add_class_commands(s, fr, recv, pos, kws, node):
        """contract of ControlParser.add_class_commands (unit parser.ControlParser.add_class_commands)"""
        cls_ = pos[0]
        ip.require(s, "pre:add_class_commands:every-public-member-of-the-pool-class-has-convertible-parameter-annotations(not-postponed-strings)",
                   z3.BoolVal(not postponed_annotation_sites(ip.repo)), ("C16", "C17"), meta={"sites": ", ".join(postponed_annotation_sites(ip.repo)[:8])})
        s.trace.append(("add_class_commands", recv.t, cls_))
        return [(s, RefV(fresh("parsers", Ref)))]

    th.hooks["ref.add_class_commands"] = add_class_commands
    for s, v in run_async(ip, st, SES + "client_handshake", SelfV("ControlSession"), {}):
        wellformed = "json:object" in s.tags and any(t.startswith("info:has-") for t in s.tags)
        sw = [e for e in s.trace if e[0] == "stream_write"]
        if isinstance(v, Exit):
            if wellformed:
                ip.require(s, f"wellformed-handshake:noraise:nothing-but-a-delivered-cancellation-escapes:{v.val.cls}", z3.BoolVal(v.val.cls == "CancelledError"), P)
            else:
                ip.require(s, "malformed-handshake:nothing-is-sent-and-no-parser-is-installed", z3.And(z3.BoolVal(not sw), s.sh["_parser"].t == NONE), P + ("C18",))
            continue
        ip.require(s, "post:returns-normally-only-for-a-wellformed-handshake", z3.BoolVal(wellformed), P)
        rl = [e for e in s.trace if e[0] == "readline"]
        ip.require(s, "post:reads-exactly-one-line", z3.BoolVal(len(rl) == 1), P)
        jl = [e for e in s.trace if e[0] == "json_loads"]
        ip.require(s, "post:the-handshake-is-the-JSON-text-of-exactly-that-line(decoded,stripped)",
                   jl[0][1].t == z3.Function("str_strip", S, S)(rl[0][1]) if len(jl) == 1 and len(rl) == 1 and isinstance(jl[0][1], StrV) and len(rl[0]) > 1 else z3.BoolVal(False), P)
        ip.require(s, "post:replies-exactly-once-with-the-pool's-name-and-a-newline",
                   sw[0][1] == sym.str_concat([StrV(str_of(POOL)), "\n"]).t if len(sw) == 1 and sw[0][1] is not None else z3.BoolVal(False), P)
        cp = [e for e in s.trace if e[0] == "ControlParser"]
        okcp = len(cp) == 1 and not cp[0][1]
        ip.require(s, "post:one-parser-is-built-and-installed-as-the-session's-parser", z3.And(z3.BoolVal(okcp), s.sh["_parser"].t == s.aux.get("new_parser")) if okcp and s.aux.get("new_parser") is not None else z3.BoolVal(False), P)
        if okcp:
            kws = cp[0][2]
            stream = kws.get("stream")
            ip.require(s, "post:the-parser-writes-to-this-session's-buffer(never-stdout)", z3.BoolVal(isinstance(stream, PlaceV) and stream.root == ("sh", "_response_buffer") and not stream.path), P + ("C18",))
            tw = kws.get("terminal_width")
            info = [t for t in s.trace if t[0] == "json_loads"]
            ip.require(s, "post:help-is-formatted-for-the-client's-terminal-width", z3.BoolVal(isinstance(tw, RefV) and "json_item" in str(tw.t) and "terminal_width" in str(tw.t)), P)
        acc = [e for e in s.trace if e[0] == "add_class_commands"]
        asp = [e for e in s.trace if e[0] == "add_subparsers"]
        np_ = s.aux.get("new_parser")
        ip.require(s, "post:the-commands-of-exactly-the-pool's-class-are-registered-once-on-the-new-parser",
                   z3.And(acc[0][1] == np_, acc[0][2].t == pool_cls, asp[0][1] == np_) if len(acc) == 1 and len(asp) == 1 and np_ is not None and isinstance(acc[0][2], RefV) else z3.BoolVal(False), P)
        order = [e[0] for e in s.trace if e[0] in ("add_subparsers", "add_class_commands", "stream_write", "ControlParser", "readline")]
        ip.require(s, "order:read,build,add_subparsers,add_class_commands,then-reply(a-client-that-got-the-name-can-send-any-command)",
                   z3.BoolVal(order == ["readline", "ControlParser", "add_subparsers", "add_class_commands", "stream_write"]), P)
        ip.require(s, "frame:the-handshake-leaves-the-reply-buffer-untouched(listen-starts-with-it-as-it-was)", s.sh["_response_buffer"].content == buf0, P + ("C18",))
        ip.require(s, "frame:no-pool-method-is-called", z3.BoolVal(not calls(s)), P + ("C18",))


# ======================================================================================================
# ControlSession.__init__      (C16/C17: the session acts on the server's pool)
# ======================================================================================================
@unit(SES + "__init__", ("C16", "C17", "C18"), [SES + "__init__"])
def u_session_init(ip: Interp, th: ControlTheory):
    P = ("C17",)
    st = th.initial()
    server, reader, writer = RefV(fresh("a_server", Ref)), RefV(fresh("a_reader", Ref)), RefV(fresh("a_writer", Ref))
    st.assume(z3.And(server.t != NONE, reader.t != NONE, writer.t != NONE))
    spool = z3.Select(arr("server_pool", z3.ArraySort(Ref, Ref)), server.t)
    sccn = z3.Select(arr("server_client_class_name", z3.ArraySort(Ref, S)), server.t)
    # before __init__ nothing is known about the fields
    st.sh = {"_control_server": RefV(fresh("f0", Ref)), "_pool": RefV(fresh("f1", Ref)), "_client_class_name": StrV(fresh("f2", S)), "_reader": RefV(fresh("f3", Ref)),
             "_writer": RefV(fresh("f4", Ref)), "_parser": RefV(fresh("f5", Ref)), "_response_buffer": BufV(fresh("f6", S))}
    orig = th.value_attr

    def value_attr(s, fr, v, attr):
        if isinstance(v, RefV) and attr == "pool":
            return [(s, RefV(z3.Select(arr("server_pool", z3.ArraySort(Ref, Ref)), v.t)))]
        if isinstance(v, RefV) and attr == "client_class_name":
            return [(s, StrV(z3.Select(arr("server_client_class_name", z3.ArraySort(Ref, S)), v.t)))]
        return orig(s, fr, v, attr)

    th.value_attr = value_attr
    th.hooks["StringIO"] = lambda s, fr, pos, kws, node: [(s, BufV(EMPTY))] if not pos and not kws else None
    orig_builtin = th.call_builtin

    def call_builtin(s, fr, f, pos, kws, rest_kw, node):
        if f.recv is None and f.name == "StringIO" and not pos:
            return [(s, BufV(EMPTY))]
        return orig_builtin(s, fr, f, pos, kws, rest_kw, node)

    th.call_builtin = call_builtin
    fi = ip.repo.get(SES + "__init__")
    for s, v in ip.exec_function(st, fi, SelfV("ControlSession"), {"server": server, "reader": reader, "writer": writer}):
        if isinstance(v, Exit):
            ip.require(s, f"noraise:{v.val.cls}", z3.BoolVal(False), P)
            continue
        sh = s.sh
        ip.require(s, "post:the-session-acts-on-the-server's-pool", sh["_pool"].t == spool, P + ("C16",))
        ip.require(s, "post:server,reader,writer-are-the-ones-given", z3.And(sh["_control_server"].t == server.t, sh["_reader"].t == reader.t, sh["_writer"].t == writer.t), P + ("C18",))
        ip.require(s, "post:no-parser-before-the-handshake", sh["_parser"].t == NONE, ("C16", "C18"))
        ip.require(s, "post:a-fresh-empty-reply-buffer-private-to-this-session", sh["_response_buffer"].content == EMPTY if isinstance(sh["_response_buffer"], BufV) else z3.BoolVal(False), ("C18",))
        ip.require(s, "post:client-class-name-from-the-server", sh["_client_class_name"].t == sccn, ("C18",))


# ======================================================================================================
# server glue: a connection is one handshake followed by one listen loop; the final callback runs exactly once
# (side obligations of C16/C18; the socket-level property C19 itself is not claimed)
# ======================================================================================================
class ServerTheory(ControlTheory):
    def initial(self) -> St:
        st = St()
        st.me = fresh("me", Ref)
        st.sh = {"_pool": RefV(z3.Const("POOL", Ref)), "_server_kwargs": RefV(z3.Const("SERVER_KWARGS", Ref)), "_server": RefV(fresh("aserver", Ref))}
        return st


def srv_unit(name, props, functions):
    def deco(fn):
        UNITS.append(Unit(name, fn, props, functions, theory_factory=ServerTheory, trusted=TRUSTED2))
        return fn

    return deco


@srv_unit(SRV + "_client_connected_cb", ("C16", "C18"), [SRV + "_client_connected_cb"])
def u_client_connected_cb(ip: Interp, th: ServerTheory):
    P = ("C16", "C18")
    st = th.initial()
    reader, writer = RefV(fresh("a_reader", Ref)), RefV(fresh("a_writer", Ref))

    def new_session(s, fr, pos, kws, node):
        s.trace.append(("ControlSession", list(pos), dict(kws)))
        r = RefV(fresh("session", Ref))
        s.assume(r.t != NONE)
        s.aux["session"] = r.t
        return [(s, r)]

    th.hooks["ControlSession"] = new_session
    for nm in ("client_handshake", "listen"):
        th.hooks["ref." + nm] = (lambda nm_: lambda s, fr, recv, pos, kws, node: [(s, CoroV("builtin", nm_, {"recv": recv}))])(nm)

        def aw(s, fr, v, node, nm_=nm):
            """contracts of ControlSession.client_handshake / listen (units session.*): return, or let an exception escape"""
            s.trace.append((nm_, v.args["recv"].t))
            ok = s.fork()
            ok.tags.append(nm_ + ":returns")
            bad = s.fork()
            bad.tags.append(nm_ + ":raises")
            e = ExcV("Exception", [])
            e.origin = nm_
            return [(ok, NoneV()), (bad, Exit(Exit.RAISE, e))]

        th.hooks["await:" + nm] = aw
    fi = ip.repo.get(SRV + "_client_connected_cb")
    fr0 = Frame(None, fi.module, SelfV("ControlServer"), 0, qual="@unit")
    for s, v in ip.run_repo(st, fr0, fi, SelfV("ControlServer"), {"reader": reader, "writer": writer}, awaited=True):
        cs = [e for e in s.trace if e[0] == "ControlSession"]
        ok = len(cs) == 1 and len(cs[0][1]) == 3 and isinstance(cs[0][1][0], SelfV) and not cs[0][2]
        ip.require(s, "post:one-session-per-connection-on-this-server-with-the-connection's-streams",
                   z3.And(cs[0][1][1].t == reader.t, cs[0][1][2].t == writer.t) if ok else z3.BoolVal(False), P)
        order = [e[0] for e in s.trace if e[0] in ("client_handshake", "listen")]
        sess = s.aux.get("session")
        if isinstance(v, Exit):
            ip.require(s, "raises:only-what-the-session-raised", z3.BoolVal(getattr(v.val, "origin", "") in ("client_handshake", "listen")), P)
            ip.require(s, "order:listen-never-runs-after-a-failed-handshake", z3.BoolVal(order in (["client_handshake"], ["client_handshake", "listen"]) and not (getattr(v.val, "origin", "") == "client_handshake" and "listen" in order)), P)
            continue
        ip.require(s, "order:exactly-one-handshake-then-exactly-one-listen-loop-on-the-same-session",
                   z3.And(z3.BoolVal(order == ["client_handshake", "listen"]), *[e[1] == sess for e in s.trace if e[0] in ("client_handshake", "listen")]) if sess is not None else z3.BoolVal(False), P)


@srv_unit(SRV + "_serve_forever+serve_forever+is_serving", ("C18",), [SRV + "_serve_forever", SRV + "serve_forever", SRV + "is_serving", SRV + "pool.getter"])
def u_serve_forever(ip: Interp, th: ServerTheory):
    P = ("C18",)
    # ---- pool property, is_serving ---------------------------------------------------------------------
    st = th.initial()
    for s, v in ip.exec_function(st, ip.repo.get(SRV + "pool.getter"), SelfV("ControlServer"), {}):
        ip.require(s, "pool:returns-the-pool-the-server-was-given", v.t == z3.Const("POOL", Ref) if isinstance(v, RefV) else z3.BoolVal(False), ("C16", "C17"))
    serving = fresh("aserver_is_serving", B)
    th.hooks["ref.is_serving"] = lambda s, fr, recv, pos, kws, node: [(s, BoolV(serving))]
    st = th.initial()
    srv0 = st.sh["_server"].t
    for s, v in ip.exec_function(st, ip.repo.get(SRV + "is_serving"), SelfV("ControlServer"), {}):
        ip.require(s, "is_serving:false-without-a-server-else-the-server's-own-answer", v.t == z3.And(srv0 != NONE, serving) if isinstance(v, BoolV) else z3.BoolVal(False), P)
    # ---- _serve_forever: the final callback runs exactly once on every exit -----------------------------
    # abstract in ControlServer; the subclasses' versions only log / unlink (unit server.UnixControlServer._final_callback)
    ip.contracts[SRV + "_final_callback"] = lambda ip_, s, fr, selfv, args: (s.trace.append(("final_callback",)), [(s, NoneV())])[1]
    th.hooks["ref.serve_forever"] = lambda s, fr, recv, pos, kws, node: [(s, CoroV("builtin", "serve_forever", {"recv": recv}))]

    def aw_serve(s, fr, v, node):
        s.trace.append(("serve_forever", v.args["recv"].t))
        outs = []
        for tag, cls_ in (("served:returns", None), ("served:cancelled", "CancelledError"), ("served:fails", "OSError")):
            s2 = s.fork()
            s2.tags.append(tag)
            if cls_ is None:
                outs.append((s2, NoneV()))
            else:
                e = ExcV(cls_, [])
                e.origin = "delivered" if cls_ == "CancelledError" else "server"
                outs.append((s2, Exit(Exit.RAISE, e)))
        return outs

    th.hooks["await:serve_forever"] = aw_serve

    def async_with(s, fr, mgr, optional_vars, body, node):
        """`async with server:` (asyncio.base_events.Server): __aenter__ returns the server, __aexit__ closes it and waits"""
        if not isinstance(mgr, RefV):
            raise Unsupported("async with over " + type(mgr).__name__)
        s.trace.append(("server_enter", mgr.t))
        out = []
        for s2, ex in ip.block(s, fr, body):
            s2.trace.append(("server_exit", mgr.t))
            out.append((s2, ex))
        return out

    th.async_with = async_with
    fi = ip.repo.get(SRV + "_serve_forever")
    for has_server in (True, False):
        st = th.initial()
        if has_server:
            st.assume(st.sh["_server"].t != NONE)
        else:
            st.sh["_server"] = RefV(NONE)
        fr0 = Frame(None, fi.module, SelfV("ControlServer"), 0, qual="@unit")
        for s, v in ip.run_repo(st, fr0, fi, SelfV("ControlServer"), {}, awaited=True):
            fc = [e for e in s.trace if e[0] == "final_callback"]
            if not has_server:
                ip.require(s, "_serve_forever:without-a-server:raises-ServerNotInitialized-and-serves-nothing",
                           z3.BoolVal(isinstance(v, Exit) and v.val.cls == "ServerNotInitialized" and not [e for e in s.trace if e[0] == "serve_forever"]), P)
                continue
            ip.require(s, "_serve_forever:final-callback-runs-exactly-once-on-every-exit", z3.BoolVal(len(fc) == 1), P)
            ip.require(s, "_serve_forever:final-callback-runs-after-the-server-was-closed", z3.BoolVal([e[0] for e in s.trace if e[0] in ("server_exit", "final_callback")] == ["server_exit", "final_callback"]), P)
            if isinstance(v, Exit):
                ip.require(s, "_serve_forever:cancellation-stops-the-server-quietly;only-a-server-failure-escapes", z3.BoolVal(v.val.cls == "OSError"), P)
            else:
                ip.require(s, "_serve_forever:returns-normally-when-served-or-cancelled", z3.BoolVal("served:returns" in s.tags or "served:cancelled" in s.tags), P)
    # ---- serve_forever: starts the server with the connection callback and returns the serving task ---------
    st = th.initial()
    st.sh["_server"] = RefV(NONE)
    newsrv = fresh("started_server", Ref)

    def c_get_server_instance(ip_, s, fr, selfv, args):
        """abstract in ControlServer (assumed contract of the subclasses' start_server / start_unix_server wrappers): returns
        a started server or raises OSError"""
        s.trace.append(("_get_server_instance", args.get("client_connected_cb"), args.get("kwargs")))
        ok = s.fork()
        ok.assume(newsrv != NONE)
        bad = s.fork()
        e = ExcV("OSError", [])
        e.origin = "server"
        return [(ok, RefV(newsrv)), (bad, Exit(Exit.RAISE, e))]

    ip.contracts[SRV + "_get_server_instance"] = c_get_server_instance

    def create_task(s, fr, pos, kws, node):
        s.trace.append(("create_task", pos[0] if pos else kws.get("coro")))
        r = RefV(fresh("serving_task", Ref))
        s.aux["serving_task"] = r.t
        return [(s, r)]

    th.hooks["create_task"] = create_task
    fi = ip.repo.get(SRV + "serve_forever")
    fr0 = Frame(None, fi.module, SelfV("ControlServer"), 0, qual="@unit")
    for s, v in ip.run_repo(st, fr0, fi, SelfV("ControlServer"), {}, awaited=True):
        gs = [e for e in s.trace if e[0] == "_get_server_instance"]
        ct = [e for e in s.trace if e[0] == "create_task"]
        if isinstance(v, Exit):
            ip.require(s, "serve_forever:a-failing-start-creates-no-serving-task", z3.BoolVal(not ct and v.val.cls == "OSError"), P)
            continue
        okcb = len(gs) == 1 and isinstance(gs[0][1], FuncV) and gs[0][1].finfo is not None and gs[0][1].finfo.qualname == SRV + "_client_connected_cb"
        ip.require(s, "serve_forever:starts-one-server-whose-connections-go-to-_client_connected_cb", z3.BoolVal(okcb), P + ("C16",))
        ip.require(s, "serve_forever:remembers-the-started-server(is_serving-asks-it)", s.sh["_server"].t == newsrv, P)
        okt = len(ct) == 1 and isinstance(ct[0][1], CoroV) and ct[0][1].kind == "repo" and ct[0][1].target.qualname == SRV + "_serve_forever"
        ip.require(s, "serve_forever:returns-the-task-that-runs-_serve_forever(cancelling-it-stops-the-server)", z3.And(z3.BoolVal(okt), v.t == s.aux.get("serving_task")) if okt and isinstance(v, RefV) else z3.BoolVal(False), P)


@srv_unit("server.UnixControlServer._final_callback", ("C18",), ["server.UnixControlServer._final_callback"])
def u_unix_final_callback(ip: Interp, th: ServerTheory):
    st = th.initial()
    path = RefV(fresh("socket_path", Ref))
    st.assume(path.t != NONE)
    st.sh["_socket_path"] = path
    th.hooks["ref.unlink"] = lambda s, fr, recv, pos, kws, node: (s.trace.append(("unlink", recv.t)), [(s, NoneV())])[1]
    for s, v in ip.exec_function(st, ip.repo.get("server.UnixControlServer._final_callback"), SelfV("UnixControlServer"), {}):
        ul = [e for e in s.trace if e[0] == "unlink"]
        ip.require(s, "unix:_final_callback-removes-exactly-the-server's-socket-file", z3.And(z3.BoolVal(len(ul) == 1 and not isinstance(v, Exit)), ul[0][1] == path.t) if len(ul) == 1 else z3.BoolVal(False), ("C18",))


# ======================================================================================================
# ControlParser.__init__ / help_formatter_factory / add_subparsers
# (C18: everything the parser prints goes to the stream it was given; C16: help is formatted for the client's width)
# ======================================================================================================
@unit(PAR + "__init__+help_formatter_factory+add_subparsers", ("C18", "C16"), [PAR + "__init__", PAR + "help_formatter_factory", PAR + "add_subparsers"])
def u_parser_init(ip: Interp, th: ControlTheory):
    from .control_theory import NestedClassV, SuperObjV

    P = ("C18", "C16")
    SERVER_COLUMNS = z3.Const("server_terminal_columns", I)
    th.hooks["get_terminal_size"] = lambda s, fr, pos, kws, node: [(s, RefV(z3.Const("TERMINAL_SIZE", Ref)))]
    th.hooks["attr.columns"] = lambda s, fr, v: [(s, IntV(SERVER_COLUMNS))]

    def super_init(s, fr, pos, kws, node):
        s.trace.append(("super.__init__", list(pos), dict(kws)))
        return [(s, NoneV())]

    th.hooks["super.__init__"] = super_init
    fi = ip.repo.get(PAR + "__init__")
    for width_given in (True, False):
        for fmt_given in (True, False):
            st = th.initial()
            stream0 = RefV(fresh("a_stream", Ref))
            st.assume(stream0.t != NONE)
            st.sh = {"_stream": RefV(fresh("u0", Ref)), "_terminal_width": IntV(fresh("u1", I)), "_flags": SetV.symbolic("u2", StrL()), "_commands": RefV(fresh("u3", Ref))}
            tw = IntV(fresh("a_width", I)) if width_given else NoneV()
            kw0 = {"prog": StrV(fresh("a_prog", S)), "usage": StrV(fresh("a_usage", S))}
            given_fmt = RefV(fresh("a_formatter", Ref))
            if fmt_given:
                st.assume(given_fmt.t != NONE)
                kw0["formatter_class"] = given_fmt
            tag = f"[width-{'given' if width_given else 'default'},formatter-{'given' if fmt_given else 'default'}]"
            for s, v in ip.exec_function(st, fi, SelfV("ControlParser"), {"stream": stream0, "terminal_width": tw, "kwargs": KwV(dict(kw0))}):
                if isinstance(v, Exit):
                    ip.require(s, f"{tag}__init__:noraise:{v.val.cls}", z3.BoolVal(False), P)
                    continue
                width = tw.t if width_given else SERVER_COLUMNS
                ip.require(s, f"{tag}__init__:prints-to-the-stream-it-was-given", s.sh["_stream"].t == stream0.t, ("C18",))
                ip.require(s, f"{tag}__init__:width-is-the-client's(or-the-server-terminal's-when-none-is-given)", s.sh["_terminal_width"].t == width, ("C16",))
                ip.require(s, f"{tag}__init__:no-flags-taken,no-sub-commands-yet", z3.And(s.sh["_flags"].card == 0, z3.ForAll([z3.Const("x!f", S)], z3.Not(s.sh["_flags"].has(z3.Const("x!f", S)))), s.sh["_commands"].t == NONE), P)
                si = [e for e in s.trace if e[0] == "super.__init__"]
                ok = len(si) == 1 and not si[0][1] and set(si[0][2]) == set(kw0) | {"formatter_class"}
                ip.require(s, f"{tag}__init__:argparse-is-initialised-once-with-the-given-options-plus-the-formatter", z3.BoolVal(ok and all(si[0][2][k] is kw0[k] for k in kw0 if k != "formatter_class")), P)
                if not ok:
                    continue
                fc = si[0][2]["formatter_class"]
                good = isinstance(fc, NestedClassV) and len(fc.bases) == 1
                ip.require(s, f"{tag}factory:returns-a-formatter-class-derived-from-the-given-one(default:ArgumentDefaultsHelpFormatter)",
                           z3.BoolVal(good and (isinstance(fc.bases[0], RefV) if fmt_given else (isinstance(fc.bases[0], BuiltinV) and fc.bases[0].name == "ArgumentDefaultsHelpFormatter"))), ("C16",))
                if good and fmt_given:
                    ip.require(s, f"{tag}factory:base-is-the-given-formatter", fc.bases[0].t == given_fmt.t, ("C16",))
                if not good:
                    continue
                # the nested class's __init__ forces width = the parser's terminal width
                init = [n for n in fc.node.body if isinstance(n, (_ast.FunctionDef,)) and n.name == "__init__"]
                ip.require(s, f"{tag}factory:the-class-overrides-__init__", z3.BoolVal(len(init) == 1), ("C16",))
                if len(init) != 1:
                    continue
                s2 = s.fork()
                n0 = len(s2.trace)
                f = FuncV(node=init[0], env=fc.env, name="__init__")
                fr = Frame(fi, fi.module, SelfV("ControlParser"), 0, qual=PAR + "help_formatter_factory")
                a_pos, a_kw = RefV(fresh("fmt_arg", Ref)), {"max_help_position": RefV(fresh("fmt_kw", Ref))}
                for s3, v3 in ip.run_closure(s2, fr, f, {"self": RefV(fresh("fmt_self", Ref)), "args": TupleV([a_pos]), "kwargs": KwV(dict(a_kw))}):
                    si2 = [e for e in s3.trace[n0:] if e[0] == "super.__init__"]
                    ok2 = not isinstance(v3, Exit) and len(si2) == 1 and set(si2[0][2]) == {"max_help_position", "width"} and isinstance(si2[0][2]["width"], IntV)
                    ip.require(s3, f"{tag}factory:formatter-is-built-with-width=the-parser's-terminal-width(other-arguments-untouched)",
                               z3.And(z3.BoolVal(ok2), si2[0][2]["width"].t == width) if ok2 else z3.BoolVal(False), ("C16",))
    # ---- add_subparsers -----------------------------------------------------------------------------------------
    st = th.initial()
    parser_self(st)
    result = RefV(fresh("subparsers_action", Ref))

    def super_add_subparsers(s, fr, pos, kws, node):
        s.trace.append(("super.add_subparsers", list(pos), dict(kws)))
        return [(s, result)]

    th.hooks["super.add_subparsers"] = super_add_subparsers
    a1 = StrV(fresh("a_title", S))
    a0 = RefV(fresh("a_positional", Ref))
    for s, v in ip.exec_function(st, ip.repo.get(PAR + "add_subparsers"), SelfV("ControlParser"), {"args": TupleV([a0]), "kwargs": KwV({"title": a1})}):
        sa = [e for e in s.trace if e[0] == "super.add_subparsers"]
        flat = []
        for x in (sa[0][1] if sa else []):
            inner = ip.deref(s, x.v) if isinstance(x, StarV) else None
            flat.extend(inner.items if isinstance(inner, TupleV) else [x])
        ok = not isinstance(v, Exit) and len(sa) == 1 and set(sa[0][2]) == {"title"} and sa[0][2]["title"] is a1 and len(flat) == 1 and flat[0] is a0
        ip.require(s, "add_subparsers:delegates-once,remembers-the-commands-object-and-returns-it", z3.And(z3.BoolVal(ok), s.sh["_commands"].t == result.t, v.t == result.t) if ok and isinstance(v, RefV) else z3.BoolVal(False), P)


# ======================================================================================================
# helpers.resolve_dotted_path      (C17: dotted-path functions)
# "a.b.c" is resolved by importing `a` and then looking up `b`, `c` as attributes, importing the dotted prefix
# `a.b`, `a.b.c` whenever an attribute is not there yet (the algorithm of logging.config, as the docstring says)
# ======================================================================================================
PART = z3.Function("path_component", S, I, S)  # k-th component of a dotted path
NPARTS = z3.Function("path_components", S, I)
PREFIX = z3.Function("dotted_prefix", S, I, S)  # components 0..k joined by "."
IMPORTED = z3.Function("imported_module", S, Ref)
ATTR = z3.Function("attribute_of", Ref, S, Ref)


class PartsV(V):
    """the list `dotted_path.split(".")`, possibly with leading elements popped"""

    def __init__(self, path_t, off):
        self.path_t, self.off = path_t, off

    def terms(self):
        return [self.path_t, self.off]


class DottedTheory(ControlTheory):
    def call_method(self, st, fr, recv, name, pos, kws, rest_kw, node):
        ip = self.ip
        val = ip.deref(st, recv)
        if isinstance(val, StrV) and name == "split" and len(pos) == 1 and isinstance(pos[0], StrV) and pos[0].lit == ".":
            return [(st, PartsV(val.t, z3.IntVal(0)))]
        if isinstance(val, PartsV) and name == "pop" and isinstance(recv, PlaceV) and len(pos) == 1 and isinstance(pos[0], IntV) and z3.is_int_value(z3.simplify(pos[0].t)) \
                and z3.simplify(pos[0].t).as_long() == 0:
            out = []
            for s, b in ip.branch(st, NPARTS(val.path_t) - val.off > 0, "pop0"):
                if b:
                    ip.place_set(s, recv, PartsV(val.path_t, val.off + 1))
                    out.append((s, StrV(PART(val.path_t, val.off))))
                else:
                    out.append((s, Exit(Exit.RAISE, ExcV("IndexError", []))))
            return out
        return super().call_method(st, fr, recv, name, pos, kws, rest_kw, node)

    def unpack_assign(self, st, fr, target, v):
        # `first, *rest = path.split(".")`
        if isinstance(v, PartsV) and len(target.elts) == 2 and isinstance(target.elts[0], _ast.Name) and isinstance(target.elts[1], _ast.Starred) and isinstance(target.elts[1].value, _ast.Name):
            out = []
            for s, b in self.ip.branch(st, NPARTS(v.path_t) - v.off > 0, "unpack"):
                if b:
                    s.loc[target.elts[0].id] = StrV(PART(v.path_t, v.off))
                    s.loc[target.elts[1].value.id] = PartsV(v.path_t, v.off + 1)
                    out.append((s, NORMAL))
                else:
                    out.append((s, Exit(Exit.RAISE, ExcV("ValueError", []))))
            return out
        return super().unpack_assign(st, fr, target, v)

    def iter_of(self, st, fr, v, node):
        from pyvc.theory import Iter

        d = self.ip.deref(st, v)
        if isinstance(d, PartsV):
            n = NPARTS(d.path_t) - d.off
            return Iter(n, lambda i: StrV(PART(d.path_t, i + d.off)), [n >= 0], "path-components")
        return super().iter_of(st, fr, v, node)


def dotted_unit(name, props, functions):
    def deco(fn):
        def wrapped(ip, th):
            saved = Interp.MUTABLE_EXTRA
            Interp.MUTABLE_EXTRA = saved + (PartsV,)
            try:
                return fn(ip, th)
            finally:
                Interp.MUTABLE_EXTRA = saved

        UNITS.append(Unit(name, wrapped, props, functions, theory_factory=DottedTheory, trusted=TRUSTED2 + [
            "importlib.import_module(name) returns the module `name` or raises ImportError; getattr(obj, name) returns the attribute or raises AttributeError; str.split('.') yields at least one component"]))
        return fn

    return deco


@dotted_unit("helpers.resolve_dotted_path", ("C17",), ["helpers.resolve_dotted_path"])
def u_resolve_dotted_path(ip: Interp, th: DottedTheory):
    P = ("C17",)
    st = th.initial()
    path = StrV(fresh("a_dotted_path", S))
    k = z3.Int("k!pre")
    st.assume(NPARTS(path.t) >= 1)
    st.assume(PREFIX(path.t, 0) == PART(path.t, 0))
    st.assume(z3.ForAll([k], z3.Implies(k >= 0, PREFIX(path.t, k + 1) == sym.str_concat([StrV(PREFIX(path.t, k)), ".", StrV(PART(path.t, k + 1))]).t)))
    st.loc["$j"] = IntV(-1)

    def on_iter(s, fr, lname, i):
        s.loc["$j"] = IntV(i)

    th.on_loop_iteration = on_iter

    def import_module(s, fr, pos, kws, node):
        nm = ip.deref(s, pos[0])
        s.trace.append(("import", nm.t, s.loc["$j"].t))
        jj = s.loc["$j"].t
        # component index of the name being resolved: 0 before the loop, j+1 inside it
        ip.require(s, "import:the-module-imported-is-the-dotted-prefix-up-to-the-component-being-resolved", nm.t == PREFIX(path.t, jj + 1), P)
        ok = s.fork()
        ok.tags.append("import:ok")
        r = RefV(IMPORTED(nm.t))
        ok.assume(r.t != NONE)
        bad = s.fork()
        bad.tags.append("import:fails")
        e = ExcV("ImportError", [])
        e.origin = "import"
        return [(ok, r), (bad, Exit(Exit.RAISE, e))]

    th.hooks["import_module"] = import_module

    def getattr_(s, fr, pos, kws, node):
        obj, nm = ip.deref(s, pos[0]), ip.deref(s, pos[1])
        s.trace.append(("getattr", obj.t, nm.t, s.loc["$j"].t))
        ok = s.fork()
        ok.tags.append("attr:found")
        r = RefV(ATTR(obj.t, nm.t))
        bad = s.fork()
        bad.tags.append("attr:missing")
        e = ExcV("AttributeError", [])
        e.origin = "getattr"
        return [(ok, r), (bad, Exit(Exit.RAISE, e))]

    th.hooks["getattr"] = getattr_

    fi = ip.repo.get("helpers.resolve_dotted_path")
    # the two locals of the invariant are found by their role, not by their name: `<acc> = <parts>.pop(0)`
    acc_name = parts_name = None
    for n in _ast.walk(fi.node):
        if (isinstance(n, _ast.Assign) and len(n.targets) == 1 and isinstance(n.targets[0], _ast.Name) and isinstance(n.value, _ast.Call)
                and isinstance(n.value.func, _ast.Attribute) and n.value.func.attr == "pop" and isinstance(n.value.func.value, _ast.Name)):
            acc_name, parts_name = n.targets[0].id, n.value.func.value.id
        if (isinstance(n, _ast.Assign) and len(n.targets) == 1 and isinstance(n.targets[0], _ast.Tuple) and len(n.targets[0].elts) == 2 and isinstance(n.targets[0].elts[0], _ast.Name)
                and isinstance(n.targets[0].elts[1], _ast.Starred) and isinstance(n.targets[0].elts[1].value, _ast.Name)):
            acc_name, parts_name = n.targets[0].elts[0].id, n.targets[0].elts[1].value.id  # `<acc>, *<parts> = path.split(".")`
    if acc_name is None:
        raise Unsupported("resolve_dotted_path: the statement `<name> = <components>.pop(0)` was not found (anchor of the loop invariant)")

    def inv(c):
        mn, parts = c.loc(acc_name), c.loc(parts_name)
        return [("the-name-to-import-next-is-built-from-the-dotted-prefix-consumed-so-far", mn.t == PREFIX(path.t, c.i) if isinstance(mn, StrV) else z3.BoolVal(False)),
                ("components-are-consumed-in-order", z3.BoolVal(False) if not isinstance(parts, PartsV) else parts.off == 1)]

    ip.loopspecs[("helpers.resolve_dotted_path", 1)] = LoopSpec(inv, P, name="each-component")
    for s, v in ip.exec_function(st, fi, None, {"dotted_path": path}):
        if isinstance(v, Exit):
            ip.require(s, f"raises:only-ImportError/AttributeError-of-the-failing-lookup:{v.val.cls}", z3.BoolVal(v.val.cls in ("ImportError", "AttributeError") and getattr(v.val, "origin", "") in ("import", "getattr")), P)
            continue
        ga = [e for e in s.trace if e[0] == "getattr"]
        ip.require(s, "post:returns-the-object-found-by-the-last-lookup", z3.BoolVal(isinstance(v, RefV)), P)


# ======================================================================================================
# the bundled client (client.ControlClient): what it sends is what the session expects
# (C16: its handshake is the one-line JSON object with the key the session reads; C18: one line per command, one read per
#  line).  Socket behaviour itself is C19 (not applicable).
# ======================================================================================================
CLI = "client.ControlClient."


class ClientTheory(ControlTheory):
    def initial(self) -> St:
        st = St()
        st.me = fresh("me", Ref)
        st.sh = {"_conn_kwargs": RefV(z3.Const("CONN_KWARGS", Ref)), "_connected": BoolV(fresh("connected", B))}
        return st


def cli_unit(name, props, functions):
    def deco(fn):
        UNITS.append(Unit(name, fn, props, functions, theory_factory=ClientTheory, trusted=TRUSTED2 + ["input()/print(): console i/o of the client process; json.dumps is pure"]))
        return fn

    return deco


@cli_unit("client.ControlClient", ("C16", "C18"), [CLI + "_client_info", CLI + "_server_handshake", CLI + "_get_command", CLI + "_interact", CLI + "start"])
def u_client(ip: Interp, th: ClientTheory):
    P = ("C16", "C18")
    COLS = z3.Const("client_terminal_columns", I)
    th.hooks["shutil.get_terminal_size"] = lambda s, fr, pos, kws, node: [(s, RefV(z3.Const("TERMINAL_SIZE", Ref)))]
    th.hooks["attr.columns"] = lambda s, fr, v: [(s, IntV(COLS))]
    dumps = z3.Function("json_dumps_width", I, S)

    def json_dumps(s, fr, pos, kws, node):
        v = ip.deref(s, pos[0])
        ok = isinstance(v, KwV) and set(v.d) == {"terminal_width"} and isinstance(v.d["terminal_width"], IntV)
        ip.require(s, "handshake:the-client-info-is-{terminal_width:<columns>}(the-key-ControlSession.client_handshake-reads)", z3.BoolVal(ok), ("C16",))
        return [(s, StrV(dumps(v.d["terminal_width"].t) if ok else fresh("dumped", S)))]

    th.hooks["json.dumps"] = json_dumps

    def w_write(s, fr, recv, pos, kws, node):
        v = pos[0]
        s.trace.append(("write", v))
        return [(s, NoneV())]

    th.hooks["ref.write"] = w_write
    th.hooks["ref.drain"] = lambda s, fr, recv, pos, kws, node: [(s, CoroV("builtin", "drain", {}))]

    def aw_drain(s, fr, v, node):
        s.trace.append(("drain",))
        ok = s.fork()
        bad = s.fork()
        bad.tags.append("drain:connection-error")
        e = ExcV("ConnectionError", [], ref=fresh("exc", Ref))
        e.origin = "stream"
        return [(ok, NoneV()), (bad, Exit(Exit.RAISE, e))]

    th.hooks["await:drain"] = aw_drain
    th.hooks["ref.read"] = lambda s, fr, recv, pos, kws, node: [(s, CoroV("builtin", "read", {}))]
    th.hooks["await:read"] = lambda s, fr, v, node: (s.trace.append(("read",)), [(s, LineV(fresh("reply", S)))])[1]
    th.hooks["ref.close"] = lambda s, fr, recv, pos, kws, node: (s.trace.append(("close",)), [(s, NoneV())])[1]
    th.hooks["print"] = lambda s, fr, pos, kws, node: (s.trace.append(("print", len(pos), "file" in kws)), [(s, NoneV())])[1]
    orig_value_attr = th.value_attr

    def value_attr(s, fr, v, attr):
        if isinstance(v, BuiltinV) and v.recv is None and v.name == "sys" and attr == "stderr":
            return [(s, RefV(z3.Const("STDERR", Ref)))]
        return orig_value_attr(s, fr, v, attr)

    th.value_attr = value_attr
    reader, writer = RefV(z3.Const("CLIENT_READER", Ref)), RefV(z3.Const("CLIENT_WRITER", Ref))
    SELF = SelfV("ControlClient")

    def run(st, name, args):
        fi = ip.repo.get(CLI + name)
        fr0 = Frame(None, fi.module, SELF, 0, qual="@unit")
        if fi.is_async:
            return ip.run_repo(st, fr0, fi, SELF, args, awaited=True)
        return ip.exec_function(st, fi, SELF, args)

    # ---- _server_handshake ------------------------------------------------------------------------------------
    st = th.initial()
    for s, v in run(st, "_server_handshake", {"reader": reader, "writer": writer}):
        if isinstance(v, Exit):
            ip.require(s, "handshake:only-a-connection-error-escapes", z3.BoolVal(v.val.cls == "ConnectionError"), P)
            continue
        ws = [e[1] for e in s.trace if e[0] == "write"]
        ok = len(ws) == 2 and isinstance(ws[0], EncodedV) and isinstance(ws[1], BytesV) and ws[1].s == "\n"
        ip.require(s, "handshake:sends-exactly-one-line:json({terminal_width:columns})+newline", z3.And(z3.BoolVal(ok), ws[0].t == dumps(COLS)) if ok else z3.BoolVal(False), ("C16",))
        order = [e[0] for e in s.trace if e[0] in ("write", "drain", "read")]
        ip.require(s, "handshake:then-reads-the-server's-answer-once", z3.BoolVal(order == ["write", "write", "drain", "read"]), ("C16",))
        ip.require(s, "handshake:the-client-counts-as-connected", s.sh["_connected"].t, P)
    # ---- _get_command -------------------------------------------------------------------------------------------
    typed = fresh("typed_line", S)

    def input_(s, fr, pos, kws, node):
        outs = []
        ok = s.fork()
        ok.tags.append("input:line")
        outs.append((ok, StrV(typed)))
        for cls_ in ("EOFError", "KeyboardInterrupt"):
            b = s.fork()
            b.tags.append("input:" + cls_)
            outs.append((b, Exit(Exit.RAISE, ExcV(cls_, []))))
        return outs

    th.hooks["input"] = input_
    norm = z3.Function("str_lower", S, S)(z3.Function("str_strip", S, S)(typed))
    EXIT = sym.str_lit("exit")
    st = th.initial()
    c0 = st.sh["_connected"].t
    for s, v in run(st, "_get_command", {"writer": writer}):
        if isinstance(v, Exit):
            ip.require(s, f"_get_command:noraise:{v.val.cls}", z3.BoolVal(False), ("C18",))
            continue
        closed = [e for e in s.trace if e[0] == "close"]
        if "input:EOFError" in s.tags:
            ip.require(s, "_get_command:end-of-input-disconnects(closes-the-writer,no-command)", z3.And(z3.BoolVal(len(closed) == 1 and isinstance(v, NoneV)), z3.Not(s.sh["_connected"].t)), ("C18",))
        elif "input:KeyboardInterrupt" in s.tags:
            ip.require(s, "_get_command:ctrl-c-sends-nothing-and-stays-connected", z3.And(z3.BoolVal(not closed and isinstance(v, NoneV)), s.sh["_connected"].t == c0), ("C18",))
        else:
            is_exit = norm == EXIT
            if closed:
                ip.require(s, "_get_command:`exit`-disconnects", z3.And(is_exit, z3.BoolVal(isinstance(v, NoneV)), z3.Not(s.sh["_connected"].t)), ("C18",))
            elif isinstance(v, NoneV):
                ip.require(s, "_get_command:a-blank-line-sends-nothing", z3.And(z3.Not(is_exit), z3.Not(sym.str_nonempty(norm)), s.sh["_connected"].t == c0), ("C18",))
            else:
                ip.require(s, "_get_command:otherwise-the-typed-line(stripped,lower-cased)-is-the-command", z3.And(z3.Not(is_exit), v.t == norm, sym.str_nonempty(norm), s.sh["_connected"].t == c0) if isinstance(v, StrV) else z3.BoolVal(False), ("C18",))

    # ---- _interact: one line out, one read --------------------------------------------------------------------------
    def c_get_command(ip_, s, fr, selfv, args):
        a = s.fork()
        a.tags.append("cmd:none")
        b = s.fork()
        b.tags.append("cmd:text")
        t = fresh("cmd", S)
        b.assume(sym.str_nonempty(t))
        b.aux["cmd"] = t
        return [(a, NoneV()), (b, StrV(t))]

    ip.contracts[CLI + "_get_command"] = c_get_command
    st = th.initial()
    for s, v in run(st, "_interact", {"reader": reader, "writer": writer}):
        ws = [e[1] for e in s.trace if e[0] == "write"]
        rd = [e for e in s.trace if e[0] == "read"]
        if isinstance(v, Exit):
            ip.require(s, f"_interact:noraise:{v.val.cls}", z3.BoolVal(False), ("C18",))
        elif "cmd:none" in s.tags:
            ip.require(s, "_interact:no-command:nothing-is-sent-or-read", z3.BoolVal(not ws and not rd), ("C18",))
        else:
            ok = len(ws) == 2 and isinstance(ws[0], EncodedV) and isinstance(ws[1], BytesV) and ws[1].s == "\n"
            ip.require(s, "_interact:sends-the-command-as-exactly-one-line", z3.And(z3.BoolVal(ok), ws[0].t == s.aux["cmd"]) if ok else z3.BoolVal(False), ("C18",))
            if "drain:connection-error" in s.tags:
                ip.require(s, "_interact:a-lost-connection-disconnects-without-reading", z3.And(z3.BoolVal(not rd), z3.Not(s.sh["_connected"].t)), ("C18",))
            else:
                ip.require(s, "_interact:then-reads-exactly-one-reply(the-session-writes-exactly-one-per-line)", z3.BoolVal(len(rd) == 1), ("C18",))
    # ---- start ----------------------------------------------------------------------------------------------------------
    def c_open(ip_, s, fr, selfv, args):
        a = s.fork()
        a.tags.append("open:ok")
        b = s.fork()
        b.tags.append("open:failed")
        return [(a, TupleV([reader, writer])), (b, TupleV([NoneV(), NoneV()]))]

    ip.contracts[CLI + "_open_connection"] = c_open

    def c_handshake(ip_, s, fr, selfv, args):
        s.trace.append(("handshake",))
        s.sh["_connected"] = BoolV(True)
        return [(s, NoneV())]

    def c_interact(ip_, s, fr, selfv, args):
        s.trace.append(("interact",))
        s.sh["_connected"] = BoolV(fresh("still_connected", B))
        return [(s, NoneV())]

    ip.contracts[CLI + "_server_handshake"] = c_handshake
    ip.contracts[CLI + "_interact"] = c_interact
    streams_exist = z3.And(reader.t != NONE, writer.t != NONE)
    ip.loopspecs[(CLI + "start", 1)] = LoopSpec(lambda c: [("one-handshake-before-any-command", z3.BoolVal([e[0] for e in c.st.trace if e[0] in ("handshake", "interact")][:1] == ["handshake"] and
                                                                                                             len([e for e in c.st.trace if e[0] == "handshake"]) == 1))], ("C16",), name="interact-while-connected")
    st = th.initial()
    st.assume(streams_exist)
    for s, v in run(st, "start", {}):
        hs = [e for e in s.trace if e[0] == "handshake"]
        if isinstance(v, Exit):
            ip.require(s, f"start:noraise:{v.val.cls}", z3.BoolVal(False), P)
        elif "open:failed" in s.tags:
            ip.require(s, "start:no-connection:no-handshake,no-command", z3.BoolVal(not hs and not [e for e in s.trace if e[0] == "interact"]), P)
        else:
            ip.require(s, "start:exactly-one-handshake,before-the-first-command;ends-only-when-disconnected", z3.And(z3.BoolVal(len(hs) == 1), z3.Not(s.sh["_connected"].t)), P)


# ======================================================================================================
# helpers.get_first_doc_line   (C16: "-h/--help describing it" - computing the help text of a member must never fail, whatever
# its docstring; the contract `c_first_doc_line` used by add_function_command / add_property_command is verified here)
# ======================================================================================================
class LinesV(V):
    """result of str.split(sep[, n]) / str.splitlines(): only its length class matters here"""

    def __init__(self, src_t, may_be_empty: bool, how: str):
        self.src_t, self.may_be_empty, self.how = src_t, may_be_empty, how


class DocTheory(ControlTheory):
    def call_method(self, st, fr, recv, name, pos, kws, rest_kw, node):
        val = self.ip.deref(st, recv)
        if isinstance(val, StrV) and name == "split":
            return [(st, LinesV(val.t, False, "split"))]  # str.split(sep) always yields at least one piece
        if isinstance(val, StrV) and name == "splitlines":
            return [(st, LinesV(val.t, True, "splitlines"))]  # ''.splitlines() == []
        return super().call_method(st, fr, recv, name, pos, kws, rest_kw, node)

    def subscript(self, st, fr, c, key):
        if isinstance(c, LinesV) and isinstance(key, IntV) and z3.is_int_value(z3.simplify(key.t)) and z3.simplify(key.t).as_long() == 0:
            first = StrV(z3.Function("first_piece_" + c.how, S, S)(c.src_t))
            if not c.may_be_empty:
                return [(st, first)]
            out = []
            for s, b in self.ip.branch(st, sym.str_nonempty(c.src_t), "nonempty"):
                out.append((s, first) if b else (s, Exit(Exit.RAISE, ExcV("IndexError", []))))
            return out
        return super().subscript(st, fr, c, key)


def _doc_unit(ip: Interp, th: DocTheory):
    P = ("C16",)
    obj = RefV(fresh("a_member", Ref))
    doc = fresh("docstring", S)

    def getdoc(s, fr, pos, kws, node):
        a = s.fork()
        a.tags.append("doc:none")
        b = s.fork()
        b.tags.append("doc:text")  # any string, the empty one included (inspect.getdoc of a whitespace-only docstring is '')
        return [(a, NoneV()), (b, StrV(doc))]

    th.hooks["getdoc"] = getdoc
    st = th.initial()
    for s, v in ip.exec_function(st, ip.repo.get("helpers.get_first_doc_line"), None, {"obj": obj}):
        if isinstance(v, Exit):
            ip.require(s, f"noraise:the-help-text-of-a-member-can-always-be-computed(any-docstring,also-empty):{v.val.cls}", z3.BoolVal(False), P)
            continue
        ip.require(s, "post:None-without-docstring-else-a-string", z3.BoolVal(isinstance(v, NoneV) == ("doc:none" in s.tags) and isinstance(v, (NoneV, StrV))), P)


UNITS.append(Unit("helpers.get_first_doc_line", _doc_unit, ("C16",), ["helpers.get_first_doc_line"], theory_factory=DocTheory,
                  trusted=TRUSTED2 + ["inspect.getdoc returns None or a (possibly empty) string; str.split(sep) yields at least one piece, ''.splitlines() is empty"]))


# ---- the concrete servers start a server whose connections go to the callback they are given (contract assumed in
# ---- ControlServer.serve_forever's unit for the abstract `_get_server_instance`) ---------------------------------------
@srv_unit("server.TCP/UnixControlServer._get_server_instance", ("C16", "C18"), ["server.TCPControlServer._get_server_instance", "server.UnixControlServer._get_server_instance"])
def u_get_server_instance(ip: Interp, th: ServerTheory):
    P = ("C16", "C18")
    for cls_, starter, fields in (("TCPControlServer", "start_server", {"_host": RefV(fresh("host", Ref)), "_port": RefV(fresh("port", Ref))}),
                                  ("UnixControlServer", "self._start_unix_server", {"_socket_path": RefV(fresh("socket_path", Ref))})):
        st = th.initial()
        st.sh.update(fields)
        cb = RefV(fresh("a_client_connected_cb", Ref))
        started = fresh("started_server", Ref)

        def start(s, fr, pos, kws, node, starter=starter):
            return [(s, CoroV("builtin", "start_server", {"pos": list(pos), "kws": dict(kws)}))]

        th.hooks[starter] = start

        def aw(s, fr, v, node):
            s.trace.append(("start_server", v.args["pos"], v.args["kws"]))
            ok = s.fork()
            bad = s.fork()
            e = ExcV("OSError", [])
            e.origin = "server"
            return [(ok, RefV(started)), (bad, Exit(Exit.RAISE, e))]

        th.hooks["await:start_server"] = aw
        fi = ip.repo.get(f"server.{cls_}._get_server_instance")
        fr0 = Frame(None, fi.module, SelfV(cls_), 0, qual="@unit")
        for s, v in ip.run_repo(st, fr0, fi, SelfV(cls_), {"client_connected_cb": cb, "kwargs": KwV({})}, awaited=True):
            ss = [e for e in s.trace if e[0] == "start_server"]
            if isinstance(v, Exit):
                ip.require(s, f"{cls_}:only-the-failure-of-the-start-escapes", z3.BoolVal(v.val.cls == "OSError" and len(ss) == 1), P)
                continue
            ok = len(ss) == 1 and len(ss[0][1]) >= 2 and isinstance(ss[0][1][0], RefV)
            addr_ok = ok and all(isinstance(a, RefV) for a in ss[0][1][1:]) and [a.t for a in ss[0][1][1:]] == [f.t for f in fields.values()] if ok else False
            ip.require(s, f"{cls_}:starts-exactly-one-server-with-the-given-connection-callback-at-its-own-address-and-returns-it",
                       z3.And(z3.BoolVal(bool(addr_ok)), ss[0][1][0].t == cb.t, v.t == started) if ok and isinstance(v, RefV) else z3.BoolVal(False), P)


# ======================================================================================================
# documented defaults of the public API (mechanical, from the real signatures): a command that omits an option, and a caller
# that omits an argument, get exactly these (C04 num=1, C05 num_concurrent=1, C12 return_exceptions=False, C09/C10 group_name
# None -> generated name, C06/C07 msg=None, C01 pool_size=inf)
# ======================================================================================================
PUBLIC_DEFAULTS = {
    "pool.BaseTaskPool.__init__": {"pool_size": "inf", "name": None},
    "pool.BaseTaskPool.flush": {"return_exceptions": False},
    "pool.BaseTaskPool.gather_and_close": {"return_exceptions": False},
    "pool.BaseTaskPool.cancel": {"msg": None},
    "pool.BaseTaskPool.cancel_group": {"msg": None},
    "pool.BaseTaskPool.cancel_all": {"msg": None},
    "pool.BaseTaskPool._start_task": {"group_name": "DEFAULT_TASK_GROUP", "ignore_lock": False, "end_callback": None, "cancel_callback": None},
    "pool.BaseTaskPool._check_start": {"awaitable": None, "function": None, "ignore_lock": False},
    "pool.TaskPool.apply": {"args": (), "kwargs": None, "num": 1, "group_name": None, "end_callback": None, "cancel_callback": None},
    "pool.TaskPool.map": {"num_concurrent": 1, "group_name": None, "end_callback": None, "cancel_callback": None},
    "pool.TaskPool.starmap": {"num_concurrent": 1, "group_name": None, "end_callback": None, "cancel_callback": None},
    "pool.TaskPool.doublestarmap": {"num_concurrent": 1, "group_name": None, "end_callback": None, "cancel_callback": None},
    "pool.SimpleTaskPool.__init__": {"args": (), "kwargs": None, "end_callback": None, "cancel_callback": None, "pool_size": "inf", "name": None},
    "parser.ControlParser.add_class_commands": {"public_only": True, "omit_members": (), "member_arg_name": "CMD"},
    "parser.ControlParser.add_function_command": {"omit_params": "OMIT_PARAMS_DEFAULT"},
    "parser.ControlParser.add_function_args": {"omit": "OMIT_PARAMS_DEFAULT"},
    "parser.ControlParser.__init__": {"terminal_width": None},
    "helpers.execute_optional": {"args": (), "kwargs": None},
}
MODULE_CONSTANTS = {"parser": {"OMIT_PARAMS_DEFAULT": ("self",)}, "constants": {"CMD": "command", "CMD_OK": b"ok", "DEFAULT_TASK_GROUP": "default"}}


def _defaults_unit(ip: Interp, th: ControlTheory):
    st = th.initial()
    P = ("C04", "C05", "C09", "C12", "C16", "C17")
    for q, want in PUBLIC_DEFAULTS.items():
        fi = ip.repo.functions.get(q)
        if fi is None:
            ip.require(st, f"defaults:{q}:function-exists", z3.BoolVal(False), P)
            continue
        a = fi.node.args
        pos = a.posonlyargs + a.args
        got = {}
        for p_, d in zip(pos[len(pos) - len(a.defaults):], a.defaults):
            got[p_.arg] = d
        for p_, d in zip(a.kwonlyargs, a.kw_defaults):
            if d is not None:
                got[p_.arg] = d
        for name, val in want.items():
            d = got.get(name)
            if d is None:
                ok = False
            elif isinstance(val, str) and val in ("inf", "DEFAULT_TASK_GROUP", "CMD", "OMIT_PARAMS_DEFAULT"):
                ok = isinstance(d, _ast.Name) and d.id == val
            elif val == ():
                # an empty collection, however it is spelled (only membership / unpacking is ever applied to it)
                ok = (isinstance(d, (_ast.Tuple, _ast.List)) and not d.elts) or (isinstance(d, _ast.Call) and isinstance(d.func, _ast.Name) and d.func.id in ("frozenset", "set", "tuple", "list") and not d.args and not d.keywords)
            else:
                try:
                    ok = _ast.literal_eval(d) == val and type(_ast.literal_eval(d)) is type(val)
                except Exception:
                    ok = False
            ip.require(st, f"defaults:{q.split('.', 1)[1]}({name}={val!r})", z3.BoolVal(bool(ok)), P, meta={"found": _ast.unparse(d) if d is not None else "no default"})
    for mod, consts in MODULE_CONSTANTS.items():
        for name, val in consts.items():
            if name == "OMIT_PARAMS_DEFAULT":
                # what matters is the membership test `param.name not in omit`: a tuple / list / set / frozenset holding exactly
                # "self" (a plain string would turn it into a substring test: parameters named s, e, l, f, el, ... vanish)
                expr = None
                for n_ in ip.repo.modules[mod].body:
                    if isinstance(n_, (_ast.Assign, _ast.AnnAssign)):
                        tg = n_.targets[0] if isinstance(n_, _ast.Assign) else n_.target
                        if isinstance(tg, _ast.Name) and tg.id == name and n_.value is not None:
                            expr = n_.value
                inner = expr
                if isinstance(inner, _ast.Call) and isinstance(inner.func, _ast.Name) and inner.func.id in ("frozenset", "set", "tuple", "list") and len(inner.args) == 1 and not inner.keywords:
                    inner = inner.args[0]
                if isinstance(inner, (_ast.Tuple, _ast.List, _ast.Set)) and all(isinstance(e_, _ast.Constant) for e_ in inner.elts):
                    ok = {e_.value for e_ in inner.elts} == {"self"}
                elif isinstance(inner, _ast.Constant):
                    ok = False
                else:
                    raise Unsupported(f"{mod}.{name} is neither a display of constants nor a constant: {_ast.unparse(expr) if expr is not None else 'not assigned'}")
                ip.require(st, f"constants:{mod}.{name}:a-collection-(not-a-string)-holding-exactly-'self'", z3.BoolVal(ok), P, meta={"found": _ast.unparse(expr)})
                continue
            ip.require(st, f"constants:{mod}.{name}=={val!r}", z3.BoolVal(ip.repo.consts.get(mod, {}).get(name) == val), P, meta={"found": repr(ip.repo.consts.get(mod, {}).get(name))})


UNITS.append(Unit("api.documented-defaults", _defaults_unit, ("C04", "C05", "C09", "C12", "C16", "C17"), list(PUBLIC_DEFAULTS), theory_factory=ControlTheory,
                  trusted=["defaults are read from the real signatures (AST); `inf` is math.inf"]))


# ---- the concrete servers' constructors set what _get_server_instance / _final_callback read, and initialise the base ------
@srv_unit("server.TCP/UnixControlServer.__init__", ("C16", "C18"), ["server.TCPControlServer.__init__", "server.UnixControlServer.__init__", SRV + "__init__"])
def u_server_init(ip: Interp, th: ServerTheory):
    P = ("C16", "C18")
    from .control_theory import SuperObjV  # noqa: F401

    def super_init(s, fr, pos, kws, node):
        s.trace.append(("super.__init__", list(pos), dict(kws)))
        return [(s, NoneV())]

    th.hooks["super.__init__"] = super_init
    th.hooks["Path"] = lambda s, fr, pos, kws, node: [(s, RefV(z3.Function("Path_of", Ref, Ref)(ip.deref(s, pos[0]).t)))]
    pool = RefV(z3.Const("POOL", Ref))
    for cls_, params, fields in (("TCPControlServer", {"host": RefV(fresh("a_host", Ref)), "port": RefV(fresh("a_port", Ref))}, ("_host", "_port")),
                                 ("UnixControlServer", {"socket_path": RefV(fresh("a_socket_path", Ref))}, ("_socket_path", "_start_unix_server"))):
        st = th.initial()
        st.sh = {f: RefV(fresh("unset", Ref)) for f in fields}
        unset = {f: st.sh[f].t for f in fields}
        # `from asyncio.streams import start_unix_server` inside the constructor: the imported function as an opaque object
        ip.consts["start_unix_server"] = RefV(z3.Const("asyncio.streams.start_unix_server", Ref))
        args = {"pool": pool, "server_kwargs": KwV({}), **params}
        orig = th.may_set_field
        for s, v in ip.exec_function(st, ip.repo.get(f"server.{cls_}.__init__"), SelfV(cls_), args):
            si = [e for e in s.trace if e[0] == "super.__init__"]
            ok = not isinstance(v, Exit) and len(si) == 1 and len(si[0][1]) == 1 and isinstance(si[0][1][0], RefV)
            ip.require(s, f"{cls_}.__init__:initialises-the-base-with-the-pool-once", z3.And(z3.BoolVal(ok), si[0][1][0].t == pool.t) if ok else z3.BoolVal(False), P)
            for f in fields:
                val = s.sh[f]
                ip.require(s, f"{cls_}.__init__:sets-{f}", z3.BoolVal(not (isinstance(val, RefV) and z3.eq(val.t, unset[f]))), P)
            if cls_ == "TCPControlServer":
                ip.require(s, "TCPControlServer.__init__:host-and-port-are-the-ones-given", z3.And(s.sh["_host"].t == params["host"].t, s.sh["_port"].t == params["port"].t) if all(isinstance(s.sh[f], RefV) for f in fields) else z3.BoolVal(False), P)
    # base class: remembers pool and kwargs, no server yet
    st = th.initial()
    st.sh = {"_pool": RefV(fresh("u0", Ref)), "_server_kwargs": KwV({"stale": NoneV()}), "_server": RefV(fresh("u2", Ref))}
    kw = KwV({})
    for s, v in ip.exec_function(st, ip.repo.get(SRV + "__init__"), SelfV("ControlServer"), {"pool": pool, "server_kwargs": kw}):
        ip.require(s, "ControlServer.__init__:remembers-the-pool,no-server-yet", z3.And(z3.BoolVal(not isinstance(v, Exit)), s.sh["_pool"].t == pool.t, s.sh["_server"].t == NONE) if isinstance(s.sh["_server"], RefV) else z3.BoolVal(False), P)
