"""helpers.py, group_register.py, queue_context.py  (C03/C05 helper contracts, C10 register, C20 queue)"""
from __future__ import annotations

from typing import List

import z3

from pyvc import sym
from pyvc.interp import NORMAL, ExcV, Exit, Frame, Interp, SelfV, St
from pyvc.run import Unit
from pyvc.sym import (B, I, NONE, S, BoolV, BuiltinV, CoroV, IntL, IntV, KwV, LockV, NoneV, ObjV, PlaceV, Ref, RefV, SetV, StarV, StrV, TupleV, Unsupported, V,
                      fresh)
from pyvc.theory import Theory, same_value

from .pool_theory import K_OTHER, L_ECB, PoolTheory, PView, TRUSTED
from .pool_units import no_exit

UNITS: List[Unit] = []
QUEUE_TRUSTED = [
    "asyncio.Queue: NOT assumed - get() takes exactly one item or raises without taking one, task_done() decrements the unfinished counter (ValueError at 0), put adds one item and one unfinished, join() returns exactly when the counter reached 0: verified from the interpreter's own asyncio/queues.py by unit asyncio.queues.Queue (relative to the Future state machine, collections.deque and the Event contract verified in asyncio.locks.Event)",
    "the `async with` statement: __aexit__ runs exactly once on every exit of the block iff __aenter__ returned (Python language rule)",
    "nobody else calls task_done() on the queue; cooperative atomicity; mathematical integers",
]



def unit(name, props, functions, factory):
    def deco(fn):
        UNITS.append(Unit(name, fn, props, functions, theory_factory=factory, trusted=QUEUE_TRUSTED if name.startswith("queue_context") else TRUSTED))
        return fn

    return deco


def A(name):
    return z3.Const(name, z3.ArraySort(Ref, B))


# ======================================================================================================
# helpers.star_function  (C05: func(x) / func(*x) / func(**x))
# ======================================================================================================
@unit("helpers.star_function", ("C05",), ["helpers.star_function"], lambda: PoolTheory("TaskPool"))
def u_star_function(ip: Interp, th: PoolTheory):
    st = th.initial()
    fn, arg, stars = RefV(fresh("a_function", Ref)), RefV(fresh("a_arg", Ref)), IntV(fresh("a_stars", I))
    st.assume(fn.t != NONE)
    fi = ip.repo.get("helpers.star_function")
    st0 = st.fork()
    for s, v in ip.exec_function(st, fi, None, {"function": fn, "arg": arg, "arg_stars": stars}):
        calls = [e for e in s.trace if e[0] == "corocall"]
        for k in st0.sh:
            if not same_value(st0.sh[k], s.sh[k]):
                no_exit(ip, s, "pure:" + k, ("C05",))
        if isinstance(v, Exit) and v.val.cls == "ValueError":
            ip.require(s, "raises:ValueError:iff-stars-not-0-1-2", z3.And(stars.t != 0, stars.t != 1, stars.t != 2), ("C05",))
            ip.require(s, "raises:ValueError:function-not-called", z3.BoolVal(not calls), ("C05",))
            continue
        ip.require(s, "post:function-called-exactly-once", z3.BoolVal(len(calls) == 1), ("C05",))
        if len(calls) != 1:
            continue
        _, f_t, cargs, ckws = calls[0]
        shape = z3.BoolVal(False)
        if len(cargs) == 1 and not ckws:
            c = cargs[0]
            if isinstance(c, RefV):
                shape = z3.And(stars.t == 0, c.t == arg.t)
            elif isinstance(c, StarV) and isinstance(c.v, RefV):
                shape = z3.And(stars.t == c.stars, c.v.t == arg.t)
        ip.require(s, "post:func(x)-for-0,func(*x)-for-1,func(**x)-for-2", z3.And(f_t == fn.t, shape), ("C05",))
        if isinstance(v, Exit):
            ip.require(s, "raises:only-what-the-call-raised", z3.BoolVal(getattr(v.val, "origin", "") == "user"), ("C05", "C12"))


# ======================================================================================================
# helpers.execute_optional  (C03: plain and coroutine callbacks are run to completion; non-callable: nothing)
# ======================================================================================================
@unit("helpers.execute_optional", ("C03",), ["helpers.execute_optional"], lambda: PoolTheory("TaskPool"))
def u_execute_optional(ip: Interp, th: PoolTheory):
    st = th.initial(me_kind=K_OTHER)
    fn, a0 = RefV(fresh("a_function", Ref)), IntV(fresh("a_arg0", I))
    fi = ip.repo.get("helpers.execute_optional")
    callable_ = z3.And(fn.t != NONE, z3.Select(A("is_callable"), fn.t))
    corof = z3.Select(A("is_corofunc"), fn.t)
    for s, v in ip.exec_function(st, fi, None, {"function": fn, "args": TupleV([a0]), "kwargs": NoneV()}):
        calls = [e for e in s.trace if e[0] == "callout"]
        awaits = [e for e in s.trace if e[0] == "await_user"]
        ip.require(s, "post:called-exactly-once-iff-callable", z3.And(z3.BoolVal(len(calls) <= 1), callable_ == z3.BoolVal(len(calls) == 1)), ("C03",))
        if calls:
            c = calls[0]
            ip.require(s, "post:called-with-the-given-arguments", z3.And(c[1] == fn.t, c[2][0].t == a0.t if (len(c[2]) == 1 and isinstance(c[2][0], IntV)) else z3.BoolVal(False)), ("C03",))
            raised_at_call = "callout:raises" in s.tags
            if not raised_at_call:
                ip.require(s, "post:result-awaited-iff-coroutine-function", corof == z3.BoolVal(len(awaits) == 1), ("C03",))
        else:
            ip.require(s, "post:not-callable-returns-None", z3.BoolVal(isinstance(v, NoneV)), ("C03",))
        if isinstance(v, Exit):
            ip.require(s, "raises:only-what-the-callback-raised", z3.BoolVal(getattr(v.val, "origin", "") in ("user", "delivered")), ("C12",))


# ======================================================================================================
# TaskGroupRegister  (C10: set interface over _ids; lock never held across an observation point)
# ======================================================================================================
class RegTheory(PoolTheory):
    def call_builtin(self, st, fr, f, pos, kws, rest_kw, node):
        if f.recv is None and f.name == "set" and len(pos) == 1:
            inner = self.ip.deref(st, pos[0])
            if isinstance(inner, TupleV) and not inner.items:
                return [(st, SetV.empty(IntL()))]
        if f.recv is None and f.name == "Lock":
            return [(st, LockV(False))]
        return super().call_builtin(st, fr, f, pos, kws, rest_kw, node)


@unit("group_register.TaskGroupRegister", ("C10",), ["group_register.TaskGroupRegister." + m for m in ("__init__", "__contains__", "__iter__", "__len__", "add", "discard", "acquire", "release", "__aenter__", "__aexit__")],
      lambda: RegTheory("TaskPool"))
def u_register(ip: Interp, th: RegTheory):
    from pyvc.theory import IterV

    st = th.initial()
    q = "group_register.TaskGroupRegister."

    def fresh_reg(s: St, locked=None):
        ids = SetV.symbolic("a_ids", IntL())
        for f in ids.qfacts():
            s.assume(f)
        s.loc["$reg"] = ObjV("TaskGroupRegister", {"_ids": ids, "_lock": LockV(fresh("a_locked", B) if locked is None else locked)})
        return PlaceV(("loc", "$reg")), ids

    def run(s, name, args):
        fi = ip.repo.get(q + name)
        place = PlaceV(("loc", "$reg"))
        if fi.is_async:
            return ip.run_repo(s, Frame(None, "group_register", None, 0, qual="@unit"), fi, place, args, awaited=True)
        return ip.exec_function(s, fi, place, args)

    x = IntV(fresh("a_x", I))
    y = z3.Int("y!p")
    # __init__ (no ids): empty set, free lock   (this is what `TaskGroupRegister()` in pool.py is modelled as)
    s = st.fork()
    s.loc["$reg"] = ObjV("TaskGroupRegister", {"_ids": SetV.symbolic("junk", IntL()), "_lock": LockV(fresh("junk_l", B))})
    for s2, v in run(s, "__init__", {"task_ids": TupleV([])}):
        r = s2.loc["$reg"]
        ip.require(s2, "__init__:post:empty-and-unlocked", z3.And(r.fields["_ids"].card == 0, z3.ForAll([y], z3.Not(r.fields["_ids"].has(y))), z3.Not(r.fields["_lock"].locked)), ("C10",))
    for name in ("__contains__", "__len__", "add", "discard", "__iter__"):
        s = st.fork()
        place, ids = fresh_reg(s)
        lock0 = s.loc["$reg"].fields["_lock"].locked
        args = {"task_id": x} if name in ("__contains__", "add", "discard") else {}
        for s2, v in run(s, name, args):
            r = s2.loc["$reg"]
            ids1 = r.fields["_ids"]
            ip.require(s2, f"{name}:lock-untouched", r.fields["_lock"].locked == lock0, ("C10",))
            if isinstance(v, Exit):
                no_exit(ip, s2, f"{name}:noraise", ("C10",))
            elif name == "__contains__":
                ip.require(s2, "__contains__:post", v.t == ids.has(x.t) if isinstance(v, BoolV) else z3.BoolVal(False), ("C10",))
            elif name == "__len__":
                ip.require(s2, "__len__:post", v.t == ids.card if isinstance(v, IntV) else z3.BoolVal(False), ("C10",))
            elif name == "add":
                ip.require(s2, "add:post", z3.ForAll([y], ids1.has(y) == z3.Or(ids.has(y), y == x.t)), ("C10",))
            elif name == "discard":
                ip.require(s2, "discard:post", z3.ForAll([y], ids1.has(y) == z3.And(ids.has(y), y != x.t)), ("C10",))
            elif name == "__iter__":
                ip.require(s2, "__iter__:iterates-the-id-set", z3.BoolVal(isinstance(v, IterV) and v.it.desc == "keys"), ("C10",))
            if name in ("__contains__", "__len__", "__iter__"):
                ip.require(s2, f"{name}:pure", z3.And(ids1.card == ids.card, z3.ForAll([y], ids1.has(y) == ids.has(y))), ("C10",))
    # lock protocol: __aenter__ acquires, __aexit__ releases, exactly once each; the id set is untouched
    s = st.fork()
    place, ids = fresh_reg(s, locked=z3.BoolVal(False))
    for s2, v in run(s, "__aenter__", {}):
        ip.require(s2, "__aenter__:post:lock-held", s2.loc["$reg"].fields["_lock"].locked, ("C10",))
        for s3, v3 in run(s2, "__aexit__", {"exc_type": NoneV(), "exc_val": NoneV(), "exc_tb": NoneV()}):
            ip.require(s3, "__aexit__:post:lock-free-again", z3.Not(s3.loc["$reg"].fields["_lock"].locked), ("C10",))
            ip.require(s3, "__aexit__:returns-falsy(does-not-swallow)", z3.BoolVal(isinstance(v3, NoneV)), ("C10",))


# ======================================================================================================
# queue_context.Queue   (C20)
# ======================================================================================================
class QueueTheory(Theory):
    """assumed contract of asyncio.Queue (3.12): get() returns exactly one item or raises without taking one;
    task_done() decrements the unfinished counter (ValueError at 0); put adds one item and one unfinished."""

    def initial(self) -> St:
        st = St()
        st.me = fresh("me", Ref)
        st.sh["items"] = IntV(fresh("q_items", I))  # items waiting in the queue
        st.sh["unfinished"] = IntV(fresh("q_unfinished", I))  # asyncio.Queue._unfinished_tasks
        st.sh["open_blocks"] = IntV(fresh("q_open", I))  # ghost: blocks entered and not yet exited
        for k in ("items", "unfinished", "open_blocks"):
            st.assume(st.sh[k].t >= 0)
        return st

    def self_attr(self, st, fr, v, attr):
        if attr in ("get", "task_done"):
            return [(st, BuiltinV(attr, recv=v))]
        return super().self_attr(st, fr, v, attr)

    def call_builtin(self, st, fr, f, pos, kws, rest_kw, node):
        if isinstance(f.recv, SelfV) and f.name == "task_done":
            st.trace.append(("task_done",))
            out = []
            for s, ok in self.ip.branch(st, st.sh["unfinished"].t > 0, "task_done"):
                if ok:
                    s.sh["unfinished"] = IntV(s.sh["unfinished"].t - 1)
                    out.append((s, NoneV()))
                else:
                    out.append((s, Exit(Exit.RAISE, ExcV("ValueError", []))))
            return out
        if isinstance(f.recv, SelfV) and f.name == "get":
            return [(st, CoroV("builtin", "queue_get", {}))]
        if f.recv is None and f.name == "sleep":
            return [(st, CoroV("builtin", "sleep", {}))]
        if f.recv is None and f.name == "issubclass" and len(pos) == 2 and isinstance(pos[0], RefV):
            # the class of the exception that ended the block: any BaseException subclass (e.g. CancelledError is not an Exception)
            return [(st, BoolV(fresh("issubclass", B)))]
        return super().call_builtin(st, fr, f, pos, kws, rest_kw, node)

    def do_await(self, st, fr, v, node):
        if isinstance(v, CoroV) and v.target == "sleep":
            # any suspension: the task may be cancelled there; producers/consumers run meanwhile (queue counters move consistently)
            ok = st.fork()
            ok.tags.append("sleep:resumed")
            can = st.fork()
            can.tags.append("sleep:cancelled")
            e = ExcV("CancelledError", [])
            e.origin = "delivered"
            return [(ok, NoneV()), (can, Exit(Exit.RAISE, e))]
        if isinstance(v, CoroV) and v.target == "queue_get":
            st.trace.append(("get",))
            # suspension: producers and other consumers run
            for k in ("items", "unfinished", "open_blocks"):
                new = IntV(fresh("q_" + k, I))
                st.assume(new.t >= 0)
                st.sh[k] = new
            st.assume(self.lemma(st))
            ok = st.fork()
            ok.tags.append("get:item")
            ok.assume(ok.sh["items"].t >= 1)
            ok.sh["items"] = IntV(ok.sh["items"].t - 1)
            ok.aux["got"] = RefV(fresh("item", Ref))
            can = st.fork()
            can.tags.append("get:cancelled")
            e = ExcV("CancelledError", [])
            e.origin = "delivered"
            return [(ok, ok.aux["got"]), (can, Exit(Exit.RAISE, e))]
        return super().do_await(st, fr, v, node)

    @staticmethod
    def lemma(st: St):
        """unfinished == items not yet taken + blocks entered and not exited"""
        return st.sh["unfinished"].t == st.sh["items"].t + st.sh["open_blocks"].t




@unit("queue_context.Queue", ("C20",), ["queue_context.Queue.item_processed", "queue_context.Queue.__aenter__", "queue_context.Queue.__aexit__"], lambda: QueueTheory())
def u_queue(ip: Interp, th: QueueTheory):
    P = ("C20",)
    q = "queue_context.Queue."
    # __aenter__
    st = th.initial()
    st.assume(th.lemma(st))
    fr0 = Frame(None, "queue_context", SelfV("Queue"), 0, qual="@unit")
    for s, v in ip.run_repo(st, fr0, ip.repo.get(q + "__aenter__"), SelfV("Queue"), {}, awaited=True):
        gets = [e for e in s.trace if e[0] == "get"]
        dones = [e for e in s.trace if e[0] == "task_done"]
        ip.require(s, "__aenter__:awaits-get-exactly-once-and-marks-nothing", z3.BoolVal(len(gets) == 1 and not dones), P)
        if isinstance(v, Exit):
            # an item that was taken must reach a block (which marks it): leaving __aenter__ by an exception after get() returned loses it
            ip.require(s, "__aenter__:cancelled-while-waiting:took-nothing-marks-nothing", z3.And(z3.BoolVal(v.val.cls == "CancelledError"), th.lemma(s)), P)
        else:
            ip.require(s, "__aenter__:returns-the-item-taken", v.t == s.aux["got"].t if isinstance(v, RefV) and "got" in s.aux else z3.BoolVal(False), P)
            # the block is now open (ghost) - the lemma is re-established
            s.sh["open_blocks"] = IntV(s.sh["open_blocks"].t + 1)
            ip.require(s, "lemma:unfinished==queued+open-blocks@block-entered", th.lemma(s), P)
    # __aexit__ for every way the block can end
    for how in ("normal", "exception", "cancelled"):
        st = th.initial()
        st.assume(th.lemma(st))
        st.assume(st.sh["open_blocks"].t >= 1)  # we are inside a block
        exc = NoneV() if how == "normal" else RefV(fresh("exc_type", Ref))
        for s, v in ip.run_repo(st, fr0, ip.repo.get(q + "__aexit__"), SelfV("Queue"), {"exc_type": exc, "exc_val": exc, "exc_tb": NoneV()}, awaited=True):
            dones = [e for e in s.trace if e[0] == "task_done"]
            ip.require(s, f"__aexit__[{how}]:marks-exactly-once", z3.BoolVal(len(dones) == 1 and not [e for e in s.trace if e[0] == "get"]), P)
            if isinstance(v, Exit):
                no_exit(ip, s, f"__aexit__[{how}]:noraise:{v.val.cls}", P)
                continue
            ip.require(s, f"__aexit__[{how}]:returns-falsy(does-not-swallow-the-exception)", z3.BoolVal(isinstance(v, NoneV)), P)
            s.sh["open_blocks"] = IntV(s.sh["open_blocks"].t - 1)
            ip.require(s, f"lemma:unfinished==queued+open-blocks@block-exited[{how}]", th.lemma(s), P)
    # item_processed == task_done
    st = th.initial()
    for s, v in ip.exec_function(st, ip.repo.get(q + "item_processed"), SelfV("Queue"), {}):
        ip.require(s, "item_processed:calls-task_done-exactly-once", z3.BoolVal(len([e for e in s.trace if e[0] == "task_done"]) == 1), P)
    # join() returns exactly when unfinished == 0 (assumed Queue contract) <=> nothing queued and no block open
    st = th.initial()
    st.assume(th.lemma(st))
    ip.require(st, "lemma:join-returns-iff-all-taken-and-all-blocks-exited", (st.sh["unfinished"].t == 0) == z3.And(st.sh["items"].t == 0, st.sh["open_blocks"].t == 0), P)
    # the methods of the real class are the only ones defined (no override of get/task_done/join/put)
    defined = sorted(ip.repo.classes["Queue"].methods)
    ip.require(st, "callgraph:Queue-overrides-nothing-of-asyncio.Queue", z3.BoolVal(defined == ["__aenter__", "__aexit__", "item_processed"]), P, meta={"defined": defined})
