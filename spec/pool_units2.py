"""Sequential contracts of the public pool API (one atomic segment each): C01 is_full lemma, C06/C07
cancellation, C09 rejection and lock/unlock, C10 groups, C14 stop, C15 pool_size, __init__."""
from __future__ import annotations

import z3

from pyvc import sym
from pyvc.interp import ExcV, Exit, Interp, LoopSpec, St
from pyvc.run import Unit
from pyvc.sym import (B, I, NONE, S, BoolV, ExtV, IntL, IntV, KwV, NoneV, ObjV, OptV, Ref, RefL, RefV, SemV, SeqV, SetV, StrV, TupleV, Unsupported, V,
                      fresh)
from pyvc.theory import ArrV, eq_value, same_value

from .pool_theory import (K_APPLY, K_MAP, K_NONE, K_OTHER, K_START, K_WRAPPER, L_BODY, L_CCB, L_DONE, L_ECB, L_NS, L_RUN, TRUSTED, PoolTheory,
                          PView, start_group_name)
from .pool_units import LOOPSPECS, UNITS, install, is_raise, no_exit, requested, run_body, unchanged, unit, _as_state

P_B = "pool.BaseTaskPool."
P_T = "pool.TaskPool."
P_S = "pool.SimpleTaskPool."


# ======================================================================================================
# lock / unlock / counters / is_full     (C09, C01, C03)
# ======================================================================================================
@unit(P_B + "lock+unlock+is_locked", ("C09",), [P_B + "lock", P_B + "unlock", P_B + "is_locked.getter"])
def u_lock(ip: Interp, th: PoolTheory):
    for name, want in (("lock", True), ("unlock", False)):
        st = th.initial()
        if name == "unlock":
            st.assume(z3.Not(st.sh["closing"].t))  # assumption U5: nobody unlocks while gather_and_close is in progress
        st0 = st.fork()
        for s, v in run_body(ip, th, st, P_B + name, {}):
            th.check_point(s, f"{name}:exit")
            if isinstance(v, Exit):
                no_exit(ip, s, f"{name}:noraise", ("C09",))
                continue
            ip.require(s, f"{name}:post:locked=={want}", s.sh["_locked"].t == z3.BoolVal(want), ("C09",))
            unchanged(ip, s, st0, f"{name}:only-the-lock-flag-changes", ("C09",), except_=("_locked",))
            # idempotence: a second call changes nothing more
            s1 = s.fork()
            for s2, v2 in run_body(ip, th, s1, P_B + name, {}):
                unchanged(ip, s2, s, f"{name}:idempotent", ("C09",))
    st = th.initial()
    for s, v in run_body(ip, th, st, P_B + "is_locked.getter", {}):
        ip.require(s, "is_locked:reports-the-flag", z3.BoolVal(False) if isinstance(v, Exit) else v.t == st.sh["_locked"].t, ("C09",))


@unit(P_B + "num_running+num_cancelled+num_ended+is_full", ("C01", "C03"), [P_B + "num_running.getter", P_B + "num_cancelled.getter", P_B + "num_ended.getter", P_B + "is_full.getter"])
def u_counters(ip: Interp, th: PoolTheory):
    for name, comp in (("num_running", "_tasks_running"), ("num_cancelled", "_tasks_cancelled"), ("num_ended", "_tasks_ended")):
        st = th.initial()
        st0 = st.fork()
        for s, v in run_body(ip, th, st, P_B + name + ".getter", {}):
            unchanged(ip, s, st0, name + ":pure", ("C03",))
            ip.require(s, name + ":post:is-the-registry-size", z3.BoolVal(False) if not isinstance(v, IntV) else v.t == st0.sh[comp].card, ("C03", "C01"))
    st = th.initial()
    st0 = st.fork()
    p = PView(st0)
    for s, v in run_body(ip, th, st, P_B + "is_full.getter", {}):
        unchanged(ip, s, st0, "is_full:pure", ("C01",))
        if not isinstance(v, BoolV):
            no_exit(ip, s, "is_full:returns-bool", ("C01",))
            continue
        # lemmas (pure implications over Inv, with the real result of is_full)
        ip.require(s, "lemma:num_running-never-exceeds-size", z3.Implies(z3.Not(p.size.inf), p.R.card + p.C.card <= p.size.k), ("C01",))
        idle = z3.And(p.sem.g == 0, p.C.card == 0)
        ip.require(s, "lemma:idle=>is_full-iff-running==size", z3.Implies(idle, v.t == z3.And(z3.Not(p.size.inf), p.R.card == p.size.k)), ("C01",))
        ip.require(s, "lemma:size-0-is-always-full", z3.Implies(z3.And(z3.Not(p.size.inf), p.size.k == 0), v.t), ("C01",))
        ip.require(s, "lemma:unbounded-is-never-full", z3.Implies(p.size.inf, z3.Not(v.t)), ("C01",))
        ip.require(s, "lemma:quiescent=>full-capacity-available", z3.Implies(z3.And(p.R.card == 0, p.C.card == 0, z3.Not(p.size.inf)), p.sem.v.k + p.sem.g == p.size.k), ("C02",))


# ======================================================================================================
# get_group_ids   (C10)
# ======================================================================================================
def _names_seq(prefix="a_names"):
    n = fresh(prefix + "_n", I)
    return SeqV(n, [fresh(prefix, z3.ArraySort(I, S))], sym.StrL())


def inv_get_group_ids(c):
    names: SeqV = c.loc("group_names")
    ids: SetV = c.loc("ids")
    p = PView(c.st)
    j, x = z3.Int("j!l"), z3.Int("x!l")
    nm = lambda jj: z3.Select(names.arrs[0], jj)
    return [("all-visited-exist", z3.ForAll([j], z3.Implies(z3.And(0 <= j, j < c.i), p.G.has(nm(j))))),
            ("ids-is-union-of-visited", z3.ForAll([x], ids.has(x) == z3.Exists([j], z3.And(0 <= j, j < c.i, p.Gids(nm(j), x)))))]


LOOPSPECS[(P_B + "get_group_ids", 1)] = LoopSpec(inv_get_group_ids, ("C10",), name="collect", sig="group_names")


@unit(P_B + "get_group_ids", ("C10",), [P_B + "get_group_ids", "group_register.TaskGroupRegister.__iter__"])
def u_get_group_ids(ip: Interp, th: PoolTheory):
    install(ip)
    th.set_layouts = {"ids": IntL()}
    st = th.initial()
    names = _names_seq()
    st.assume(names.n >= 0)
    st0 = st.fork()
    p = PView(st0)
    j, x = z3.Int("j!p"), z3.Int("x!p")
    nm = lambda jj: z3.Select(names.arrs[0], jj)
    for s, v in run_body(ip, th, st, P_B + "get_group_ids", {"group_names": names}):
        unchanged(ip, s, st0, "pure", ("C10",))
        if isinstance(v, Exit):
            if v.val.cls != "TaskGroupNotFound":
                no_exit(ip, s, "noraise:" + v.val.cls, ("C10",))
                continue
            j0 = fresh("j0", I)
            ip.require(s, "raises:TaskGroupNotFound:only-for-an-unknown-name", z3.Exists([j], z3.And(0 <= j, j < names.n, z3.Not(p.G.has(nm(j))))), ("C10",))
            continue
        if not isinstance(v, SetV):
            no_exit(ip, s, "post:returns-a-set", ("C10",))
            continue
        ip.require(s, "post:all-names-exist", z3.ForAll([j], z3.Implies(z3.And(0 <= j, j < names.n), p.G.has(nm(j)))), ("C10",))
        ip.require(s, "post:exactly-the-union-of-the-named-groups", z3.ForAll([x], v.has(x) == z3.Exists([j], z3.And(0 <= j, j < names.n, p.Gids(nm(j), x)))), ("C10",))


# ======================================================================================================
# _cancel_group_meta_tasks / _cancel_and_remove_all_from_group / cancel_group / cancel_all   (C07)
# ======================================================================================================
def _meta_prefix(c, seqarr, upto):
    j = z3.Int("j!l")
    return lambda t: z3.Exists([j], z3.And(0 <= j, j < upto, z3.Select(seqarr, j) == t))


def inv_cancel_group_meta(c):
    it = c.it
    return [("requested-prefix", requested(c.st0, c.st, _meta_prefix(c, it.seq, c.i))),
            ("waiters-only-shrink", z3.And(c.st.sh["_enough_room"].P <= c.st0.sh["_enough_room"].P, c.st.sh["_enough_room"].P >= 0,
                                           c.st.sh["_enough_room"].g == c.st0.sh["_enough_room"].g, c.st.sh["_enough_room"].out == c.st0.sh["_enough_room"].out,
                                           c.st.sh["_enough_room"].v.same(c.st0.sh["_enough_room"].v)))]


LOOPSPECS[(P_B + "_cancel_group_meta_tasks", 1)] = LoopSpec(inv_cancel_group_meta, ("C07",), name="cancel-metas", sig="meta_tasks")


def sem_only_waiters_shrunk(s0, s1):
    a, b = s0["_enough_room"], s1["_enough_room"]
    return z3.And(b.P <= a.P, b.P >= 0, b.g == a.g, b.out == a.out, b.v.same(a.v))


def inv_cancel_and_remove(c):
    """while group_reg: ... ; st0 is the state at loop entry (after the meta tasks were cancelled)"""
    reg: ObjV = c.loc("group_reg")
    reg0: ObjV = c.loc0("group_reg")
    ids, ids0 = reg.fields["_ids"], reg0.fields["_ids"]
    p0 = PView(c.st0)
    x = z3.Int("x!l")
    done = lambda t: z3.Exists([x], z3.And(ids0.has(x), z3.Not(ids.has(x)), p0.R.has(x), p0.Rv(x) == t))
    return [("remaining-subset", z3.ForAll([x], z3.Implies(ids.has(x), ids0.has(x)))),
            ("requested-the-removed-running-ones", requested(c.st0, c.st, done)),
            ("waiters-only-shrink", sem_only_waiters_shrunk(c.st0.sh, c.st.sh))]


LOOPSPECS[(P_B + "_cancel_and_remove_all_from_group", 1)] = LoopSpec(inv_cancel_and_remove, ("C07",), name="cancel-members", sig="group_reg",
                                                                         variant=lambda c: c.loc("group_reg").fields["_ids"].card)  # every turn pops one id


def cancel_and_remove_post(st0: St, s: St, g, ids0: SetV):
    """effect of _cancel_and_remove_all_from_group(g, reg) with reg.ids == ids0 on entry"""
    p0, p1 = PView(st0), PView(s)
    t = z3.Const("t!p", Ref)
    x = z3.Int("x!p")
    h = z3.Const("h!p", S)
    was_meta = lambda tt: z3.And(p0.M.has(g), p0.Mset(g, tt))
    was_member = lambda tt: z3.Exists([x], z3.And(ids0.has(x), p0.R.has(x), p0.Rv(x) == tt))
    cl = [("exactly-the-group's-spawners-and-running-tasks-requested", requested(st0, s, lambda tt: z3.Or(was_meta(tt), was_member(tt)))),
          ("meta-entry-forgotten", z3.And(z3.Not(p1.M.has(g)), z3.ForAll([h], z3.Implies(h != g, z3.And(p1.M.has(h) == p0.M.has(h), z3.Select(p1.M.cols[0], h) == z3.Select(p0.M.cols[0], h)))))),
          ("spawners-moved-to-cancelled-set", z3.ForAll([t], p1.MC.has(t) == z3.Or(p0.MC.has(t), was_meta(t)))),
          ("waiters-only-shrink", sem_only_waiters_shrunk(st0.sh, s.sh))]
    return cl


CR_MODIFIES = ("_group_meta_tasks_running", "_meta_tasks_cancelled", "creq", "cever", "_enough_room")


@unit(P_B + "_cancel_and_remove_all_from_group", ("C07", "C02", "C03"), [P_B + "_cancel_and_remove_all_from_group", P_B + "_cancel_group_meta_tasks",
                                                                         "group_register.TaskGroupRegister.__len__", "group_register.TaskGroupRegister.discard"])
def u_cancel_and_remove(ip: Interp, th: PoolTheory):
    install(ip)
    st = th.initial()
    g = StrV(fresh("a_group", S))
    reg = ObjV("TaskGroupRegister", {"_ids": SetV.symbolic("a_reg", IntL()), "_lock": sym.LockV(False)})
    for f in reg.fields["_ids"].qfacts():
        st.assume(f)
    st0 = st.fork()
    ids0 = reg.fields["_ids"]
    for s, v in run_body(ip, th, st, P_B + "_cancel_and_remove_all_from_group", {"group_name": g, "group_reg": reg, "cancel_kw": KwV({})}):
        if isinstance(v, Exit):
            no_exit(ip, s, "noraise:" + v.val.cls, ("C07",))
            continue
        for name, f in cancel_and_remove_post(st0, s, g.t, ids0):
            ip.require(s, "post:" + name, f, ("C07",))
        unchanged(ip, s, st0, "touches-only-requests-and-meta-bookkeeping", ("C07",), except_=CR_MODIFIES)


def c_cancel_and_remove(ip: Interp, st: St, fr, selfv, args):
    """contract of _cancel_and_remove_all_from_group for its callers"""
    th: PoolTheory = ip.theory
    reg = ip.deref(st, args["group_reg"])
    g = args["group_name"]
    if not (isinstance(reg, ObjV) and isinstance(g, StrV)):
        raise Unsupported("_cancel_and_remove_all_from_group argument shapes")
    # the F1 precondition of Task.cancel is an obligation of the callee's own unit; callers inherit nothing
    st0 = st.fork()
    th.havoc_shared(st, CR_MODIFIES, "cr")
    for k in CR_MODIFIES:
        th._facts(st, st.sh[k])
    for _n, f in cancel_and_remove_post(st0, st, g.t, reg.fields["_ids"]):
        st.assume(f)
    st.trace.append(("cancel_and_remove", g.t))
    return [(st, NoneV())]


@unit(P_B + "cancel_group", ("C07", "C10"), [P_B + "cancel_group", P_B + "_get_cancel_kw"])
def u_cancel_group(ip: Interp, th: PoolTheory):
    install(ip)
    ip.contracts[P_B + "_cancel_and_remove_all_from_group"] = c_cancel_and_remove
    st = th.initial()
    g = StrV(fresh("a_group", S))
    msg = OptV(fresh("a_msg_none", B), StrV(fresh("a_msg", S)))
    st0 = st.fork()
    p0 = PView(st0)
    x = z3.Int("x!p")
    t = z3.Const("t!p", Ref)
    h = z3.Const("h!p", S)
    for s, v in run_body(ip, th, st, P_B + "cancel_group", {"group_name": g, "msg": msg}):
        th.check_point(s, "exit")
        p1 = PView(s)
        if isinstance(v, Exit):
            if v.val.cls == "TaskGroupNotFound":
                ip.require(s, "raises:TaskGroupNotFound:iff-unknown", z3.Not(p0.G.has(g.t)), ("C07", "C10"))
                unchanged(ip, s, st0, "unknown-group-changes-nothing", ("C07",))
            else:
                no_exit(ip, s, "noraise:" + v.val.cls, ("C07",))
            continue
        ip.cover(s, "cancel_group:normal-exit")
        ip.require(s, "post:group-was-known", p0.G.has(g.t), ("C07",))
        ip.require(s, "post:group-forgotten-name-free", z3.Not(p1.G.has(g.t)), ("C07", "C10"))
        ip.require(s, "post:other-groups-untouched", z3.ForAll([h], z3.Implies(h != g.t, z3.And(p1.G.has(h) == p0.G.has(h), z3.Select(p1.G.cols[0], h) == z3.Select(p0.G.cols[0], h),
                                                                                                 z3.Select(p1.G.cols[1], h) == z3.Select(p0.G.cols[1], h)))), ("C07", "C10"))
        ids0 = SetV(z3.Select(p0.G.cols[0], g.t), z3.Select(p0.G.cols[1], g.t), IntL())
        for name, f in cancel_and_remove_post(st0, s, g.t, ids0):
            ip.require(s, "post:" + name, f, ("C07",))
        # with I9 (every uncancelled running task is covered by its live group): every unfinished task *of g* is requested
        ip.require(s, "lemma:every-running-task-of-the-group-is-requested",
                   z3.ForAll([x], z3.Implies(z3.And(p0.R.has(x), z3.Select(p0.grp, p0.Rv(x)) == g.t, z3.Not(z3.Select(p0.cever, p0.Rv(x)))), z3.Select(p1.creq, p0.Rv(x)))), ("C07",))
        # with I10: afterwards no live spawner of g is left unrequested => none of them can reach create_task / next(arg_iter)
        ip.require(s, "lemma:no-live-unrequested-spawner-of-the-group-remains",
                   z3.ForAll([t], z3.Implies(z3.And(p1.is_spawner(t), z3.Select(p1.grp, t) == g.t, z3.Select(p1.loc, t) != L_DONE), z3.Select(p1.creq, t))), ("C07",))
        unchanged(ip, s, st0, "registries-and-capacity-untouched", ("C07",), except_=CR_MODIFIES + ("_task_groups",))


def inv_cancel_all(c):
    p0, p1 = PView(c.st0), PView(c.st)
    h = z3.Const("h!l", S)
    t = z3.Const("t!l", Ref)
    x = z3.Int("x!l")
    gone = lambda hh: z3.And(p0.G.has(hh), z3.Not(p1.G.has(hh)))
    target = lambda tt: z3.Exists([h], z3.And(gone(h), z3.Or(z3.And(p0.M.has(h), p0.Mset(h, tt)),
                                                             z3.Exists([x], z3.And(p0.Gids(h, x), p0.R.has(x), p0.Rv(x) == tt)))))
    return [("groups-only-shrink", z3.ForAll([h], z3.Implies(p1.G.has(h), z3.And(p0.G.has(h), z3.Select(p1.G.cols[0], h) == z3.Select(p0.G.cols[0], h))))),
            ("requested-exactly-the-popped-groups'-tasks-and-spawners", requested(c.st0, c.st, target)),
            ("meta-of-popped-groups-forgotten", z3.ForAll([h], z3.And(z3.Implies(gone(h), z3.Not(p1.M.has(h))),
                                                                      z3.Implies(z3.Not(gone(h)), z3.And(p1.M.has(h) == p0.M.has(h), z3.Select(p1.M.cols[0], h) == z3.Select(p0.M.cols[0], h)))))),
            ("cancelled-set-grows-by-their-spawners", z3.ForAll([t], p1.MC.has(t) == z3.Or(p0.MC.has(t), z3.Exists([h], z3.And(gone(h), p0.M.has(h), p0.Mset(h, t)))))),
            ("waiters-only-shrink", sem_only_waiters_shrunk(c.st0.sh, c.st.sh))]


LOOPSPECS[(P_B + "cancel_all", 1)] = LoopSpec(inv_cancel_all, ("C07",), name="each-group", sig="self._task_groups",
                                              variant=lambda c: PView(c.st).G.card)  # every turn pops one group


@unit(P_B + "cancel_all", ("C07",), [P_B + "cancel_all", P_B + "_get_cancel_kw"])
def u_cancel_all(ip: Interp, th: PoolTheory):
    install(ip)
    ip.contracts[P_B + "_cancel_and_remove_all_from_group"] = c_cancel_and_remove
    st = th.initial()
    msg = OptV(fresh("a_msg_none", B), StrV(fresh("a_msg", S)))
    st0 = st.fork()
    p0 = PView(st0)
    x = z3.Int("x!p")
    t = z3.Const("t!p", Ref)
    for s, v in run_body(ip, th, st, P_B + "cancel_all", {"msg": msg}):
        th.check_point(s, "exit")
        p1 = PView(s)
        if isinstance(v, Exit):
            no_exit(ip, s, "noraise:" + v.val.cls, ("C07",))
            continue
        ip.require(s, "post:no-group-left", p1.G.card == 0, ("C07",))
        ip.require(s, "lemma:every-covered-running-task-is-requested",
                   z3.ForAll([x], z3.Implies(z3.And(p0.R.has(x), z3.Not(z3.Select(p0.cever, p0.Rv(x)))), z3.Select(p1.creq, p0.Rv(x)))), ("C07",))
        unchanged(ip, s, st0, "registries-and-capacity-untouched", ("C07",), except_=CR_MODIFIES + ("_task_groups",))


# ======================================================================================================
# SimpleTaskPool.stop / stop_all     (C14)
# ======================================================================================================
def inv_stop(c):
    ids: SeqV = c.loc("ids")
    it = c.it  # enumerate(reversed(R)) : item(i) = (i, key_i)
    j = z3.Int("j!l")
    num = c.loc("num").t
    return [("ids-is-the-prefix-of-the-reverse-order", z3.And(ids.n == c.i, z3.ForAll([j], z3.Implies(z3.And(0 <= j, j < c.i), z3.Select(ids.arrs[0], j) == z3.Select(it.seq, j))))),
            ("not-beyond-num", z3.Or(c.i == 0, c.i <= num))]


LOOPSPECS[(P_S + "stop", 1)] = LoopSpec(inv_stop, ("C14",), name="pick-newest", sig="enumerate(reversed(self._tasks_running))")


def c_cancel_for_stop(ip: Interp, st: St, fr, selfv, args):
    """contract of cancel(*ids) (verified in unit pool.BaseTaskPool.cancel): all ids running => exactly those requested"""
    ids = args["task_ids"]
    if not isinstance(ids, SeqV):
        raise Unsupported("cancel(*ids) argument shape")
    p = PView(st)
    j = z3.Int("j!c")
    idj = z3.Select(ids.arrs[0], j)
    ip.require(st, "pre:cancel:every-picked-id-is-running", z3.ForAll([j], z3.Implies(z3.And(0 <= j, j < ids.n), p.R.has(idj))), ("C14", "C06"))
    st0 = st.fork()
    ip.theory.havoc_shared(st, ("creq", "cever"), "cfs")
    st.assume(requested(st0, st, lambda t: z3.Exists([j], z3.And(0 <= j, j < ids.n, p.Rv(idj) == t))))
    return [(st, NoneV())]


@unit(P_S + "stop+stop_all", ("C14",), [P_S + "stop", P_S + "stop_all"], cls="SimpleTaskPool")
def u_stop(ip: Interp, th: PoolTheory):
    install(ip)
    ip.contracts[P_B + "cancel"] = c_cancel_for_stop
    for which in ("stop", "stop_all"):
        st = th.initial()
        num = IntV(fresh("a_num", I))
        st0 = st.fork()
        p0 = PView(st0)
        j, j2, k = z3.Int("j!p"), z3.Int("j2!p"), z3.Int("k!p")
        n_req = p0.R.card if which == "stop_all" else num.t
        m = z3.If(n_req <= 0, 0, z3.If(n_req < p0.R.card, n_req, p0.R.card))
        for s, v in run_body(ip, th, st, P_S + which, {} if which == "stop_all" else {"num": num}):
            th.check_point(s, which + ":exit")
            if isinstance(v, Exit) or not isinstance(v, SeqV):
                no_exit(ip, s, which + ":noraise", ("C14",))
                continue
            a = v.arrs[0]
            at = lambda jj: z3.Select(a, jj)
            ip.require(s, which + ":post:returns-min(n,running)-ids", v.n == m, ("C14",))
            ip.require(s, which + ":post:all-returned-are-running", z3.ForAll([j], z3.Implies(z3.And(0 <= j, j < v.n), p0.R.has(at(j)))), ("C14",))
            ip.require(s, which + ":post:newest-first", z3.ForAll([j, j2], z3.Implies(z3.And(0 <= j, j < j2, j2 < v.n), at(j) > at(j2))), ("C14",))
            ip.require(s, which + ":post:they-are-the-most-recently-started",
                       z3.ForAll([k, j], z3.Implies(z3.And(p0.R.has(k), 0 <= j, j < v.n, z3.Not(z3.Exists([j2], z3.And(0 <= j2, j2 < v.n, at(j2) == k)))), k < at(j))), ("C14",))
            ip.require(s, which + ":post:exactly-those-are-requested", requested(st0, s, lambda t: z3.Exists([j], z3.And(0 <= j, j < v.n, p0.Rv(at(j)) == t))), ("C14",))
            unchanged(ip, s, st0, which + ":nothing-else-changes", ("C14",), except_=("creq", "cever"))


# ======================================================================================================
# pool_size getter / setter    (C15; C09 negative size)
# ======================================================================================================
@unit(P_B + "pool_size", ("C15", "C09"), [P_B + "pool_size.getter", P_B + "pool_size.setter"])
def u_pool_size(ip: Interp, th: PoolTheory):
    st = th.initial()
    st0 = st.fork()
    p0 = PView(st0)
    for s, v in run_body(ip, th, st, P_B + "pool_size.getter", {}):
        unchanged(ip, s, st0, "getter:pure", ("C15",))
        ok = z3.BoolVal(False)
        if isinstance(v, ExtV):
            ok = v.same(p0.size)
        elif isinstance(v, IntV):
            ok = p0.size.eq_int(v.t)
        ip.require(s, "getter:post:reports-the-configured-maximum", ok, ("C15",), meta={"finding": "F5"})
    # what the getter does get right although F5a is open: on a pool with nothing in flight it reports the configured maximum
    # (keeps a different defect of the getter from hiding behind the open finding)
    st = th.initial()
    p_ = PView(st)
    st.assume(z3.And(p_.sem.out == 0, p_.sem.g == 0, p_.sem.P == 0))
    for s, v in run_body(ip, th, st, P_B + "pool_size.getter", {}):
        ok = z3.BoolVal(False)
        if isinstance(v, ExtV):
            ok = v.same(p_.size)
        elif isinstance(v, IntV):
            ok = p_.size.eq_int(v.t)
        ip.require(s, "getter[idle]:post:reports-the-configured-maximum-when-nothing-is-in-flight", ok, ("C15",))
    # setter, tasks possibly in flight (U4 is NOT assumed here)
    st = th.initial()
    value = ExtV(fresh("a_value_inf", B), fresh("a_value", I))
    st0 = st.fork()
    p0 = PView(st0)
    for s, v in run_body(ip, th, st, P_B + "pool_size.setter", {"value": value}):
        if isinstance(v, Exit):
            if v.val.cls == "ValueError":
                ip.require(s, "setter:raises:ValueError:iff-negative", value.lt_int(0), ("C15", "C09"))
                unchanged(ip, s, st0, "setter:negative-value-changes-nothing", ("C15", "C09"))
            else:
                no_exit(ip, s, "setter:noraise:" + v.val.cls, ("C15",))
            continue
        ip.require(s, "setter:post:accepted-only-if-non-negative", z3.Not(value.lt_int(0)), ("C15", "C09"))
        s.sh["size"] = value  # ghost: the configured maximum is now `value`
        p1 = PView(s)
        unchanged(ip, s, st0, "setter:touches-only-the-limit", ("C15",), except_=("size", "_enough_room"))
        ip.require(s, "setter:post:limit-in-force-counts-tasks-in-flight(I5)",
                   z3.And(z3.Implies(z3.Not(value.inf), z3.And(z3.Not(p1.sem.v.inf), p1.sem.v.k + p1.sem.g + p1.sem.out == value.k)),
                          z3.Implies(value.inf, p1.sem.v.inf)), ("C15",), meta={"finding": "F5"})
        ip.require(s, "setter:post:waiters-with-room-are-woken(I12)", z3.Implies(p1.sem.P > 0, z3.Or(p1.sem.v.eq_int(0), p1.sem.g > 0)), ("C15",), meta={"finding": "F5"})
        ip.require(s, "setter:post:running-tasks-undisturbed", z3.And(p1.sem.out == p0.sem.out, p1.sem.g == p0.sem.g), ("C15",))
    # setter on a pool with nothing in flight (assumption U4): establishes I5/I12 - this is what __init__ and C01 rely on
    st = th.initial()
    p = PView(st)
    st.assume(z3.And(p.sem.out == 0, p.sem.g == 0, p.sem.P == 0))
    value = ExtV(fresh("b_value_inf", B), fresh("b_value", I))
    st.assume(z3.Not(value.lt_int(0)))
    for s, v in run_body(ip, th, st, P_B + "pool_size.setter", {"value": value}):
        if isinstance(v, Exit):
            no_exit(ip, s, "setter[idle]:noraise:" + v.val.cls, ("C01",))
            continue
        s.sh["size"] = value
        s.aux["seg0_inv"] = False
        for name, f, props in th.inv(s.sh):
            if name.startswith(("I5", "I12", "I1.")):
                ip.require(s, f"setter[idle]:establishes:{name}", f, ("C01", "C15"))


# ======================================================================================================
# BaseTaskPool.__init__ / _add_pool / __str__    (C01, C11)
# ======================================================================================================
@unit(P_B + "__init__", ("C01", "C11", "C03"), [P_B + "__init__", P_B + "_add_pool", P_B + "pool_size.setter"])
def u_init(ip: Interp, th: PoolTheory):
    st = th.initial(assume_inv=False)
    me = st.me
    t = z3.Const("t!p", Ref)
    p = PView(st)
    # a new pool: no thread belongs to it yet (ghost), nothing forgotten
    st.assume(z3.ForAll([t], z3.And(z3.Select(p.kind, t) != K_WRAPPER, z3.Not(p.is_spawner(t)))))
    st.sh["forgotten"] = IntV(0)
    st.sh["closing"] = BoolV(False)
    st.sh["closing2"] = BoolV(False)
    npools0 = st.sh["_pools"].n
    st.assume(npools0 >= 0)
    size = ExtV(fresh("a_size_inf", B), fresh("a_size", I))
    name = OptV(fresh("a_name_none", B), StrV(fresh("a_name", S)))
    for s, v in run_body(ip, th, st, P_B + "__init__", {"pool_size": size, "name": name}):
        if isinstance(v, Exit):
            if v.val.cls == "ValueError":
                ip.require(s, "raises:ValueError:iff-negative-size", size.lt_int(0), ("C09",))
            else:
                no_exit(ip, s, "noraise:" + v.val.cls, ("C11",))
            continue
        s.sh["size"] = size
        s.aux["seg0_inv"] = False
        for nm, f, props in th.inv(s.sh):
            ip.require(s, f"establishes:{nm}", f, props)
        p1 = PView(s)
        ip.require(s, "post:fresh-pool-is-empty-unlocked-open", z3.And(p1.n == 0, p1.R.card == 0, p1.C.card == 0, p1.E.card == 0, z3.Not(p1.locked), z3.Not(p1.closed),
                                                                     p1.G.card == 0, p1.M.card == 0, p1.MC.card == 0), ("C11", "C03"))
        ip.require(s, "post:index-is-position-in-the-class-list(I14)", z3.And(s.sh["_idx"].t == npools0, s.sh["_pools"].n == npools0 + 1), ("C11",))
        ip.require(s, "post:name-stored", eq_value(s.sh["_name"], name), ("C11",))


@unit(P_B + "__str__+_task_name", ("C11",), [P_B + "__str__", P_B + "_task_name"])
def u_str(ip: Interp, th: PoolTheory):
    from .pool_units import pool_str

    st = th.initial()
    st0 = st.fork()
    for s, v in run_body(ip, th, st, P_B + "__str__", {}):
        unchanged(ip, s, st0, "__str__:pure", ("C11",))
        ip.require(s, "__str__:post:'<Class>-<name or index>'", z3.BoolVal(False) if not isinstance(v, StrV) else v.t == pool_str(st0.sh).t, ("C11",))
    st = th.initial()
    tid = IntV(fresh("a_task_id", I))
    for s, v in run_body(ip, th, st, P_B + "_task_name", {"task_id": tid}):
        ip.require(s, "_task_name:post:'<pool>_Task-<id>'", z3.BoolVal(False) if not isinstance(v, StrV) else v.t == sym.str_concat([pool_str(st.sh), "_Task-", StrV(sym.itos(tid.t))]).t, ("C11",))
    # distinct indices give distinct names to unnamed pools of a class (string axiom: str(int) injective, format injective in its last hole)
    a, b = fresh("idx_a", I), fresh("idx_b", I)
    c = StrV(fresh("cls", S))
    na, nb = sym.str_concat([c, "-", StrV(sym.itos(a))]), sym.str_concat([c, "-", StrV(sym.itos(b))])
    ip.require(st, "lemma:unnamed-pools-with-distinct-indices-have-distinct-names", z3.Implies(a != b, na.t != nb.t), ("C11",))


# ======================================================================================================
# _check_start    (C09: documented order of rejection causes)
# ======================================================================================================
def A(name):
    return z3.Const(name, z3.ArraySort(Ref, B))


@unit(P_B + "_check_start", ("C09",), [P_B + "_check_start"])
def u_check_start(ip: Interp, th: PoolTheory):
    st = th.initial()
    aw, fn = RefV(fresh("a_awaitable", Ref)), RefV(fresh("a_function", Ref))
    ign = BoolV(fresh("a_ignore_lock", B))
    for r in (aw, fn):  # assumption U10: objects handed to the pool are truthy unless None
        st.assume(z3.Implies(r.t != NONE, z3.Select(sym.TRUTHY, r.t)))
    st0 = st.fork()
    p = PView(st0)
    both_or_neither = (aw.t == NONE) == (fn.t == NONE)
    not_coro = z3.And(aw.t != NONE, z3.Not(z3.Select(A("is_coro"), aw.t)))
    not_cofn = z3.And(fn.t != NONE, z3.Not(z3.Select(A("is_corofunc"), fn.t)))
    order = [("TypeError", both_or_neither), ("NotCoroutine", not_coro), ("NotCoroutineFunction", not_cofn), ("PoolIsClosed", p.closed), ("PoolIsLocked", z3.And(p.locked, z3.Not(ign.t)))]
    for s, v in run_body(ip, th, st, P_B + "_check_start", {"awaitable": aw, "function": fn, "ignore_lock": ign}):
        unchanged(ip, s, st0, "pure", ("C09",))
        if isinstance(v, Exit):
            c = v.val.cls
            idx = [k for k, (n, _) in enumerate(order) if n == c]
            if not idx:
                no_exit(ip, s, "noraise:" + c, ("C09",))
                continue
            k = idx[0]
            ip.require(s, f"raises:{c}:first-applicable-cause-in-documented-order", z3.And([z3.Not(cnd) for _n, cnd in order[:k]] + [order[k][1]]), ("C09",))
        else:
            ip.require(s, "post:accepted-iff-no-cause", z3.And([z3.Not(cnd) for _n, cnd in order]), ("C09",))


# ======================================================================================================
# spawning entry points: apply / _map / map / starmap / doublestarmap / start / _generate_group_name
# (C04 exactly one spawner with the caller's arguments, C05 stars, C09 rejection leaves no trace, C10 names)
# ======================================================================================================
def fname_of(ref):
    return z3.Select(z3.Const("fname", z3.ArraySort(Ref, S)), ref)


def generated_name(prefix: str, func_ref, i):
    """documented pattern '<method>-<func>-group-<i>'"""
    return sym.str_concat([prefix, "-", StrV(fname_of(func_ref)), "-group", "-", StrV(sym.itos(i))])


def inv_generate_group_name(c):
    p = PView(c.st)
    base: StrV = c.loc("base_name")
    i = c.loc("i").t
    k = z3.Int("k!l")
    return [("all-smaller-indices-taken", z3.And(i >= 0, z3.ForAll([k], z3.Implies(z3.And(0 <= k, k < i), p.G.has(sym.str_concat([base, "-", StrV(sym.itos(k))]).t))))),
            ("not-beyond-the-first-free-index", i <= _free_index(c))]


FREE_INDEX = z3.Function("first_free_group_index", z3.ArraySort(S, B), S, I)


def _free_index(c):
    """trusted container fact (pigeonhole): a finite dict cannot hold all of the infinitely many distinct names
    `<base>-0, <base>-1, ...` (str(int) is injective), so some index is free.  Used only for termination."""
    p = PView(c.st)
    base: StrV = c.loc("base_name")
    kf = FREE_INDEX(p.G.mem, base.t)
    c.st.assume(z3.And(kf >= 0, z3.Not(p.G.has(sym.str_concat([base, "-", StrV(sym.itos(kf))]).t))))
    return kf


LOOPSPECS[(P_T + "_generate_group_name", 1)] = LoopSpec(inv_generate_group_name, ("C10",), name="first-free-index", sig="True",
                                                        variant=lambda c: _free_index(c) - c.loc("i").t)


def spawn_events(s: St):
    return [e for e in s.trace if e[0] == "spawn"]


def same_arg(ip, s, got: V, want) -> z3.ExprRef:
    got = ip.deref(s, got)
    if isinstance(want, z3.ExprRef):
        if isinstance(got, (RefV, IntV, StrV, BoolV)):
            return got.t == want
        if isinstance(got, NoneV):
            return want == NONE
        return z3.BoolVal(False)
    if isinstance(want, int):
        return got.t == want if isinstance(got, IntV) else z3.BoolVal(False)
    return z3.BoolVal(False)


def entry_point_unit(which: str):
    """which in apply | map | starmap | doublestarmap | _map"""

    def fn(ip: Interp, th: PoolTheory):
        install(ip)
        st = th.initial()
        func = RefV(fresh("a_func", Ref))
        st.assume(z3.And(func.t != NONE, z3.Select(sym.TRUTHY, func.t)))  # U10
        gname = OptV(fresh("a_group_none", B), StrV(fresh("a_group", S)))
        ecb, ccb = RefV(fresh("a_ecb", Ref)), RefV(fresh("a_ccb", Ref))
        if which == "apply":
            a = {"func": func, "args": RefV(fresh("a_args", Ref)), "kwargs": RefV(fresh("a_kwargs", Ref)), "num": IntV(fresh("a_num", I)), "group_name": gname,
                 "end_callback": ecb, "cancel_callback": ccb}
            st.assume(a["args"].t != NONE)
        else:
            itname = {"map": "arg_iter", "starmap": "args_iter", "doublestarmap": "kwargs_iter", "_map": "arg_iter"}[which]
            a = {"func": func, itname: RefV(fresh("a_iter", Ref)), "num_concurrent": IntV(fresh("a_num_concurrent", I)), "group_name": gname,
                 "end_callback": ecb, "cancel_callback": ccb}
            st.assume(a[itname].t != NONE)
            if which == "_map":
                a["group_name"] = StrV(fresh("a_group", S))
                a["arg_stars"] = IntV(fresh("a_stars", I))
        st0 = st.fork()
        p0 = PView(st0)
        is_cofn = z3.Select(A("is_corofunc"), func.t)
        given = z3.BoolVal(True) if which == "_map" else z3.Not(gname.isnone)
        gterm = a["group_name"].t if which == "_map" else gname.inner.t
        causes = [("NotCoroutineFunction", z3.Not(is_cofn)), ("PoolIsClosed", p0.closed), ("PoolIsLocked", p0.locked)]
        if which != "apply":
            causes.append(("ValueError", a["num_concurrent"].t < 1))
        causes.append(("TaskGroupAlreadyExists", z3.And(given, p0.G.has(gterm))))
        qual = P_T + which
        for s, v in run_body(ip, th, st, qual, a):
            th.check_point(s, "exit")
            sp = spawn_events(s)
            if isinstance(v, Exit):
                c = v.val.cls
                names = [n for n, _ in causes]
                if c not in names:
                    no_exit(ip, s, "noraise:" + c, ("C09",))
                    continue
                k = names.index(c)
                ip.require(s, f"raises:{c}:its-documented-cause-holds", causes[k][1], ("C09",))
                unchanged(ip, s, st0, "rejected-request-leaves-no-trace", ("C09",))
                ip.require(s, "rejected:no-task-created-no-user-code-run", z3.BoolVal(not sp and not any(e[0] in ("callout", "corocall", "await_user") for e in s.trace)), ("C09",))
                continue
            ip.require(s, "accepted:only-without-any-rejection-cause", z3.And([z3.Not(cnd) for _n, cnd in causes]), ("C09",))
            ip.require(s, "accepted:exactly-one-spawner-created-no-user-code-run", z3.BoolVal(len(sp) == 1 and not any(e[0] in ("callout", "corocall", "await_user") for e in s.trace)), ("C04", "C05", "C09"))
            if len(sp) != 1:
                continue
            _, t, q, cargs = sp[0]
            p1 = PView(s)
            if which == "_map":
                name_t = a["group_name"].t
            else:
                if not isinstance(v, StrV):
                    no_exit(ip, s, "post:returns-the-group-name", ("C10",))
                    continue
                name_t = v.t
                # name: the given one, or the first free '<method>-<func>-group-<i>'
                if v.parts is not None and len(v.parts) >= 2 and not isinstance(v.parts[-1], str) and v.parts[-1].decl().name() == "itos":
                    i_t = v.parts[-1].arg(0)
                    kk = z3.Int("k!p")
                    ip.require(s, "post:generated-name-follows-the-documented-pattern-and-is-the-first-free",
                               z3.And(gname.isnone, i_t >= 0, v.t == generated_name(which, func.t, i_t).t, z3.Not(p0.G.has(v.t)),
                                      z3.ForAll([kk], z3.Implies(z3.And(0 <= kk, kk < i_t), p0.G.has(generated_name(which, func.t, kk).t)))), ("C10",))
                else:
                    ip.require(s, "post:given-name-is-returned", z3.And(z3.Not(gname.isnone), v.t == gname.inner.t), ("C10",))
            want_q = P_T + ("_apply_spawner" if which == "apply" else "_arg_consumer")
            ip.require(s, "post:spawner-kind", z3.BoolVal(q == want_q), ("C04", "C05"))
            if which == "apply":
                exp = {"group_name": name_t, "func": func.t, "args": a["args"].t, "kwargs": a["kwargs"].t, "num": a["num"].t, "end_callback": ecb.t, "cancel_callback": ccb.t}
            else:
                stars = {"map": 0, "starmap": 1, "doublestarmap": 2}.get(which)
                exp = {"group_name": name_t, "num_concurrent": a["num_concurrent"].t, "func": func.t, "arg_iter": a[itname].t,
                       "arg_stars": stars if stars is not None else a["arg_stars"].t, "end_callback": ecb.t, "cancel_callback": ccb.t}
            ok = z3.And([same_arg(ip, s, cargs[k], w) for k, w in exp.items()] + [z3.BoolVal(set(cargs) == set(exp))])
            ip.require(s, "post:spawner-gets-exactly-the-caller's-arguments", ok, ("C04", "C05"))
            h = z3.Const("h!p", S)
            u = z3.Const("u!p", Ref)
            ip.require(s, "post:new-empty-group-registered-others-untouched",
                       z3.And(p1.G.has(name_t), z3.Not(p0.G.has(name_t)), z3.Select(p1.G.cols[1], name_t) == 0, z3.Not(p1.Glock(name_t)),
                              z3.ForAll([h], z3.Implies(h != name_t, z3.And(p1.G.has(h) == p0.G.has(h), z3.Select(p1.G.cols[0], h) == z3.Select(p0.G.cols[0], h),
                                                                              z3.Select(p1.G.cols[1], h) == z3.Select(p0.G.cols[1], h))))), ("C10", "C09"))
            ip.require(s, "post:spawner-registered-for-its-group",
                       z3.And(p1.M.has(name_t), p1.Mset(name_t, t), z3.Select(p1.grp, t) == name_t, z3.Select(p1.loc, t) == L_NS, z3.Not(z3.Select(p1.creq, t)),
                              z3.ForAll([u], z3.Implies(u != t, p1.Mset(name_t, u) == z3.And(p0.M.has(name_t), p0.Mset(name_t, u)))),
                              z3.ForAll([h], z3.Implies(h != name_t, z3.And(p1.M.has(h) == p0.M.has(h), z3.Select(p1.M.cols[0], h) == z3.Select(p0.M.cols[0], h))))), ("C07", "C10"))
            unchanged(ip, s, st0, "nothing-else-changes", ("C09", "C11"), except_=("_task_groups", "_group_meta_tasks_running", "kind", "loc", "creq", "cever", "tok", "mtok", "grp", "fcan"))

    return fn


for _w in ("apply", "_map", "map", "starmap", "doublestarmap"):
    UNITS.append(Unit(P_T + _w, entry_point_unit(_w), ("C04", "C05", "C09", "C10", "C07"),
                      [P_T + _w, P_T + "_generate_group_name", P_B + "_check_start"] + ([P_T + "_map"] if _w not in ("apply", "_map") else []),
                      theory_factory=lambda: PoolTheory("TaskPool"), trusted=TRUSTED))


@unit(P_S + "start", ("C04", "C09", "C10"), [P_S + "start", P_B + "_check_start"], cls="SimpleTaskPool")
def u_start(ip: Interp, th: PoolTheory):
    install(ip)
    st = th.initial()
    st.assume(z3.And(st.sh["_func"].t != NONE, z3.Select(sym.TRUTHY, st.sh["_func"].t)))  # U10
    num = IntV(fresh("a_num", I))
    st0 = st.fork()
    p0 = PView(st0)
    is_cofn = z3.Select(A("is_corofunc"), st0.sh["_func"].t)
    causes = [("NotCoroutineFunction", z3.Not(is_cofn)), ("PoolIsClosed", p0.closed), ("PoolIsLocked", p0.locked)]
    sc0 = st0.sh["_start_calls"].t
    for s, v in run_body(ip, th, st, P_S + "start", {"num": num}):
        th.check_point(s, "exit")
        sp = spawn_events(s)
        if isinstance(v, Exit):
            c = v.val.cls
            names = [n for n, _ in causes]
            if c not in names:
                no_exit(ip, s, "noraise:" + c, ("C09",))
                continue
            ip.require(s, f"raises:{c}:its-documented-cause-holds", causes[names.index(c)][1], ("C09",))
            unchanged(ip, s, st0, "rejected-request-leaves-no-trace", ("C09",))
            ip.require(s, "rejected:no-task-created", z3.BoolVal(not sp), ("C09",))
            continue
        ip.require(s, "accepted:only-without-any-rejection-cause", z3.And([z3.Not(cnd) for _n, cnd in causes]), ("C09",))
        ip.require(s, "accepted:exactly-one-spawner", z3.BoolVal(len(sp) == 1), ("C04",))
        if len(sp) != 1 or not isinstance(v, StrV):
            continue
        _, t, q, cargs = sp[0]
        p1 = PView(s)
        ip.require(s, "post:name-is-'start-group-<calls so far>'-and-fresh", z3.And(v.t == start_group_name(sc0), z3.Not(p0.G.has(v.t)), z3.Not(p0.M.has(v.t)), s.sh["_start_calls"].t == sc0 + 1), ("C10",))
        ip.require(s, "post:spawner-is-_start_num(num, name)", z3.And(z3.BoolVal(q == P_S + "_start_num" and set(cargs) == {"num", "group_name"}), same_arg(ip, s, cargs.get("num", NoneV()), num.t),
                                                                      same_arg(ip, s, cargs.get("group_name", NoneV()), v.t)), ("C04",))
        ip.require(s, "post:group-and-spawner-registered", z3.And(p1.G.has(v.t), z3.Select(p1.G.cols[1], v.t) == 0, p1.M.has(v.t), p1.Mset(v.t, t), z3.Select(p1.grp, t) == v.t), ("C10", "C07"))
        unchanged(ip, s, st0, "nothing-else-changes", ("C09", "C11"), except_=("_task_groups", "_group_meta_tasks_running", "_start_calls", "kind", "loc", "creq", "cever", "tok", "mtok", "grp", "fcan"))


# ======================================================================================================
# flush / gather_and_close / until_closed   (C13, C08, C12, C03)
# ======================================================================================================
def c_pop_ended_meta_tasks(ip: Interp, st: St, fr, selfv, args):
    """contract of _pop_ended_meta_tasks, verified against its body in unit pool.BaseTaskPool._pop_ended_meta_tasks (three
    loop invariants): removes exactly the done spawners from the per-group sets (dropping empty groups), returns them,
    touches nothing else."""
    th: PoolTheory = ip.theory
    p0 = PView(st)
    M0 = st.sh["_group_meta_tasks_running"]
    th.havoc_shared(st, ("_group_meta_tasks_running",), "pem")
    th._facts(st, st.sh["_group_meta_tasks_running"])
    p1 = PView(st)
    g = z3.Const("g!pe", S)
    t = z3.Const("t!pe", Ref)
    done = lambda tt: z3.Select(p0.loc, tt) == L_DONE
    st.assume(z3.ForAll([g, t], z3.And(p1.M.has(g), p1.Mset(g, t)) == z3.And(p0.M.has(g), p0.Mset(g, t), z3.Not(done(t)))))
    st.assume(z3.ForAll([g], z3.Implies(p1.M.has(g), p0.M.has(g))))
    ended = SetV.symbolic("ended", RefL())
    for f in ended.qfacts():
        st.assume(f)
    st.assume(z3.ForAll([t], ended.has(t) == z3.Exists([g], z3.And(p0.M.has(g), p0.Mset(g, t), done(t)))))
    return [(st, ended)]



FLUSH_FRAME = ("_tasks_running", "_num_started", "_locked", "_closed", "_enough_room", "_task_groups", "size")


def inv_flush_forget(c):
    """`for task_id in flushed:` forgets exactly the awaited ids that are still registered as ended; the
    cancelled registry is not touched because an awaited (hence finished) task is never in it"""
    p0, p1 = PView(c.st0), PView(c.st)
    x, j = z3.Int("x!l"), z3.Int("j!l")
    visited = lambda xx: z3.Exists([j], z3.And(0 <= j, j < c.i, z3.Select(c.it.seq, j) == xx))
    return [("ended-loses-only-visited-ids", z3.ForAll([x], z3.And(p1.E.has(x) == z3.And(p0.E.has(x), z3.Not(visited(x))), z3.Implies(p1.E.has(x), p1.Ev(x) == p0.Ev(x))))),
            ("cancelled-untouched", z3.And(p1.C.card == p0.C.card, z3.ForAll([x], z3.And(p1.C.has(x) == p0.C.has(x), p1.Cv(x) == p0.Cv(x))))),
            ("forgotten-counts-what-was-removed", p1.forgotten - p0.forgotten == p0.E.card - p1.E.card)]


LOOPSPECS[(P_B + "flush", 1)] = LoopSpec(inv_flush_forget, ("C13", "C03"), name="forget-awaited")


@unit(P_B + "flush", ("C13", "C12", "C03", "C02", "C01"), [P_B + "flush"])
def u_flush(ip: Interp, th: PoolTheory):
    install(ip)
    ip.contracts[P_B + "_pop_ended_meta_tasks"] = c_pop_ended_meta_tasks
    th.loops_need_inv = True
    th.segment_frame = FLUSH_FRAME
    st = th.initial(me_kind=K_OTHER)  # assumption U6: not called from a callback of one of the pool's own tasks
    re = BoolV(fresh("a_return_exceptions", B))
    st0 = st.fork()
    p0 = PView(st0)
    i = z3.Int("i!p")
    for s, v in run_body(ip, th, st, P_B + "flush", {"return_exceptions": re}):
        th.check_point(s, "exit")
        p1 = PView(s)
        for k in FLUSH_FRAME:
            if not same_value(s.aux["seg0"][k], s.sh[k]):
                ip.require(s, f"frame:segment-does-not-write:{k}@exit", eq_value(s.aux["seg0"][k], s.sh[k]), ("C13",))
        if isinstance(v, Exit):
            origin = getattr(v.val, "origin", "pool")
            ip.require(s, "raises:only-without-return_exceptions", z3.Not(re.t), ("C13", "C12"))
            ip.require(s, f"raises:only-an-exception-of-a-task-or-callback:{v.val.cls}/{origin}", z3.BoolVal(origin == "user"), ("C12",))
            continue
        ip.cover(s, "flush:normal-exit")
        finished_before = lambda ii: z3.And(z3.Or(p0.E.has(ii)), z3.Select(p0.loc, p0.Ev(ii)) == L_DONE)
        ip.require(s, "post:tasks-finished-before-the-call-are-forgotten", z3.ForAll([i], z3.Implies(finished_before(i), z3.And(z3.Not(p1.E.has(i)), z3.Not(p1.C.has(i)), z3.Not(p1.R.has(i))))), ("C13",))


GC_FRAME = ("_num_started", "_enough_room", "_task_groups", "size")


@unit(P_B + "gather_and_close", ("C08", "C12", "C03", "C07"), [P_B + "gather_and_close", P_B + "lock"])
def u_gather_and_close(ip: Interp, th: PoolTheory):
    install(ip)
    # not called by gather_and_close on this tree; a variant that awaits flush() (seeds C08j, C08k) is then executed with the
    # verified contract of the helper instead of going undecided on its set-up code
    ip.contracts[P_B + "_pop_ended_meta_tasks"] = c_pop_ended_meta_tasks
    th.loops_need_inv = True
    th.segment_frame = GC_FRAME
    th.private_keys = ("closing", "closing2")  # ghost flags owned by the closing thread
    st = th.initial(me_kind=K_OTHER)
    re = BoolV(fresh("a_return_exceptions", B))
    st.assume(z3.Not(st.sh["closing"].t))  # one closer at a time (a second concurrent gather_and_close is outside U5)
    state = {"n": 0}

    def before_observe(s: St, label: str):
        if "gather#1" in label:
            s.sh["closing"] = BoolV(True)  # ghost: from here until the end the pool stays locked (U5)

    def after_gather_ok(s: St, fr, label):
        if label == "gather#1":
            s.sh["closing2"] = BoolV(True)  # ghost: every spawner awaited is done (established by gather's contract)
            p = PView(s)
            t = z3.Const("t!g1", Ref)
            # what I21 needs and the gather contract gave: checked (not assumed) right here
            ip.require(s, "assert@after-first-gather:no-live-uncancelled-spawner", z3.ForAll([t], z3.Implies(p.is_spawner(t), z3.Or(z3.Select(p.loc, t) == L_DONE, z3.Select(p.creq, t)))), ("C08",))

    th.before_observe = before_observe
    th.after_gather_ok = after_gather_ok
    st0 = st.fork()
    for s, v in run_body(ip, th, st, P_B + "gather_and_close", {"return_exceptions": re}):
        if isinstance(v, Exit):
            # the ghost `closing` ends with the call (the pool stays locked)
            s.sh["closing"] = BoolV(False)
            s.sh["closing2"] = BoolV(False)
            th.check_point(s, "raise-exit")
            origin = getattr(v.val, "origin", "pool")
            ip.require(s, "raises:only-without-return_exceptions", z3.Not(re.t), ("C08", "C12"))
            ip.require(s, f"raises:only-an-exception-of-a-task-or-callback:{v.val.cls}/{origin}", z3.BoolVal(origin == "user"), ("C08", "C12"))
            continue
        p1 = PView(s)
        t = z3.Const("t!p", Ref)
        ip.cover(s, "gather_and_close:normal-exit")
        ip.require(s, "post:closed", p1.closed, ("C08",))
        ip.require(s, "post:holds-no-tasks", z3.And(p1.R.card == 0, p1.C.card == 0, p1.E.card == 0), ("C08",))
        ip.require(s, "post:returned-only-after-every-spawner-finished", z3.ForAll([t], z3.Implies(p1.is_spawner(t), z3.Or(z3.Select(p1.loc, t) == L_DONE, z3.Select(p1.creq, t)))), ("C08",))
        ip.require(s, "post:returned-only-after-every-task-finished", z3.ForAll([t], z3.Implies(z3.Select(p1.kind, t) == K_WRAPPER, z3.Select(p1.loc, t) == L_DONE)), ("C08",))
        s.sh["closing"] = BoolV(False)
        s.sh["closing2"] = BoolV(False)
        th.check_point(s, "exit")


@unit(P_B + "until_closed", ("C08",), [P_B + "until_closed"])
def u_until_closed(ip: Interp, th: PoolTheory):
    st = th.initial(me_kind=K_OTHER)
    th.segment_frame = tuple(k for k in st.sh if k not in ("loc",))
    for s, v in run_body(ip, th, st, P_B + "until_closed", {}):
        if isinstance(v, Exit):
            no_exit(ip, s, "noraise:" + v.val.cls, ("C08",))
            continue
        ip.require(s, "post:returns-only-once-closed", PView(s).closed, ("C08",))
        ip.require(s, "post:returns-True", v.t if isinstance(v, BoolV) else z3.BoolVal(False), ("C08",))
    # closed is written only by gather_and_close (mechanical, from the AST)
    writers = [q for q in ip.repo.attr_writes("_closed") if q.startswith("pool.")]
    setters = [q for q in ip.repo.references("_closed") if q.startswith("pool.")]
    ip.require(st, "callgraph:_closed-assigned-only-in-__init__", z3.BoolVal(writers == ["pool.BaseTaskPool.__init__"]), ("C08",), meta={"writers": writers})
    ip.require(st, "callgraph:_closed-used-only-by-known-functions", z3.BoolVal(set(setters) <= {"pool.BaseTaskPool.__init__", "pool.BaseTaskPool._check_start", "pool.BaseTaskPool.gather_and_close", "pool.BaseTaskPool.until_closed"}), ("C08",), meta={"users": setters})


# ======================================================================================================
# map consumer thread  _arg_consumer  +  release_callback  +  helpers.star_function     (C05, C07, C12, C02)
# ======================================================================================================
from pyvc.sym import CoroV, FuncV, PlaceV, StarV  # noqa: E402
from pyvc.interp import NORMAL, Frame  # noqa: E402
from .pool_theory import UserIterV  # noqa: E402
from .pool_units import c_start_task, use_start_task_contract  # noqa: E402


def map_sem_inv(nc):
    def extra(sh):
        if "$msem" not in sh:
            return []
        m: SemV = sh["$msem"]
        return [("MS.map-slots-conserved", z3.And(z3.Not(m.v.inf), m.v.k >= 0, m.g >= 0, m.P >= 0, m.out >= 0, m.v.k + m.g + m.out == nc), ("C05",)),
                ("MS.at-most-num_concurrent-of-the-call-hold-a-slot", m.out <= nc, ("C05",)),
                ("MS.consumer-waits-only-when-all-slots-are-out", z3.Implies(m.P > 0, z3.Or(m.v.k == 0, m.g > 0)), ("C05",))]

    return extra


class ConsumerTheory(PoolTheory):
    """PoolTheory + the per-call semaphore of one map call as an extra shared component `$msem`"""

    nc = None

    def new_semaphore(self, st, fr, pos):
        if fr.qual.endswith("._arg_consumer"):
            if len(pos) != 1 or not isinstance(pos[0], IntV):
                raise Unsupported("Semaphore(...) in _arg_consumer")
            self.ip.require(st, "map-semaphore:created-with-num_concurrent", pos[0].t == self.nc, ("C05",))
            sem = SemV(ExtV(False, pos[0].t), z3.IntVal(0), z3.IntVal(0), z3.IntVal(0), fresh("mapsem", Ref))
            sem.tokarr = "mtok"
            st.sh["$msem"] = sem
            return [(st, PlaceV(("sh", "$msem")))]
        return super().new_semaphore(st, fr, pos)

    def special_iter(self, st, fr, node, ordinal, d):
        if isinstance(d, UserIterV):
            return self.user_loop(st, fr, node, ordinal, d)
        return None

    def user_loop(self, st: St, fr, node, ordinal, d: UserIterV):
        """`for i, x in enumerate(<user iterable>)`: every advance of the iterator is a call-out to user code"""
        from pyvc.theory import LoopCtx, havoc_like

        ip = self.ip
        spec = self.find_loopspec(fr, node, ordinal)
        lname = spec.name
        st0 = st.fork()
        mod_locals = sorted(set(self.assigned_names(node.body + [node.target])) | {n for n in st.loc if n.startswith("$")})
        self.loop_head_check(st, f"{lname}:entry")
        for label, f in spec.inv(LoopCtx(st0, st, z3.IntVal(0), None, fr)):
            ip.require(st, f"loopinv-entry:{lname}:{label}", f, spec.props)
        s = st.fork()
        for n in mod_locals:
            if n in s.loc:
                s.loc[n] = havoc_like(s.loc[n], f"UL_{n}")
        self.havoc_shared(s, self.shared_keys(s), "UL")
        self.container_facts(s)
        self.after_loop_havoc(s, st0, ["*"])
        i = fresh("i", I)
        s.assume(i >= 0)
        for _l, f in spec.inv(LoopCtx(st0, s, i, None, fr)):
            s.assume(f)
        # advance the iterator: call-out
        ip.require(s, "iter:not-advanced-after-a-cancellation-request", z3.Not(self.ghost(s, "creq", s.me)), ("C07",))
        s.trace.append(("next", d.ref.t))
        self.observe(s, f"{fr.qual.split('.')[-1]}@next(arg_iter)")
        # the property excludes a group cancellation issued re-entrantly from inside the group's own argument iterator
        s.assume(z3.Not(self.ghost(s, "creq", s.me)))
        out = []
        done = s.fork()
        done.tags.append(f"{lname}:exhausted")
        out.append((done, NORMAL))
        body = s.fork()
        body.tags.append(f"{lname}:element")
        body.loc["$pulled"] = IntV(body.loc["$pulled"].t + 1)
        elem = RefV(fresh("elem", Ref))
        item = TupleV([IntV(i), elem]) if d.enumerate_ else elem
        for s2, ex2 in ip.assign(body, fr, node.target, item):
            for s3, ex in ip.block(s2, fr, node.body):
                if ex.kind in ("normal", "continue"):
                    self.loop_head_check(s3, f"{lname}:step")
                    for label, f in spec.inv(LoopCtx(st0, s3, i + 1, None, fr)):
                        ip.require(s3, f"loopinv-step:{lname}:{label}", f, spec.props)
                elif ex.kind == "break":
                    out.append((s3, NORMAL))
                else:
                    out.append((s3, ex))
        return out


def inv_arg_consumer(c):
    st = c.st
    me = st.me
    g = lambda n: st.loc[n].t
    return [("one-element-at-a-time", z3.And(g("$pulled") == c.i, g("$started") + g("$skipped") == c.i, g("$starcalls") == c.i)),
            ("holds-nothing-at-loop-head", z3.And(z3.Not(z3.Select(st.sh["tok"].t, me)), z3.Not(z3.Select(st.sh["mtok"].t, me)), z3.Select(st.sh["loc"].t, me) == L_RUN)),
            ("not-cancelled-at-loop-head", z3.Not(z3.Select(st.sh["creq"].t, me))),
            ("my-semaphore", z3.Select(st.sh["msem"].t, me) == st.sh["$msem"].ident)]


LOOPSPECS[(P_T + "_arg_consumer", 1)] = LoopSpec(inv_arg_consumer, ("C05",), name="consume", sig="enumerate(arg_iter)")


def u_arg_consumer(ip: Interp, th: ConsumerTheory):
    install(ip)
    use_start_task_contract(ip)
    th.loops_need_inv = True
    st = th.initial(me_kind=K_MAP)
    me = st.me
    p = PView(st)
    st.assume(z3.Select(p.loc, me) == L_NS)
    st.assume(z3.Not(z3.Select(p.creq, me)))
    st.assume(z3.And(z3.Not(z3.Select(p.tok, me)), z3.Not(z3.Select(p.mtok, me))))
    nc = fresh("a_num_concurrent", I)
    st.assume(nc >= 1)  # _map rejects num_concurrent < 1 (unit pool.TaskPool._map)
    th.nc = nc
    th.extra_inv = map_sem_inv(nc)
    a = {"group_name": StrV(fresh("a_group", S)), "num_concurrent": IntV(nc), "func": RefV(fresh("a_func", Ref)), "arg_iter": RefV(fresh("a_iter", Ref)),
         "arg_stars": IntV(fresh("a_stars", I)), "end_callback": RefV(fresh("a_ecb", Ref)), "cancel_callback": RefV(fresh("a_ccb", Ref))}
    st.assume(z3.And(a["arg_stars"].t >= 0, a["arg_stars"].t <= 2, a["func"].t != NONE, a["arg_iter"].t != NONE))
    st.assume(a["group_name"].t == z3.Select(p.grp, me))
    th.set_ghost(st, "loc", me, z3.IntVal(L_RUN))
    st.aux["seg0"] = dict(st.sh)
    th.instantiate_for_me(st)
    for gname in ("$pulled", "$started", "$skipped", "$starcalls"):
        st.loc[gname] = IntV(0)
    # my semaphore identity is recorded in the ghost `msem[me]` when it is created (first segment)
    orig_new = th.new_semaphore

    def new_sem(s, fr, pos):
        res = orig_new(s, fr, pos)
        for s2, v in res:
            if "$msem" in s2.sh:
                th.set_ghost(s2, "msem", me, s2.sh["$msem"].ident)
        return res

    th.new_semaphore = new_sem

    def on_corocall(s: St, fn_t, cargs, ckws):
        # star_function(func, next_arg, arg_stars) -> func(arg) / func(*arg) / func(**arg): checked in unit helpers.star_function;
        # here: the call goes to the requested function with the element just pulled
        ip.require(s, "invoke:the-requested-function", fn_t == a["func"].t, ("C05",))
        s.loc["$starcalls"] = IntV(s.loc["$starcalls"].t + 1)

    th.on_corocall = on_corocall
    th.on_call_raised = lambda s: s.loc.__setitem__("$skipped", IntV(s.loc["$skipped"].t + 1))

    def before_observe(s: St, label: str):
        if "acquire[mtok]" in label:
            ip.require(s, "lazy:at-most-one-element-pulled-ahead", s.loc["$pulled"].t == s.loc["$started"].t + s.loc["$skipped"].t + 1, ("C05",))

    th.before_observe = before_observe
    # work conservation (lemma over the invariant): whenever the consumer is parked at its own semaphore and no grant is
    # in flight (the loop is idle), exactly num_concurrent tasks of the call hold a slot
    lem = th.initial(me_kind=K_MAP)
    msym = SemV(ExtV(False, fresh("l_v", I)), fresh("l_g", I), fresh("l_P", I), fresh("l_out", I), fresh("mapsem", Ref))
    msym.tokarr = "mtok"
    lem.sh["$msem"] = msym
    for _n, f, _p in th.extra_inv(lem.sh):
        lem.assume(f)
    ip.require(lem, "lemma:idle-and-parked-at-the-map-semaphore=>exactly-num_concurrent-tasks-of-the-call-running", z3.Implies(z3.And(msym.P > 0, msym.g == 0), msym.out == nc), ("C05",))
    for s, v in run_body(ip, th, st, P_T + "_arg_consumer", a):
        th.set_ghost(s, "loc", me, z3.IntVal(L_DONE))
        th.check_point(s, "thread-end")
        if isinstance(v, Exit):
            ip.require(s, f"noraise:{v.val.cls}:consumer-must-not-die", z3.BoolVal(False), ("C05", "C12", "C08"))
            continue
        ip.cover(s, "consumer:thread-end")
        ip.require(s, "end:no-slot-retained", z3.And(z3.Not(th.ghost(s, "tok", me)), z3.Not(th.ghost(s, "mtok", me))), ("C02", "C05"))
        cancelled = any(t in ("_start_task:cancelled", "cancelled-pending", "cancelled-granted") for t in s.tags)
        if cancelled:
            ip.require(s, "cancelled:built-coroutine-closed", z3.BoolVal(len([e for e in s.trace if e[0] == "close"]) == 1), ("C02",))
        else:
            ip.require(s, "post:every-pulled-element-started-or-skipped-because-the-call-raised", s.loc["$pulled"].t == s.loc["$started"].t + s.loc["$skipped"].t, ("C05", "C12"))


UNITS.append(Unit(P_T + "_arg_consumer[thread]", u_arg_consumer, ("C05", "C07", "C12", "C02", "C08", "C01"), [P_T + "_arg_consumer", P_T + "_get_map_end_callback"],
                  theory_factory=lambda: ConsumerTheory("TaskPool"), trusted=TRUSTED))


def u_release_callback(ip: Interp, th: ConsumerTheory):
    """the wrapped end callback of map tasks: runs in the wrapper thread of a task of the call, inside _task_ending's call-out"""
    install(ip)
    st = th.initial(me_kind=K_WRAPPER)
    me = st.me
    p = PView(st)
    nc = fresh("a_num_concurrent", I)
    st.assume(nc >= 1)
    th.nc = nc
    th.extra_inv = map_sem_inv(nc)
    sem = SemV(ExtV(False, fresh("ms_v", I)), fresh("ms_g", I), fresh("ms_P", I), fresh("ms_out", I), fresh("mapsem", Ref))
    sem.tokarr = "mtok"
    st.sh["$msem"] = sem
    for _n, f, _p in th.extra_inv(st.sh):
        st.assume(f)
    # where the wrapper is when it calls its end callback (established by unit _task_wrapper[thread])
    tid = z3.Select(p.tid, me)
    st.assume(z3.And(z3.Select(p.loc, me) == L_ECB, z3.Not(z3.Select(p.tok, me)), z3.Select(p.mtok, me), z3.Select(p.msem, me) == sem.ident))
    th.instantiate_for_me(st)
    st.aux["seg0"] = dict(st.sh)
    user_cb = RefV(fresh("a_actual_end_callback", Ref))
    fi = ip.repo.get(P_T + "_get_map_end_callback")
    # the real factory returns the real closure
    res = ip.exec_function(st.fork(), fi, None, {"map_semaphore": PlaceV(("sh", "$msem")), "actual_end_callback": user_cb})
    ip.require(st, "_get_map_end_callback:returns-the-release-closure", z3.BoolVal(len(res) == 1 and isinstance(res[0][1], FuncV) and res[0][1].name == "release_callback"), ("C05",))
    node = ip.repo.nested_def(fi, "release_callback")
    closure = FuncV(node=node, env={"map_semaphore": PlaceV(("sh", "$msem")), "actual_end_callback": user_cb}, name="release_callback")
    fr = Frame(fi, fi.module, None, 0, qual=P_T + "_get_map_end_callback")

    def on_callout(s: St, fr_, fn_t, cargs, loc):
        rel = [e for e in s.trace if e[0] == "release" and e[1] == "mtok"]
        ip.require(s, "order:map-slot-released-before-the-user's-end-callback", z3.BoolVal(len(rel) == 1), ("C12", "C05"))
        ip.require(s, "callout:user-end-callback-with-the-task-id", z3.And(fn_t == user_cb.t, cargs[0].t == tid if (len(cargs) == 1 and isinstance(cargs[0], IntV)) else z3.BoolVal(False)), ("C03", "C05"))

    th.on_callout = on_callout
    for s, v in ip.run_closure(st, fr, closure, {"task_id": IntV(tid)}):
        th.check_point(s, "return")
        rel = [e for e in s.trace if e[0] == "release" and e[1] == "mtok"]
        ip.require(s, "count:map-slot-released-exactly-once-on-every-outcome", z3.BoolVal(len(rel) == 1), ("C05", "C12"))
        ip.require(s, "post:no-map-slot-retained", z3.Not(th.ghost(s, "mtok", me)), ("C05",))
        if isinstance(v, Exit):
            ip.require(s, f"noraise:pool-internal-exception:{v.val.cls}", z3.BoolVal(getattr(v.val, "origin", "pool") == "user"), ("C12",))


UNITS.append(Unit(P_T + "_get_map_end_callback.release_callback", u_release_callback, ("C05", "C12", "C03"), [P_T + "_get_map_end_callback", "helpers.execute_optional"],
                  theory_factory=lambda: ConsumerTheory("TaskPool"), trusted=TRUSTED))


# ======================================================================================================
# _pop_ended_meta_tasks  (verified against its body; the contract used by flush)      (C07, C08)
# ======================================================================================================
def _done(sh, t):
    return z3.Select(sh["loc"].t, t) == L_DONE


def inv_pop_inner(c):
    """while M[g]: move its members to `ended` (done) or `still_running` (not done).  st0 = entry of this inner loop"""
    g = c.loc("group_name").t
    p0, p1 = PView(c.st0), PView(c.st)
    t = z3.Const("t!l", Ref)
    h = z3.Const("h!l", S)
    ended0, ended1 = c.loc0("ended_meta_tasks"), c.loc("ended_meta_tasks")
    still0, still1 = c.loc0("still_running"), c.loc("still_running")
    cur = lambda tt: p1.Mset(g, tt)
    orig = lambda tt: p0.Mset(g, tt)
    moved = lambda tt: z3.And(orig(tt), z3.Not(cur(tt)))
    return [("keys-unchanged-other-groups-untouched", z3.ForAll([h], z3.And(p1.M.has(h) == p0.M.has(h), z3.Implies(h != g, z3.Select(p1.M.cols[0], h) == z3.Select(p0.M.cols[0], h))))),
            ("the-group-only-shrinks", z3.ForAll([t], z3.Implies(cur(t), orig(t)))),
            ("ended-gets-exactly-the-moved-done-ones", z3.ForAll([t], ended1.has(t) == z3.Or(ended0.has(t), z3.And(moved(t), _done(c.st.sh, t))))),
            ("still-running-gets-exactly-the-moved-live-ones", z3.ForAll([t], still1.has(t) == z3.Or(still0.has(t), z3.And(moved(t), z3.Not(_done(c.st.sh, t))))))]


def inv_pop_outer(c):
    """for g in M: ...   st0 = entry of the outer loop; keys visited so far are ks[0..i)"""
    p0, p1 = PView(c.st0), PView(c.st)
    ks = c.it.seq
    j = z3.Int("j!l")
    t = z3.Const("t!l", Ref)
    h = z3.Const("h!l", S)
    mm = z3.Int("m!l")
    pos = c.it.pos
    visited = lambda hh: z3.And(p0.M.has(hh), z3.Select(pos, hh) < c.i)
    ended = c.loc("ended_meta_tasks")
    obs: SeqV = c.loc("obsolete_keys")
    okey = lambda m_: z3.Select(obs.arrs[0], m_)
    live = lambda hh, tt: z3.And(p0.Mset(hh, tt), z3.Not(_done(c.st.sh, tt)))
    wit = c.st.loc["$livewit"].arrs[0]  # ghost: a live member of every visited group that keeps one
    opos = c.st.loc["$opos"].arrs[0]  # ghost: position in obsolete_keys of a visited group without live members
    return [("keys-unchanged", z3.ForAll([h], p1.M.has(h) == p0.M.has(h))),
            ("visited-groups-are-filtered-unvisited-untouched", z3.ForAll([h, t], z3.Implies(p0.M.has(h), p1.Mset(h, t) == z3.If(visited(h), live(h, t), p0.Mset(h, t))))),
            ("ended-collects-the-done-members-of-visited-groups", z3.ForAll([t], ended.has(t) == z3.Exists([h], z3.And(visited(h), p0.Mset(h, t), _done(c.st.sh, t))))),
            ("obsolete-keys-are-exactly-the-visited-groups-without-live-members", z3.And(
                obs.n >= 0,
                z3.ForAll([mm], z3.Implies(z3.And(0 <= mm, mm < obs.n), z3.And(visited(okey(mm)), z3.Select(opos, okey(mm)) == mm, z3.ForAll([t], z3.Not(live(okey(mm), t)))))),
                z3.ForAll([h], z3.Implies(visited(h), z3.Or(z3.And(0 <= z3.Select(opos, h), z3.Select(opos, h) < obs.n, okey(z3.Select(opos, h)) == h), live(h, z3.Select(wit, h)))))))]


def inv_pop_delete(c):
    """for g in obsolete_keys: del M[g]    st0 = entry of this loop"""
    p0, p1 = PView(c.st0), PView(c.st)
    obs: SeqV = c.loc("obsolete_keys")
    h = z3.Const("h!l", S)
    mm = z3.Int("m!l")
    okey = lambda m_: z3.Select(obs.arrs[0], m_)
    return [("deleted-exactly-the-first-i-obsolete-keys", z3.ForAll([h], z3.And(
        p1.M.has(h) == z3.And(p0.M.has(h), z3.Not(z3.Exists([mm], z3.And(0 <= mm, mm < c.i, okey(mm) == h)))),
        z3.Implies(p1.M.has(h), z3.Select(p1.M.cols[0], h) == z3.Select(p0.M.cols[0], h)))))]


LOOPSPECS[(P_B + "_pop_ended_meta_tasks", 1)] = LoopSpec(inv_pop_outer, ("C07", "C08"), name="each-group", sig="self._group_meta_tasks_running")
LOOPSPECS[(P_B + "_pop_ended_meta_tasks", 2)] = LoopSpec(inv_pop_inner, ("C07", "C08"), name="drain-group", sig="self._group_meta_tasks_running[group_name]",
                                                         variant=lambda c: z3.Select(PView(c.st).M.cols[1], c.loc("group_name").t))  # every turn pops one meta task
LOOPSPECS[(P_B + "_pop_ended_meta_tasks", 3)] = LoopSpec(inv_pop_delete, ("C07", "C08"), name="drop-empty", sig="obsolete_keys")


@unit(P_B + "_pop_ended_meta_tasks", ("C07", "C08"), [P_B + "_pop_ended_meta_tasks"])
def u_pop_ended(ip: Interp, th: PoolTheory):
    install(ip)
    st = th.initial()
    st0 = st.fork()
    p0 = PView(st0)
    st.loc["$livewit"] = SeqV(z3.IntVal(0), [fresh("livewit", z3.ArraySort(S, Ref))], sym.IntL())
    st.loc["$opos"] = SeqV(z3.IntVal(0), [fresh("opos", z3.ArraySort(S, I))], sym.IntL())

    def empty_list(s, fr, hint):
        return [(s, SeqV(0, [fresh("lst", z3.ArraySort(I, S))], sym.StrL(), mutable=True))]

    th.empty_list = empty_list

    def on_setitem(s, fr, cont, key_t, v):
        # M[g] = still_running (non-empty): remember one live member (ghost witness; a non-empty set has a member)
        if isinstance(v, SetV) and "$livewit" in s.loc:
            w = fresh("live_member", Ref)
            s.assume(z3.Implies(v.card > 0, v.has(w)))
            lw = s.loc["$livewit"]
            s.loc["$livewit"] = SeqV(lw.n, [z3.Store(lw.arrs[0], key_t, w)], lw.layout)

    th.on_setitem = on_setitem

    def on_append(s, fr, place, lst, item):
        if isinstance(item, StrV) and "$opos" in s.loc:
            op = s.loc["$opos"]
            s.loc["$opos"] = SeqV(op.n, [z3.Store(op.arrs[0], item.t, lst.n)], op.layout)

    th.on_append = on_append
    g, t = z3.Const("g!p", S), z3.Const("t!p", Ref)
    for s, v in run_body(ip, th, st, P_B + "_pop_ended_meta_tasks", {}):
        if isinstance(v, Exit):
            no_exit(ip, s, "noraise:" + v.val.cls, ("C07",))
            continue
        p1 = PView(s)
        done = lambda tt: _done(st0.sh, tt)
        ip.require(s, "post:exactly-the-live-members-remain", z3.ForAll([g, t], z3.And(p1.M.has(g), p1.Mset(g, t)) == z3.And(p0.M.has(g), p0.Mset(g, t), z3.Not(done(t)))), ("C07", "C08"))
        ip.require(s, "post:no-new-group", z3.ForAll([g], z3.Implies(p1.M.has(g), p0.M.has(g))), ("C07",))
        ip.require(s, "post:returns-exactly-the-done-members", z3.ForAll([t], v.has(t) == z3.Exists([g], z3.And(p0.M.has(g), p0.Mset(g, t), done(t)))) if isinstance(v, SetV) else z3.BoolVal(False), ("C07", "C08"))
        unchanged(ip, s, st0, "touches-only-the-meta-task-registry", ("C07",), except_=("_group_meta_tasks_running",))


# ======================================================================================================
# call-graph / frame declarations the thread model rests on (mechanical, from the AST of the whole package)
# ======================================================================================================
@unit("pool.callgraph", tuple(f"C{i:02d}" for i in range(1, 16)), [P_B + "_start_task", P_B + "_task_wrapper", P_B + "_task_ending", P_B + "_task_cancellation"])
def u_callgraph(ip: Interp, th: PoolTheory):
    repo = ip.repo
    st = th.initial()
    ALL = tuple(f"C{i:02d}" for i in range(1, 16))

    def pool_fns(qs):
        return sorted(q.replace(".getter", "").replace(".setter", "") for q in qs if q.startswith("pool."))

    problems = []

    def only(name, found, allowed, props=ALL):
        # a site the declaration does not know is not a violation by itself (it may be a correct new helper): the
        # thread model no longer matches the code, so the deductive check is *undecided* until the spec is extended
        extra = sorted(set(found) - set(allowed))

        def helper_of_allowed(q, depth=0):
            # a private helper without a contract of its own that is referenced only from the declared functions is executed
            # as part of them (the symbolic executor inlines it): not a deviation from the declared model
            name_ = q.split(".")[-1]
            if depth > 3 or not name_.startswith("_") or name_.startswith("__") or q in ip.contracts:
                return False
            callers = [c for c in pool_fns(repo.references(name_)) if c != q]
            return bool(callers) and all(c in allowed or helper_of_allowed(c, depth + 1) for c in callers)

        extra = [q for q in extra if not helper_of_allowed(q)]
        if extra:
            problems.append(f"{name}: also {extra}")
        else:
            ip.require(st, f"callgraph:{name}", z3.BoolVal(True), props)

    refs = lambda a: pool_fns(repo.references(a))
    writes = lambda a: pool_fns(repo.attr_writes(a))
    # which coroutine runs in which kind of thread
    only("_task_ending-is-referenced-only-by-the-wrapper", refs("_task_ending"), [P_B + "_task_wrapper"])
    only("_task_cancellation-is-referenced-only-by-the-wrapper", refs("_task_cancellation"), [P_B + "_task_wrapper"])
    only("_task_wrapper-is-turned-into-a-task-only-by-_start_task", refs("_task_wrapper"), [P_B + "_start_task"])
    only("_start_task-is-called-only-by-the-spawner-coroutines", refs("_start_task"), [P_T + "_apply_spawner", P_T + "_arg_consumer", P_S + "_start_num"])
    only("_apply_spawner-is-started-only-by-apply", refs("_apply_spawner"), [P_T + "apply"])
    only("_arg_consumer-is-started-only-by-_map", refs("_arg_consumer"), [P_T + "_map"])
    only("_start_num-is-started-only-by-start", refs("_start_num"), [P_S + "start"])
    only("_map-is-called-only-by-the-map-family", refs("_map"), [P_T + "map", P_T + "starmap", P_T + "doublestarmap"])
    # frames: who writes which field
    only("_num_started-written-only-by-__init__-and-_start_task", writes("_num_started"), [P_B + "__init__", P_B + "_start_task"], ("C11",))
    only("_locked-written-only-by-__init__-lock-unlock", writes("_locked"), [P_B + "__init__", P_B + "lock", P_B + "unlock"], ("C09",))
    for f in ("_func", "_args", "_kwargs", "_end_callback", "_cancel_callback", "_start_calls"):
        allowed = [P_S + "__init__"] + ([P_S + "start"] if f == "_start_calls" else [])
        only(f"{f}-written-only-by-{'+'.join(a.split('.')[-1] for a in allowed)}", writes(f), allowed, ("C04", "C10"))
    for f in ("_idx", "_name", "_enough_room", "_tasks_running", "_tasks_cancelled", "_tasks_ended", "_task_groups", "_group_meta_tasks_running", "_meta_tasks_cancelled", "_closed"):
        only(f"{f}-bound-only-in-__init__", writes(f), [P_B + "__init__"], ("C11", "C01"))
    only("the-semaphore-is-touched-only-by-known-functions", refs("_enough_room"),
         [P_B + "__init__", P_B + "pool_size", P_B + "is_full", P_B + "_task_ending", P_B + "_start_task"], ("C01", "C02", "C15"))
    only("the-running-registry-is-touched-only-by-known-functions", refs("_tasks_running"),
         [P_B + "__init__", P_B + "num_running", P_B + "_task_cancellation", P_B + "_task_ending", P_B + "_start_task", P_B + "_get_running_task",
          P_B + "_cancel_and_remove_all_from_group", P_B + "gather_and_close", P_S + "stop"], ("C03", "C13"))
    only("the-cancelled-registry-is-touched-only-by-known-functions", refs("_tasks_cancelled"),
         [P_B + "__init__", P_B + "num_cancelled", P_B + "_task_cancellation", P_B + "_task_ending", P_B + "_get_running_task", P_B + "flush", P_B + "gather_and_close"], ("C03", "C13"))
    only("the-ended-registry-is-touched-only-by-known-functions", refs("_tasks_ended"),
         [P_B + "__init__", P_B + "num_ended", P_B + "_task_ending", P_B + "_get_running_task", P_B + "flush", P_B + "gather_and_close"], ("C03", "C13"))
    # the shipped subclasses override nothing of the base class (the base-class units hold for them)
    base = set(repo.classes["BaseTaskPool"].methods) | set(repo.classes["BaseTaskPool"].props_get)
    for sub in ("TaskPool", "SimpleTaskPool"):
        over = sorted((set(repo.classes[sub].methods) | set(repo.classes[sub].props_get)) & base - {"__init__"})
        ip.require(st, f"callgraph:{sub}-overrides-no-base-method", z3.BoolVal(not over), ALL, meta={"overridden": over})
    # no other module of the package reaches into the pool's private state (the control package uses the public API)
    private = ("_tasks_running", "_tasks_cancelled", "_tasks_ended", "_enough_room", "_task_groups", "_group_meta_tasks_running", "_num_started")
    outside = sorted(q for a in private for q in repo.references(a) if not q.startswith("pool."))
    ip.require(st, "callgraph:no-other-module-touches-the-pool's-private-state(U1-inside-the-package)", z3.BoolVal(not outside), ALL, meta={"found": outside})
    if problems:
        raise Unsupported("the call graph differs from the declared thread/frame model: " + "; ".join(problems))
