"""Sequential contracts of the public pool API (one atomic segment each): C01 is_full lemma, C06/C07
cancellation, C09 rejection and lock/unlock, C10 groups, C14 stop, C15 pool_size, __init__."""
from __future__ import annotations

import z3

from pyvc import sym
from pyvc.interp import ExcV, Exit, Interp, LoopSpec, St
from pyvc.run import Unit
from pyvc.sym import (B, I, NONE, S, BoolV, ExtV, IntL, IntV, KwV, NoneV, ObjV, OptV, Ref, RefL, RefV, SemV, SeqV, SetV, StrV, TupleV, Unsupported, V,
                      fresh)
from pyvc.theory import ArrV, eq_value, same_value

from .pool_theory import (K_APPLY, K_MAP, K_NONE, K_OTHER, K_START, K_WRAPPER, L_BODY, L_CCB, L_DONE, L_ECB, L_NS, L_RUN, TRUSTED, PoolTheory,
                          PView, start_group_name)
from .pool_units import LOOPSPECS, UNITS, install, is_raise, no_exit, requested, run_body, unchanged, unit, _as_state

P_B = "pool.BaseTaskPool."
P_T = "pool.TaskPool."
P_S = "pool.SimpleTaskPool."


# ======================================================================================================
# lock / unlock / counters / is_full     (C09, C01, C03)
# ======================================================================================================
@unit(P_B + "lock+unlock+is_locked", ("C09",), [P_B + "lock", P_B + "unlock", P_B + "is_locked.getter"])
def u_lock(ip: Interp, th: PoolTheory):
    for name, want in (("lock", True), ("unlock", False)):
        st = th.initial()
        st0 = st.fork()
        for s, v in run_body(ip, th, st, P_B + name, {}):
            th.check_point(s, f"{name}:exit")
            if isinstance(v, Exit):
                no_exit(ip, s, f"{name}:noraise", ("C09",))
                continue
            ip.require(s, f"{name}:post:locked=={want}", s.sh["_locked"].t == z3.BoolVal(want), ("C09",))
            unchanged(ip, s, st0, f"{name}:only-the-lock-flag-changes", ("C09",), except_=("_locked",))
            # idempotence: a second call changes nothing more
            s1 = s.fork()
            for s2, v2 in run_body(ip, th, s1, P_B + name, {}):
                unchanged(ip, s2, s, f"{name}:idempotent", ("C09",))
    st = th.initial()
    for s, v in run_body(ip, th, st, P_B + "is_locked.getter", {}):
        ip.require(s, "is_locked:reports-the-flag", z3.BoolVal(False) if isinstance(v, Exit) else v.t == st.sh["_locked"].t, ("C09",))


@unit(P_B + "num_running+num_cancelled+num_ended+is_full", ("C01", "C03"), [P_B + "num_running.getter", P_B + "num_cancelled.getter", P_B + "num_ended.getter", P_B + "is_full.getter"])
def u_counters(ip: Interp, th: PoolTheory):
    for name, comp in (("num_running", "_tasks_running"), ("num_cancelled", "_tasks_cancelled"), ("num_ended", "_tasks_ended")):
        st = th.initial()
        st0 = st.fork()
        for s, v in run_body(ip, th, st, P_B + name + ".getter", {}):
            unchanged(ip, s, st0, name + ":pure", ("C03",))
            ip.require(s, name + ":post:is-the-registry-size", z3.BoolVal(False) if not isinstance(v, IntV) else v.t == st0.sh[comp].card, ("C03", "C01"))
    st = th.initial()
    st0 = st.fork()
    p = PView(st0)
    for s, v in run_body(ip, th, st, P_B + "is_full.getter", {}):
        unchanged(ip, s, st0, "is_full:pure", ("C01",))
        if not isinstance(v, BoolV):
            no_exit(ip, s, "is_full:returns-bool", ("C01",))
            continue
        # lemmas (pure implications over Inv, with the real result of is_full)
        ip.require(s, "lemma:num_running-never-exceeds-size", z3.Implies(z3.Not(p.size.inf), p.R.card + p.C.card <= p.size.k), ("C01",))
        idle = z3.And(p.sem.g == 0, p.C.card == 0)
        ip.require(s, "lemma:idle=>is_full-iff-running==size", z3.Implies(idle, v.t == z3.And(z3.Not(p.size.inf), p.R.card == p.size.k)), ("C01",))
        ip.require(s, "lemma:size-0-is-always-full", z3.Implies(z3.And(z3.Not(p.size.inf), p.size.k == 0), v.t), ("C01",))
        ip.require(s, "lemma:unbounded-is-never-full", z3.Implies(p.size.inf, z3.Not(v.t)), ("C01",))
        ip.require(s, "lemma:quiescent=>full-capacity-available", z3.Implies(z3.And(p.R.card == 0, p.C.card == 0, z3.Not(p.size.inf)), p.sem.v.k + p.sem.g == p.size.k), ("C02",))


# ======================================================================================================
# get_group_ids   (C10)
# ======================================================================================================
def _names_seq(prefix="a_names"):
    n = fresh(prefix + "_n", I)
    return SeqV(n, [fresh(prefix, z3.ArraySort(I, S))], sym.StrL())


def inv_get_group_ids(c):
    names: SeqV = c.loc("group_names")
    ids: SetV = c.loc("ids")
    p = PView(c.st)
    j, x = z3.Int("j!l"), z3.Int("x!l")
    nm = lambda jj: z3.Select(names.arrs[0], jj)
    return [("all-visited-exist", z3.ForAll([j], z3.Implies(z3.And(0 <= j, j < c.i), p.G.has(nm(j))))),
            ("ids-is-union-of-visited", z3.ForAll([x], ids.has(x) == z3.Exists([j], z3.And(0 <= j, j < c.i, p.Gids(nm(j), x)))))]


LOOPSPECS[(P_B + "get_group_ids", 1)] = LoopSpec(inv_get_group_ids, ("C10",), name="collect")


@unit(P_B + "get_group_ids", ("C10",), [P_B + "get_group_ids", "group_register.TaskGroupRegister.__iter__"])
def u_get_group_ids(ip: Interp, th: PoolTheory):
    install(ip)
    th.set_layouts = {"ids": IntL()}
    st = th.initial()
    names = _names_seq()
    st.assume(names.n >= 0)
    st0 = st.fork()
    p = PView(st0)
    j, x = z3.Int("j!p"), z3.Int("x!p")
    nm = lambda jj: z3.Select(names.arrs[0], jj)
    for s, v in run_body(ip, th, st, P_B + "get_group_ids", {"group_names": names}):
        unchanged(ip, s, st0, "pure", ("C10",))
        if isinstance(v, Exit):
            if v.val.cls != "TaskGroupNotFound":
                no_exit(ip, s, "noraise:" + v.val.cls, ("C10",))
                continue
            j0 = fresh("j0", I)
            ip.require(s, "raises:TaskGroupNotFound:only-for-an-unknown-name", z3.Exists([j], z3.And(0 <= j, j < names.n, z3.Not(p.G.has(nm(j))))), ("C10",))
            continue
        if not isinstance(v, SetV):
            no_exit(ip, s, "post:returns-a-set", ("C10",))
            continue
        ip.require(s, "post:all-names-exist", z3.ForAll([j], z3.Implies(z3.And(0 <= j, j < names.n), p.G.has(nm(j)))), ("C10",))
        ip.require(s, "post:exactly-the-union-of-the-named-groups", z3.ForAll([x], v.has(x) == z3.Exists([j], z3.And(0 <= j, j < names.n, p.Gids(nm(j), x)))), ("C10",))


# ======================================================================================================
# _cancel_group_meta_tasks / _cancel_and_remove_all_from_group / cancel_group / cancel_all   (C07)
# ======================================================================================================
def _meta_prefix(c, seqarr, upto):
    j = z3.Int("j!l")
    return lambda t: z3.Exists([j], z3.And(0 <= j, j < upto, z3.Select(seqarr, j) == t))


def inv_cancel_group_meta(c):
    it = c.it
    return [("requested-prefix", requested(c.st0, c.st, _meta_prefix(c, it.seq, c.i))),
            ("waiters-only-shrink", z3.And(c.st.sh["_enough_room"].P <= c.st0.sh["_enough_room"].P, c.st.sh["_enough_room"].P >= 0,
                                           c.st.sh["_enough_room"].g == c.st0.sh["_enough_room"].g, c.st.sh["_enough_room"].out == c.st0.sh["_enough_room"].out,
                                           c.st.sh["_enough_room"].v.same(c.st0.sh["_enough_room"].v)))]


LOOPSPECS[(P_B + "_cancel_group_meta_tasks", 1)] = LoopSpec(inv_cancel_group_meta, ("C07",), name="cancel-metas")


def sem_only_waiters_shrunk(s0, s1):
    a, b = s0["_enough_room"], s1["_enough_room"]
    return z3.And(b.P <= a.P, b.P >= 0, b.g == a.g, b.out == a.out, b.v.same(a.v))


def inv_cancel_and_remove(c):
    """while group_reg: ... ; st0 is the state at loop entry (after the meta tasks were cancelled)"""
    reg: ObjV = c.loc("group_reg")
    reg0: ObjV = c.loc0("group_reg")
    ids, ids0 = reg.fields["_ids"], reg0.fields["_ids"]
    p0 = PView(c.st0)
    x = z3.Int("x!l")
    done = lambda t: z3.Exists([x], z3.And(ids0.has(x), z3.Not(ids.has(x)), p0.R.has(x), p0.Rv(x) == t))
    return [("remaining-subset", z3.ForAll([x], z3.Implies(ids.has(x), ids0.has(x)))),
            ("requested-the-removed-running-ones", requested(c.st0, c.st, done)),
            ("waiters-only-shrink", sem_only_waiters_shrunk(c.st0.sh, c.st.sh))]


LOOPSPECS[(P_B + "_cancel_and_remove_all_from_group", 1)] = LoopSpec(inv_cancel_and_remove, ("C07",), name="cancel-members")


def cancel_and_remove_post(st0: St, s: St, g, ids0: SetV):
    """effect of _cancel_and_remove_all_from_group(g, reg) with reg.ids == ids0 on entry"""
    p0, p1 = PView(st0), PView(s)
    t = z3.Const("t!p", Ref)
    x = z3.Int("x!p")
    h = z3.Const("h!p", S)
    was_meta = lambda tt: z3.And(p0.M.has(g), p0.Mset(g, tt))
    was_member = lambda tt: z3.Exists([x], z3.And(ids0.has(x), p0.R.has(x), p0.Rv(x) == tt))
    cl = [("exactly-the-group's-spawners-and-running-tasks-requested", requested(st0, s, lambda tt: z3.Or(was_meta(tt), was_member(tt)))),
          ("meta-entry-forgotten", z3.And(z3.Not(p1.M.has(g)), z3.ForAll([h], z3.Implies(h != g, z3.And(p1.M.has(h) == p0.M.has(h), z3.Select(p1.M.cols[0], h) == z3.Select(p0.M.cols[0], h)))))),
          ("spawners-moved-to-cancelled-set", z3.ForAll([t], p1.MC.has(t) == z3.Or(p0.MC.has(t), was_meta(t)))),
          ("waiters-only-shrink", sem_only_waiters_shrunk(st0.sh, s.sh))]
    return cl


CR_MODIFIES = ("_group_meta_tasks_running", "_meta_tasks_cancelled", "creq", "cever", "_enough_room")


@unit(P_B + "_cancel_and_remove_all_from_group", ("C07", "C02", "C03"), [P_B + "_cancel_and_remove_all_from_group", P_B + "_cancel_group_meta_tasks",
                                                                         "group_register.TaskGroupRegister.__len__", "group_register.TaskGroupRegister.discard"])
def u_cancel_and_remove(ip: Interp, th: PoolTheory):
    install(ip)
    st = th.initial()
    g = StrV(fresh("a_group", S))
    reg = ObjV("TaskGroupRegister", {"_ids": SetV.symbolic("a_reg", IntL()), "_lock": sym.LockV(False)})
    for f in reg.fields["_ids"].qfacts():
        st.assume(f)
    st0 = st.fork()
    ids0 = reg.fields["_ids"]
    for s, v in run_body(ip, th, st, P_B + "_cancel_and_remove_all_from_group", {"group_name": g, "group_reg": reg, "cancel_kw": KwV({})}):
        if isinstance(v, Exit):
            no_exit(ip, s, "noraise:" + v.val.cls, ("C07",))
            continue
        for name, f in cancel_and_remove_post(st0, s, g.t, ids0):
            ip.require(s, "post:" + name, f, ("C07",))
        unchanged(ip, s, st0, "touches-only-requests-and-meta-bookkeeping", ("C07",), except_=CR_MODIFIES)


def c_cancel_and_remove(ip: Interp, st: St, fr, selfv, args):
    """contract of _cancel_and_remove_all_from_group for its callers"""
    th: PoolTheory = ip.theory
    reg = ip.deref(st, args["group_reg"])
    g = args["group_name"]
    if not (isinstance(reg, ObjV) and isinstance(g, StrV)):
        raise Unsupported("_cancel_and_remove_all_from_group argument shapes")
    # the F1 precondition of Task.cancel is an obligation of the callee's own unit; callers inherit nothing
    st0 = st.fork()
    th.havoc_shared(st, CR_MODIFIES, "cr")
    for k in CR_MODIFIES:
        th._facts(st, st.sh[k])
    for _n, f in cancel_and_remove_post(st0, st, g.t, reg.fields["_ids"]):
        st.assume(f)
    st.trace.append(("cancel_and_remove", g.t))
    return [(st, NoneV())]


@unit(P_B + "cancel_group", ("C07", "C10"), [P_B + "cancel_group", P_B + "_get_cancel_kw"])
def u_cancel_group(ip: Interp, th: PoolTheory):
    install(ip)
    ip.contracts[P_B + "_cancel_and_remove_all_from_group"] = c_cancel_and_remove
    st = th.initial()
    g = StrV(fresh("a_group", S))
    msg = OptV(fresh("a_msg_none", B), StrV(fresh("a_msg", S)))
    st0 = st.fork()
    p0 = PView(st0)
    x = z3.Int("x!p")
    t = z3.Const("t!p", Ref)
    h = z3.Const("h!p", S)
    for s, v in run_body(ip, th, st, P_B + "cancel_group", {"group_name": g, "msg": msg}):
        th.check_point(s, "exit")
        p1 = PView(s)
        if isinstance(v, Exit):
            if v.val.cls == "TaskGroupNotFound":
                ip.require(s, "raises:TaskGroupNotFound:iff-unknown", z3.Not(p0.G.has(g.t)), ("C07", "C10"))
                unchanged(ip, s, st0, "unknown-group-changes-nothing", ("C07",))
            else:
                no_exit(ip, s, "noraise:" + v.val.cls, ("C07",))
            continue
        ip.require(s, "post:group-was-known", p0.G.has(g.t), ("C07",))
        ip.require(s, "post:group-forgotten-name-free", z3.Not(p1.G.has(g.t)), ("C07", "C10"))
        ip.require(s, "post:other-groups-untouched", z3.ForAll([h], z3.Implies(h != g.t, z3.And(p1.G.has(h) == p0.G.has(h), z3.Select(p1.G.cols[0], h) == z3.Select(p0.G.cols[0], h),
                                                                                                 z3.Select(p1.G.cols[1], h) == z3.Select(p0.G.cols[1], h)))), ("C07", "C10"))
        ids0 = SetV(z3.Select(p0.G.cols[0], g.t), z3.Select(p0.G.cols[1], g.t), IntL())
        for name, f in cancel_and_remove_post(st0, s, g.t, ids0):
            ip.require(s, "post:" + name, f, ("C07",))
        # with I9 (every uncancelled running task is covered by its live group): every unfinished task *of g* is requested
        ip.require(s, "lemma:every-running-task-of-the-group-is-requested",
                   z3.ForAll([x], z3.Implies(z3.And(p0.R.has(x), z3.Select(p0.grp, p0.Rv(x)) == g.t, z3.Not(z3.Select(p0.cever, p0.Rv(x)))), z3.Select(p1.creq, p0.Rv(x)))), ("C07",))
        # with I10: afterwards no live spawner of g is left unrequested => none of them can reach create_task / next(arg_iter)
        ip.require(s, "lemma:no-live-unrequested-spawner-of-the-group-remains",
                   z3.ForAll([t], z3.Implies(z3.And(p1.is_spawner(t), z3.Select(p1.grp, t) == g.t, z3.Select(p1.loc, t) != L_DONE), z3.Select(p1.creq, t))), ("C07",))
        unchanged(ip, s, st0, "registries-and-capacity-untouched", ("C07",), except_=CR_MODIFIES + ("_task_groups",))


def inv_cancel_all(c):
    p0, p1 = PView(c.st0), PView(c.st)
    h = z3.Const("h!l", S)
    t = z3.Const("t!l", Ref)
    x = z3.Int("x!l")
    gone = lambda hh: z3.And(p0.G.has(hh), z3.Not(p1.G.has(hh)))
    target = lambda tt: z3.Exists([h], z3.And(gone(h), z3.Or(z3.And(p0.M.has(h), p0.Mset(h, tt)),
                                                             z3.Exists([x], z3.And(p0.Gids(h, x), p0.R.has(x), p0.Rv(x) == tt)))))
    return [("groups-only-shrink", z3.ForAll([h], z3.Implies(p1.G.has(h), z3.And(p0.G.has(h), z3.Select(p1.G.cols[0], h) == z3.Select(p0.G.cols[0], h))))),
            ("requested-exactly-the-popped-groups'-tasks-and-spawners", requested(c.st0, c.st, target)),
            ("meta-of-popped-groups-forgotten", z3.ForAll([h], z3.And(z3.Implies(gone(h), z3.Not(p1.M.has(h))),
                                                                      z3.Implies(z3.Not(gone(h)), z3.And(p1.M.has(h) == p0.M.has(h), z3.Select(p1.M.cols[0], h) == z3.Select(p0.M.cols[0], h)))))),
            ("cancelled-set-grows-by-their-spawners", z3.ForAll([t], p1.MC.has(t) == z3.Or(p0.MC.has(t), z3.Exists([h], z3.And(gone(h), p0.M.has(h), p0.Mset(h, t)))))),
            ("waiters-only-shrink", sem_only_waiters_shrunk(c.st0.sh, c.st.sh))]


LOOPSPECS[(P_B + "cancel_all", 1)] = LoopSpec(inv_cancel_all, ("C07",), name="each-group")


@unit(P_B + "cancel_all", ("C07",), [P_B + "cancel_all", P_B + "_get_cancel_kw"])
def u_cancel_all(ip: Interp, th: PoolTheory):
    install(ip)
    ip.contracts[P_B + "_cancel_and_remove_all_from_group"] = c_cancel_and_remove
    st = th.initial()
    msg = OptV(fresh("a_msg_none", B), StrV(fresh("a_msg", S)))
    st0 = st.fork()
    p0 = PView(st0)
    x = z3.Int("x!p")
    t = z3.Const("t!p", Ref)
    for s, v in run_body(ip, th, st, P_B + "cancel_all", {"msg": msg}):
        th.check_point(s, "exit")
        p1 = PView(s)
        if isinstance(v, Exit):
            no_exit(ip, s, "noraise:" + v.val.cls, ("C07",))
            continue
        ip.require(s, "post:no-group-left", p1.G.card == 0, ("C07",))
        ip.require(s, "lemma:every-covered-running-task-is-requested",
                   z3.ForAll([x], z3.Implies(z3.And(p0.R.has(x), z3.Not(z3.Select(p0.cever, p0.Rv(x)))), z3.Select(p1.creq, p0.Rv(x)))), ("C07",))
        unchanged(ip, s, st0, "registries-and-capacity-untouched", ("C07",), except_=CR_MODIFIES + ("_task_groups",))


# ======================================================================================================
# SimpleTaskPool.stop / stop_all     (C14)
# ======================================================================================================
def inv_stop(c):
    ids: SeqV = c.loc("ids")
    it = c.it  # enumerate(reversed(R)) : item(i) = (i, key_i)
    j = z3.Int("j!l")
    num = c.loc("num").t
    return [("ids-is-the-prefix-of-the-reverse-order", z3.And(ids.n == c.i, z3.ForAll([j], z3.Implies(z3.And(0 <= j, j < c.i), z3.Select(ids.arrs[0], j) == z3.Select(it.seq, j))))),
            ("not-beyond-num", z3.Or(c.i == 0, c.i <= num))]


LOOPSPECS[(P_S + "stop", 1)] = LoopSpec(inv_stop, ("C14",), name="pick-newest")


def c_cancel_for_stop(ip: Interp, st: St, fr, selfv, args):
    """contract of cancel(*ids) (verified in unit pool.BaseTaskPool.cancel): all ids running => exactly those requested"""
    ids = args["task_ids"]
    if not isinstance(ids, SeqV):
        raise Unsupported("cancel(*ids) argument shape")
    p = PView(st)
    j = z3.Int("j!c")
    idj = z3.Select(ids.arrs[0], j)
    ip.require(st, "pre:cancel:every-picked-id-is-running", z3.ForAll([j], z3.Implies(z3.And(0 <= j, j < ids.n), p.R.has(idj))), ("C14", "C06"))
    st0 = st.fork()
    ip.theory.havoc_shared(st, ("creq", "cever"), "cfs")
    st.assume(requested(st0, st, lambda t: z3.Exists([j], z3.And(0 <= j, j < ids.n, p.Rv(idj) == t))))
    return [(st, NoneV())]


@unit(P_S + "stop+stop_all", ("C14",), [P_S + "stop", P_S + "stop_all"], cls="SimpleTaskPool")
def u_stop(ip: Interp, th: PoolTheory):
    install(ip)
    ip.contracts[P_B + "cancel"] = c_cancel_for_stop
    for which in ("stop", "stop_all"):
        st = th.initial()
        num = IntV(fresh("a_num", I))
        st0 = st.fork()
        p0 = PView(st0)
        j, j2, k = z3.Int("j!p"), z3.Int("j2!p"), z3.Int("k!p")
        n_req = p0.R.card if which == "stop_all" else num.t
        m = z3.If(n_req <= 0, 0, z3.If(n_req < p0.R.card, n_req, p0.R.card))
        for s, v in run_body(ip, th, st, P_S + which, {} if which == "stop_all" else {"num": num}):
            th.check_point(s, which + ":exit")
            if isinstance(v, Exit) or not isinstance(v, SeqV):
                no_exit(ip, s, which + ":noraise", ("C14",))
                continue
            a = v.arrs[0]
            at = lambda jj: z3.Select(a, jj)
            ip.require(s, which + ":post:returns-min(n,running)-ids", v.n == m, ("C14",))
            ip.require(s, which + ":post:all-returned-are-running", z3.ForAll([j], z3.Implies(z3.And(0 <= j, j < v.n), p0.R.has(at(j)))), ("C14",))
            ip.require(s, which + ":post:newest-first", z3.ForAll([j, j2], z3.Implies(z3.And(0 <= j, j < j2, j2 < v.n), at(j) > at(j2))), ("C14",))
            ip.require(s, which + ":post:they-are-the-most-recently-started",
                       z3.ForAll([k, j], z3.Implies(z3.And(p0.R.has(k), 0 <= j, j < v.n, z3.Not(z3.Exists([j2], z3.And(0 <= j2, j2 < v.n, at(j2) == k)))), k < at(j))), ("C14",))
            ip.require(s, which + ":post:exactly-those-are-requested", requested(st0, s, lambda t: z3.Exists([j], z3.And(0 <= j, j < v.n, p0.Rv(at(j)) == t))), ("C14",))
            unchanged(ip, s, st0, which + ":nothing-else-changes", ("C14",), except_=("creq", "cever"))


# ======================================================================================================
# pool_size getter / setter    (C15; C09 negative size)
# ======================================================================================================
@unit(P_B + "pool_size", ("C15", "C09"), [P_B + "pool_size.getter", P_B + "pool_size.setter"])
def u_pool_size(ip: Interp, th: PoolTheory):
    st = th.initial()
    st0 = st.fork()
    p0 = PView(st0)
    for s, v in run_body(ip, th, st, P_B + "pool_size.getter", {}):
        unchanged(ip, s, st0, "getter:pure", ("C15",))
        ok = z3.BoolVal(False)
        if isinstance(v, ExtV):
            ok = v.same(p0.size)
        elif isinstance(v, IntV):
            ok = p0.size.eq_int(v.t)
        ip.require(s, "getter:post:reports-the-configured-maximum", ok, ("C15",), meta={"finding": "F5"})
    # setter, tasks possibly in flight (U4 is NOT assumed here)
    st = th.initial()
    value = ExtV(fresh("a_value_inf", B), fresh("a_value", I))
    st0 = st.fork()
    p0 = PView(st0)
    for s, v in run_body(ip, th, st, P_B + "pool_size.setter", {"value": value}):
        if isinstance(v, Exit):
            if v.val.cls == "ValueError":
                ip.require(s, "setter:raises:ValueError:iff-negative", value.lt_int(0), ("C15", "C09"))
                unchanged(ip, s, st0, "setter:negative-value-changes-nothing", ("C15", "C09"))
            else:
                no_exit(ip, s, "setter:noraise:" + v.val.cls, ("C15",))
            continue
        ip.require(s, "setter:post:accepted-only-if-non-negative", z3.Not(value.lt_int(0)), ("C15", "C09"))
        s.sh["size"] = value  # ghost: the configured maximum is now `value`
        p1 = PView(s)
        unchanged(ip, s, st0, "setter:touches-only-the-limit", ("C15",), except_=("size", "_enough_room"))
        ip.require(s, "setter:post:limit-in-force-counts-tasks-in-flight(I5)",
                   z3.And(z3.Implies(z3.Not(value.inf), z3.And(z3.Not(p1.sem.v.inf), p1.sem.v.k + p1.sem.g + p1.sem.out == value.k)),
                          z3.Implies(value.inf, p1.sem.v.inf)), ("C15",), meta={"finding": "F5"})
        ip.require(s, "setter:post:waiters-with-room-are-woken(I12)", z3.Implies(p1.sem.P > 0, z3.Or(p1.sem.v.eq_int(0), p1.sem.g > 0)), ("C15",), meta={"finding": "F5"})
        ip.require(s, "setter:post:running-tasks-undisturbed", z3.And(p1.sem.out == p0.sem.out, p1.sem.g == p0.sem.g), ("C15",))
    # setter on a pool with nothing in flight (assumption U4): establishes I5/I12 - this is what __init__ and C01 rely on
    st = th.initial()
    p = PView(st)
    st.assume(z3.And(p.sem.out == 0, p.sem.g == 0, p.sem.P == 0))
    value = ExtV(fresh("b_value_inf", B), fresh("b_value", I))
    st.assume(z3.Not(value.lt_int(0)))
    for s, v in run_body(ip, th, st, P_B + "pool_size.setter", {"value": value}):
        if isinstance(v, Exit):
            no_exit(ip, s, "setter[idle]:noraise:" + v.val.cls, ("C01",))
            continue
        s.sh["size"] = value
        s.aux["seg0_inv"] = False
        for name, f, props in th.inv(s.sh):
            if name.startswith(("I5", "I12", "I1.")):
                ip.require(s, f"setter[idle]:establishes:{name}", f, ("C01", "C15"))


# ======================================================================================================
# BaseTaskPool.__init__ / _add_pool / __str__    (C01, C11)
# ======================================================================================================
@unit(P_B + "__init__", ("C01", "C11", "C03"), [P_B + "__init__", P_B + "_add_pool", P_B + "pool_size.setter"])
def u_init(ip: Interp, th: PoolTheory):
    st = th.initial(assume_inv=False)
    me = st.me
    t = z3.Const("t!p", Ref)
    p = PView(st)
    # a new pool: no thread belongs to it yet (ghost), nothing forgotten
    st.assume(z3.ForAll([t], z3.And(z3.Select(p.kind, t) != K_WRAPPER, z3.Not(p.is_spawner(t)))))
    st.sh["forgotten"] = IntV(0)
    npools0 = st.sh["_pools"].n
    st.assume(npools0 >= 0)
    size = ExtV(fresh("a_size_inf", B), fresh("a_size", I))
    name = OptV(fresh("a_name_none", B), StrV(fresh("a_name", S)))
    for s, v in run_body(ip, th, st, P_B + "__init__", {"pool_size": size, "name": name}):
        if isinstance(v, Exit):
            if v.val.cls == "ValueError":
                ip.require(s, "raises:ValueError:iff-negative-size", size.lt_int(0), ("C09",))
            else:
                no_exit(ip, s, "noraise:" + v.val.cls, ("C11",))
            continue
        s.sh["size"] = size
        s.aux["seg0_inv"] = False
        for nm, f, props in th.inv(s.sh):
            ip.require(s, f"establishes:{nm}", f, props)
        p1 = PView(s)
        ip.require(s, "post:fresh-pool-is-empty-unlocked-open", z3.And(p1.n == 0, p1.R.card == 0, p1.C.card == 0, p1.E.card == 0, z3.Not(p1.locked), z3.Not(p1.closed),
                                                                     p1.G.card == 0, p1.M.card == 0, p1.MC.card == 0), ("C11", "C03"))
        ip.require(s, "post:index-is-position-in-the-class-list(I14)", z3.And(s.sh["_idx"].t == npools0, s.sh["_pools"].n == npools0 + 1), ("C11",))
        ip.require(s, "post:name-stored", eq_value(s.sh["_name"], name), ("C11",))


@unit(P_B + "__str__+_task_name", ("C11",), [P_B + "__str__", P_B + "_task_name"])
def u_str(ip: Interp, th: PoolTheory):
    from .pool_units import pool_str

    st = th.initial()
    st0 = st.fork()
    for s, v in run_body(ip, th, st, P_B + "__str__", {}):
        unchanged(ip, s, st0, "__str__:pure", ("C11",))
        ip.require(s, "__str__:post:'<Class>-<name or index>'", z3.BoolVal(False) if not isinstance(v, StrV) else v.t == pool_str(st0.sh).t, ("C11",))
    st = th.initial()
    tid = IntV(fresh("a_task_id", I))
    for s, v in run_body(ip, th, st, P_B + "_task_name", {"task_id": tid}):
        ip.require(s, "_task_name:post:'<pool>_Task-<id>'", z3.BoolVal(False) if not isinstance(v, StrV) else v.t == sym.str_concat([pool_str(st.sh), "_Task-", StrV(sym.itos(tid.t))]).t, ("C11",))
    # distinct indices give distinct names to unnamed pools of a class (string axiom: str(int) injective, format injective in its last hole)
    a, b = fresh("idx_a", I), fresh("idx_b", I)
    c = StrV(fresh("cls", S))
    na, nb = sym.str_concat([c, "-", StrV(sym.itos(a))]), sym.str_concat([c, "-", StrV(sym.itos(b))])
    ip.require(st, "lemma:unnamed-pools-with-distinct-indices-have-distinct-names", z3.Implies(a != b, na.t != nb.t), ("C11",))
