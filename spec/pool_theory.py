"""Theory of the task pool: abstract state, ghost threads and tokens, the pool invariant `Inv`, the
transition guarantee, the observation-point protocol, and the *assumed* contracts of the asyncio
dependencies (Task, Semaphore, Lock, Event, gather, create_task) - DESIGN 3.x.

Everything in here is specification; no code of /repo is restated.  The real function bodies are read
from /repo by pyvc.front and executed symbolically by pyvc.interp.
"""
from __future__ import annotations

import ast
from typing import Dict, List, Tuple

import z3

from pyvc.interp import NORMAL, CollV, ExcV, Exit, Frame, SelfV, St
from pyvc.sym import (B, I, NONE, S, BoolV, BuiltinV, BytesV, ClassV, CoroV, DictV, EventV, ExtV, FuncV, IntL, IntV, KwV, LockV, NoneV,
                      ObjV, OptV, PlaceV, Ref, RefL, RefV, RegL, SemV, SeqV, SetL, SetV, StarV, StrL, StrV, TupleV, Unsupported, V, fresh,
                      truthy)
from pyvc.theory import ArrV, Iter, IterV, Theory, eq_value, havoc_like, same_value

# thread kinds
K_NONE, K_WRAPPER, K_APPLY, K_MAP, K_START, K_OTHER = 0, 1, 2, 3, 4, 5
# locations (program counters at observation points)
L_NS, L_BODY, L_CCB, L_ECB, L_RUN, L_DONE = 0, 1, 2, 3, 4, 9

A_RI = z3.ArraySort(Ref, I)
A_RB = z3.ArraySort(Ref, B)
A_RS = z3.ArraySort(Ref, S)
A_RR = z3.ArraySort(Ref, Ref)

GHOST_ARRAYS = {
    "kind": A_RI, "loc": A_RI, "creq": A_RB, "cever": A_RB, "tok": A_RB, "mtok": A_RB, "tid": A_RI, "grp": A_RS,
    "aw": A_RR, "ecb": A_RR, "ccb": A_RR, "tname": A_RS, "wt": z3.ArraySort(I, Ref), "msem": A_RR, "fcan": A_RB,
}

TRUSTED = [
    "asyncio.Task contract T1-T5 (create_task returns a fresh not-started task; cancel() requests; a not-started task with a pending request finishes cancelled without running; delivery at the current await; no spurious CancelledError): proved for the interpreter's reference implementation asyncio.tasks._PyTask / asyncio.futures._PyFuture by the units asyncio.tasks.Task and asyncio.futures.Future (which run with every pool check); ASSUMED: the C accelerator _asyncio.Task/Future that normally runs behaves like that reference implementation (bounded cross-check against the live interpreter: replay/assumed_contracts.py, thorough tier), coroutine send/throw semantics, the loop runs every call_soon handle exactly once",
    "asyncio.Semaphore / Lock / Event: NOT assumed any more - their transition systems (DESIGN A.1; Lock.acquire never suspends on a free lock nobody waits for; Event set/is_set/wait) are verified from the interpreter's own asyncio/locks.py by the units asyncio.locks.* (which run with every pool check); what remains assumed there is collections.deque and that the C accelerator of Future/Task behaves like the reference implementation verified by the units asyncio.futures.Future / asyncio.tasks.Task",
    "asyncio.gather: its contract (normal return => every distinct child done; without return_exceptions the exception raised is the own exception of a finished child or a CancelledError for a child that finished cancelled; with return_exceptions only a requested cancellation makes it raise) is the invariant G1-G3 of gather's done-callback, verified from the interpreter's own asyncio/tasks.py by unit asyncio.tasks.gather; assumed there: finite-set cardinality fact, ensure_future; that Future done-callbacks run exactly once after the future is done and that the awaiting task resumes with the outer future's result/exception is proved for the reference implementation by the units asyncio.futures.Future / asyncio.tasks.Task; the set-up loops are executed by unit asyncio.tasks.gather.setup",
    "cooperative atomicity: one event loop, one OS thread; control leaves a task only at an await that suspends or at a call-out to user code",
    "user code touches the pool only through its public API (U1), calling a coroutine function runs no user code (U3), user code raises only Exception subclasses or CancelledError (U7)",
    "U4: pool_size is not assigned while tasks are in flight (used by C01-C14; NOT assumed for C15)",
    "U5: the task awaiting flush()/gather_and_close() is not itself cancelled; unlock() is not called while gather_and_close() is in progress; U6: flush()/gather_and_close() are not awaited from a callback of one of the pool's own tasks",
    "U9: the argument iterator of a map call does not cancel its own group re-entrantly (excluded by the text of C07); U10: coroutines, coroutine functions and callables handed to the pool are truthy",
    "container ADT facts (dict/set cardinality, KeyError on missing key, duplicate-free iteration in insertion order, MutableSet.pop removes a member)",
    "value semantics for TaskGroupRegister / meta-task sets stored in pool dicts (no object is stored under two keys)",
    "counting-permission meta-theorem (number of token owners <= outstanding tokens)",
    "mathematical integers; pool size is an extended natural Fin(k)|Inf; non-integral or NaN sizes excluded",
    "tasks, coroutine objects, coroutine functions and callables are truthy (no exotic __bool__); None is falsy; any other opaque object may be either; logging is effect-free; PYTHON_BEFORE_39 is False",
]


class PView:
    """named access to the abstract view of a pool state"""

    def __init__(self, st_or_sh):
        sh = st_or_sh.sh if isinstance(st_or_sh, St) else st_or_sh
        self.sh = sh
        self.n = sh["_num_started"].t
        self.locked = sh["_locked"].t
        self.closed = sh["_closed"].is_set
        self.R: DictV = sh["_tasks_running"]
        self.C: DictV = sh["_tasks_cancelled"]
        self.E: DictV = sh["_tasks_ended"]
        self.sem: SemV = sh["_enough_room"]
        self.G: DictV = sh["_task_groups"]
        self.M: DictV = sh["_group_meta_tasks_running"]
        self.MC: SetV = sh["_meta_tasks_cancelled"]
        self.size: ExtV = sh["size"]
        self.forgotten = sh["forgotten"].t
        for k in GHOST_ARRAYS:
            setattr(self, k, sh[k].t)

    def Rv(self, i):
        return z3.Select(self.R.cols[0], i)

    def Cv(self, i):
        return z3.Select(self.C.cols[0], i)

    def Ev(self, i):
        return z3.Select(self.E.cols[0], i)

    def Gids(self, g, i):
        return z3.Select(z3.Select(self.G.cols[0], g), i)

    def Glock(self, g):
        return z3.Select(self.G.cols[2], g)

    def Mset(self, g, t):
        return z3.Select(z3.Select(self.M.cols[0], g), t)

    def is_spawner(self, t):
        k = z3.Select(self.kind, t)
        return z3.And(k >= K_APPLY, k <= K_START)


def symbolic_pool(cls: str, prefix: str = "p") -> Dict[str, V]:
    sh: Dict[str, V] = {}
    sh["_num_started"] = IntV(fresh(prefix + "_n", I))
    sh["_locked"] = BoolV(fresh(prefix + "_locked", B))
    sh["_closed"] = EventV(fresh(prefix + "_closed", B))
    sh["_name"] = OptV(fresh(prefix + "_name_none", B), StrV(fresh(prefix + "_name", S)))
    sh["_tasks_running"] = DictV.symbolic(prefix + "_R", I, RefL(), ordered=True)
    sh["_tasks_cancelled"] = DictV.symbolic(prefix + "_C", I, RefL())
    sh["_tasks_ended"] = DictV.symbolic(prefix + "_E", I, RefL())
    sem = SemV(ExtV(fresh(prefix + "_vinf", B), fresh(prefix + "_v", I)), fresh(prefix + "_g", I), fresh(prefix + "_P", I), fresh(prefix + "_out", I))
    sem.tokarr = "tok"
    sh["_enough_room"] = sem
    sh["_task_groups"] = DictV.symbolic(prefix + "_G", S, RegL())
    sh["_group_meta_tasks_running"] = DictV.symbolic(prefix + "_M", S, SetL(RefL()))
    sh["_meta_tasks_cancelled"] = SetV.symbolic(prefix + "_MC", RefL())
    sh["_idx"] = IntV(fresh(prefix + "_idx", I))
    sh["_pools"] = SeqV(fresh(prefix + "_npools", I), [fresh(prefix + "_pools", z3.ArraySort(I, Ref))], RefL(), mutable=True)
    sh["size"] = ExtV(fresh(prefix + "_szinf", B), fresh(prefix + "_sz", I))
    sh["forgotten"] = IntV(fresh(prefix + "_forgotten", I))
    sh["closing"] = BoolV(fresh(prefix + "_closing", B))  # ghost: gather_and_close has locked the pool and is waiting
    sh["closing2"] = BoolV(fresh(prefix + "_closing2", B))  # ghost: ... and its wait for the spawners is over
    sh["clsname"] = StrV(fresh("clsname", S))
    for k, srt in GHOST_ARRAYS.items():
        sh[k] = ArrV(fresh(prefix + "_" + k, srt))
    if cls == "SimpleTaskPool":
        for f in ("_func", "_args", "_kwargs", "_end_callback", "_cancel_callback"):
            sh[f] = RefV(fresh(prefix + f, Ref))
        sh["_start_calls"] = IntV(fresh(prefix + "_start_calls", I))
    return sh


# fields assigned only in __init__ (checked mechanically from the AST by unit `callgraph`): never havocked
def sym_truthy():
    from pyvc import sym

    return sym.TRUTHY


SHARED_IMMUTABLE = ("clsname", "_name", "_idx", "_func", "_args", "_kwargs", "_end_callback", "_cancel_callback")


def start_group_name(k):
    """'start-group-<k>' (documented pattern of SimpleTaskPool.start)"""
    from pyvc import sym

    return sym.str_concat(["start-group-", StrV(sym.itos(k))]).t


# ------------------------------------------------------------------------------------------------------
# The pool invariant (DESIGN 3.3).  Each clause: (name, formula, properties it serves)
# ------------------------------------------------------------------------------------------------------
def inv_clauses(sh, simple: bool = False) -> List[Tuple[str, z3.ExprRef, Tuple[str, ...]]]:
    p = PView(sh)
    i, i2 = z3.Int("i!q"), z3.Int("i2!q")
    t, u = z3.Const("t!q", Ref), z3.Const("u!q", Ref)
    g, h = z3.Const("g!q", S), z3.Const("h!q", S)
    kind, loc, tok, tid = p.kind, p.loc, p.tok, p.tid
    sel = z3.Select
    v = p.sem.v
    cl: List[Tuple[str, z3.ExprRef, Tuple[str, ...]]] = []
    cl.append(("I1.ranges", z3.And(p.n >= 0, p.sem.g >= 0, p.sem.P >= 0, p.sem.out >= 0, p.forgotten >= 0,
                                   z3.Or(v.inf, v.k >= 0), z3.Or(p.size.inf, p.size.k >= 0)), ("C01",)))
    cl.append(("I2.partition", z3.ForAll([i], z3.And(z3.Not(z3.And(p.R.has(i), p.C.has(i))), z3.Not(z3.And(p.R.has(i), p.E.has(i))),
                                                      z3.Not(z3.And(p.C.has(i), p.E.has(i))))), ("C03",)))
    cl.append(("I3.ids-bounded", z3.ForAll([i], z3.Implies(z3.Or(p.R.has(i), p.C.has(i), p.E.has(i)), z3.And(0 <= i, i < p.n))), ("C11", "C03")))
    cl.append(("I3g.group-ids-bounded", z3.ForAll([g, i], z3.Implies(z3.And(p.G.has(g), p.Gids(g, i)), z3.And(0 <= i, i < p.n))), ("C10", "C11")))
    cl.append(("I4.count", p.R.card + p.C.card + p.E.card + p.forgotten == p.n, ("C03",)))
    cl.append(("I5.capacity", z3.And(z3.Implies(z3.Not(p.size.inf), z3.And(z3.Not(v.inf), v.k + p.sem.g + p.sem.out == p.size.k)),
                                     z3.Implies(p.size.inf, z3.And(v.inf, p.sem.P == 0, p.sem.g == 0))), ("C01", "C15")))
    cl.append(("I6.tokens", p.sem.out == p.R.card + p.C.card, ("C02", "C01", "C15")))
    rt, ct, et = p.Rv(i), p.Cv(i), p.Ev(i)
    tr = sym_truthy()
    cl.append(("I6r.running", z3.ForAll([i], z3.Implies(p.R.has(i), z3.And(rt != NONE, sel(tr, rt), sel(kind, rt) == K_WRAPPER, sel(tid, rt) == i, sel(tok, rt),
                                                                         z3.Or(sel(loc, rt) == L_NS, sel(loc, rt) == L_BODY)))), ("C02", "C03")))
    cl.append(("I6c.cancelled", z3.ForAll([i], z3.Implies(p.C.has(i), z3.And(ct != NONE, sel(tr, ct), sel(kind, ct) == K_WRAPPER, sel(tid, ct) == i, sel(tok, ct),
                                                                           sel(loc, ct) == L_CCB))), ("C02", "C03")))
    cl.append(("I6e.ended", z3.ForAll([i], z3.Implies(p.E.has(i), z3.And(et != NONE, sel(tr, et), sel(kind, et) == K_WRAPPER, sel(tid, et) == i, z3.Not(sel(tok, et)),
                                                                       z3.Or(sel(loc, et) == L_ECB, sel(loc, et) == L_DONE)))), ("C02", "C03")))
    lt, it_ = sel(loc, t), sel(tid, t)
    cl.append(("I6w.wrapper-location", z3.ForAll([t], z3.Implies(sel(kind, t) == K_WRAPPER, z3.And(
        0 <= it_, it_ < p.n,
        z3.Or(lt == L_NS, lt == L_BODY, lt == L_CCB, lt == L_ECB, lt == L_DONE),
        z3.Implies(z3.Or(lt == L_NS, lt == L_BODY), z3.And(p.R.has(it_), p.Rv(it_) == t)),
        z3.Implies(lt == L_CCB, z3.And(p.C.has(it_), p.Cv(it_) == t)),
        z3.Implies(lt == L_ECB, z3.And(p.E.has(it_), p.Ev(it_) == t)),
        z3.Implies(z3.Or(lt == L_ECB, lt == L_DONE), z3.Not(sel(tok, t))),
        z3.Implies(lt == L_DONE, z3.And(z3.Not(p.R.has(it_)), z3.Not(p.C.has(it_)))),
    ))), ("C02", "C13", "C03")))
    cl.append(("I15.wrapper-ids-distinct", z3.ForAll([t, u], z3.Implies(z3.And(sel(kind, t) == K_WRAPPER, sel(kind, u) == K_WRAPPER, sel(tid, t) == sel(tid, u)), t == u)), ("C11",)))
    cl.append(("I15w.wrapper-of-id", z3.ForAll([i], z3.Implies(z3.And(0 <= i, i < p.n), z3.And(sel(kind, sel(p.wt, i)) == K_WRAPPER, sel(tid, sel(p.wt, i)) == i))), ("C11",)))
    cl.append(("I16.no-cancel-in-callbacks", z3.ForAll([t], z3.Implies(z3.And(sel(kind, t) == K_WRAPPER, z3.Or(lt == L_CCB, lt == L_ECB, lt == L_DONE)), z3.Not(sel(p.creq, t)))), ("C06", "C08", "C12")))
    cl.append(("I17.spawners-hold-no-token", z3.ForAll([t], z3.Implies(p.is_spawner(t), z3.Not(sel(tok, t)))), ("C02",)))
    cl.append(("I7.order", z3.ForAll([i, i2], z3.Implies(z3.And(p.R.has(i), p.R.has(i2), i < i2), sel(p.R.stamp, i) < sel(p.R.stamp, i2))), ("C14",)))
    cl.append(("I8.group-locks-free", z3.ForAll([g], z3.Implies(p.G.has(g), z3.Not(p.Glock(g)))), ("C10",)))
    cl.append(("I8d.groups-disjoint", z3.ForAll([g, h, i], z3.Implies(z3.And(p.G.has(g), p.G.has(h), g != h), z3.Not(z3.And(p.Gids(g, i), p.Gids(h, i))))), ("C10",)))
    cl.append(("I9.cover", z3.ForAll([i], z3.Implies(z3.And(p.R.has(i), z3.Not(sel(p.cever, rt))), z3.And(p.G.has(sel(p.grp, rt)), p.Gids(sel(p.grp, rt), i)))), ("C07", "C10")))
    cl.append(("I9b.group-members-belong", z3.ForAll([g, i], z3.Implies(z3.And(p.G.has(g), p.Gids(g, i)), sel(p.grp, sel(p.wt, i)) == g)), ("C10",)))
    cl.append(("I10.live-spawners-registered", z3.ForAll([t], z3.Implies(z3.And(p.is_spawner(t), lt != L_DONE, z3.Not(sel(p.creq, t))),
                                                                         z3.And(p.M.has(sel(p.grp, t)), p.Mset(sel(p.grp, t), t)))), ("C07", "C08")))
    cl.append(("I10b.meta-sets-hold-spawners", z3.ForAll([g, t], z3.Implies(z3.And(p.M.has(g), p.Mset(g, t)), z3.And(t != NONE, p.is_spawner(t), sel(p.grp, t) == g))), ("C07",)))
    cl.append(("I10c.cancelled-metas-are-spawners", z3.ForAll([t], z3.Implies(p.MC.has(t), z3.And(t != NONE, p.is_spawner(t)))), ("C07",)))
    cl.append(("I11.closed-means-no-live-spawner", z3.Implies(p.closed, z3.ForAll([t], z3.Implies(p.is_spawner(t), z3.Or(lt == L_DONE, sel(p.creq, t))))), ("C08",)))
    cl.append(("I19.wrappers-never-finish-cancelled", z3.ForAll([t], z3.Implies(sel(kind, t) == K_WRAPPER, z3.Not(sel(p.fcan, t)))), ("C08", "C12")))
    closing, closing2 = sh["closing"].t, sh["closing2"].t
    cl.append(("I20.closing-means-locked", z3.And(z3.Implies(closing, p.locked), z3.Implies(closing2, closing)), ("C08",)))
    cl.append(("I21.closing-after-spawners-done", z3.Implies(closing2, z3.ForAll([t], z3.Implies(p.is_spawner(t), z3.Or(lt == L_DONE, sel(p.creq, t))))), ("C08",)))
    cl.append(("I12.waiters-only-when-full", z3.Implies(p.sem.P > 0, z3.Or(v.eq_int(0), p.sem.g > 0)), ("C01",)))
    if simple:
        sc = sh["_start_calls"].t
        k = z3.Int("k!q")
        cl.append(("I13.start-group-names", z3.And(sc >= 0, z3.ForAll([g], z3.Implies(z3.Or(p.G.has(g), p.M.has(g)), z3.Exists([k], z3.And(0 <= k, k < sc, g == start_group_name(k)))))), ("C10",)))
        cl.append(("I13b.spawner-group-names", z3.ForAll([t], z3.Implies(z3.And(p.is_spawner(t), lt != L_DONE), z3.Exists([k], z3.And(0 <= k, k < sc, sel(p.grp, t) == start_group_name(k))))), ("C10",)))
    return cl


def guar_clauses(old, new, me) -> List[Tuple[str, z3.ExprRef, Tuple[str, ...]]]:
    """transition guarantee of every atomic segment (and, being transitive, the rely of every thread)"""
    o, n = PView(old), PView(new)
    i = z3.Int("i!q")
    t = z3.Const("t!q", Ref)
    sel = z3.Select
    cl = []
    cl.append(("G1.ids-never-reused", n.n >= o.n, ("C11",)))
    cl.append(("G2.closed-is-final", z3.Implies(o.closed, n.closed), ("C08",)))
    cl.append(("G3.forgotten-monotone", n.forgotten >= o.forgotten, ("C03",)))
    cl.append(("G4.thread-ghost-immutable", z3.ForAll([t], z3.Implies(sel(o.kind, t) != K_NONE, z3.And(
        sel(n.kind, t) == sel(o.kind, t), sel(n.tid, t) == sel(o.tid, t), sel(n.grp, t) == sel(o.grp, t), sel(n.aw, t) == sel(o.aw, t),
        sel(n.ecb, t) == sel(o.ecb, t), sel(n.ccb, t) == sel(o.ccb, t), sel(n.tname, t) == sel(o.tname, t),
        z3.Implies(sel(o.kind, t) == K_WRAPPER, sel(n.msem, t) == sel(o.msem, t)),
        z3.Implies(sel(o.cever, t), sel(n.cever, t)), z3.Implies(sel(o.loc, t) == L_DONE, z3.And(sel(n.loc, t) == L_DONE, sel(n.fcan, t) == sel(o.fcan, t)))))), ("C03", "C11")))
    cl.append(("G4w.wrapper-of-id-stable", z3.ForAll([i], z3.Implies(z3.And(0 <= i, i < o.n), sel(n.wt, i) == sel(o.wt, i))), ("C11",)))
    cl.append(("G5.lifecycle-moves", z3.ForAll([i], z3.And(
        z3.Implies(n.R.has(i), z3.Or(o.R.has(i), i >= o.n)),
        z3.Implies(n.C.has(i), z3.Or(o.C.has(i), o.R.has(i), i >= o.n)),
        z3.Implies(n.E.has(i), z3.Or(o.E.has(i), o.C.has(i), o.R.has(i), i >= o.n)))), ("C03",)))
    cl.append(("G6.other-threads-untouched", z3.ForAll([t], z3.Implies(z3.And(t != me, sel(o.kind, t) != K_NONE), z3.And(
        sel(n.loc, t) == sel(o.loc, t), sel(n.tok, t) == sel(o.tok, t), sel(n.mtok, t) == sel(o.mtok, t)))), ("C02",)))
    cl.append(("G7.size-fixed", n.size.same(o.size), ("C01",)))
    cl.append(("G9.spawner-requests-stick", z3.ForAll([t], z3.Implies(z3.And(o.is_spawner(t), sel(o.creq, t)), sel(n.creq, t))), ("C07",)))
    cl.append(("G10.no-new-task-once-spawners-are-done", z3.Implies(old["closing2"].t, z3.ForAll([t], z3.Implies(sel(o.kind, t) == K_NONE, sel(n.kind, t) != K_WRAPPER))), ("C08",)))
    j = z3.Int("j!q")
    op_, np_ = old["_pools"], new["_pools"]
    cl.append(("G11.pool-list-is-append-only", z3.And(np_.n >= op_.n, z3.ForAll([j], z3.Implies(z3.And(0 <= j, j < op_.n), z3.Select(np_.arrs[0], j) == z3.Select(op_.arrs[0], j)))), ("C11",)))
    cl.append(("G8.no-new-spawner-while-closing", z3.Implies(old["closing"].t, z3.ForAll([t], z3.Implies(sel(o.kind, t) == K_NONE, z3.Not(n.is_spawner(t))))), ("C08",)))
    return cl


def rely_me(old, new, me) -> List[z3.ExprRef]:
    o, n = PView(old), PView(new)
    sel = z3.Select
    fs = [sel(n.loc, me) == sel(o.loc, me), sel(n.tok, me) == sel(o.tok, me), sel(n.mtok, me) == sel(o.mtok, me), sel(n.kind, me) == sel(o.kind, me),
          sel(n.msem, me) == sel(o.msem, me)]
    return fs


# ------------------------------------------------------------------------------------------------------
class PoolTheory(Theory):
    """meaning of opaque objects and of observation points for code of the pool classes"""

    # functions in which a call of an opaque object is a *coroutine-function call* (assumption U3:
    # creates a coroutine, runs no user code, may raise Exception) rather than a call-out
    CORO_CTOR_FRAMES = ("pool.TaskPool._apply_spawner", "pool.SimpleTaskPool._start_num", "helpers.star_function")

    def __init__(self, cls: str = "TaskPool"):
        self.cls = cls
        self.simple = cls == "SimpleTaskPool"
        self.obs_count = 0
        self.assume_U4 = True
        self.extra_inv = None  # callable(sh) -> clauses, for unit-local shared objects (map semaphore)
        self.allow_self_cancel = False  # U5

    # --- state -------------------------------------------------------------------------------------------
    def initial(self, me_kind=None, assume_inv=True) -> St:
        st = St()
        st.sh = symbolic_pool(self.cls)
        st.me = fresh("me", Ref)
        st.assume(st.me != NONE)
        p = PView(st)
        st.assume(z3.Select(p.kind, st.me) != K_NONE)
        if me_kind is not None:
            st.assume(z3.Select(p.kind, st.me) == me_kind)
        self.container_facts(st)
        st.aux["string_axioms_at"] = len(st.pc)
        if assume_inv:
            for _n, f, _p in self.inv(st.sh):
                st.assume(f)
            self.instantiate_for_me(st)
        st.aux["seg0"] = dict(st.sh)
        st.aux["seg0_inv"] = assume_inv
        return st

    _schema = {}

    def _pairs(self, schema_sh, sh):
        from pyvc.theory import terms_of

        pairs = []
        for k, sv in schema_sh.items():
            a, b = terms_of(sv), terms_of(sh[k])
            if len(a) != len(b):
                raise Unsupported(f"state component {k} changed shape")
            pairs.extend(zip(a, b))
        return pairs

    def inv(self, sh):
        """Inv instantiated for the state `sh` (built once over placeholder constants, then substituted)"""
        key = ("inv", self.cls)
        if key not in PoolTheory._schema:
            ssh = symbolic_pool(self.cls, "SCH")
            PoolTheory._schema[key] = (ssh, inv_clauses(ssh, self.simple))
        ssh, cls_ = PoolTheory._schema[key]
        pairs = self._pairs(ssh, sh)
        cl = self._subst_all(cls_, pairs)
        if self.extra_inv is not None:
            cl = cl + self.extra_inv(sh)
        return cl

    def guar(self, old, new, me):
        key = ("guar", self.cls)
        if key not in PoolTheory._schema:
            so, sn, sme = symbolic_pool(self.cls, "SCHo"), symbolic_pool(self.cls, "SCHn"), z3.Const("SCHme", Ref)
            PoolTheory._schema[key] = (so, sn, sme, guar_clauses(so, sn, sme))
        so, sn, sme, cls_ = PoolTheory._schema[key]
        pairs = self._pairs(so, old) + self._pairs(sn, new) + [(sme, me)]
        return self._subst_all(cls_, pairs)

    @staticmethod
    def _subst_all(cls_, pairs):
        """one substitution for all clauses (packed under an uninterpreted symbol so the structure is kept)"""
        pack = z3.Function(f"pack{len(cls_)}", *([B] * len(cls_) + [B]))
        packed = z3.substitute(pack(*[f for _n, f, _p in cls_]), *pairs)
        return [(n, packed.arg(k), p) for k, (n, _f, p) in enumerate(cls_)]

    private_keys = ()  # ghost owned by the thread under verification (never havocked by interference)

    def shared_keys(self, st: St):
        return [k for k in st.sh if k not in SHARED_IMMUTABLE and k not in self.private_keys]

    loops_need_inv = False  # set by thread units whose loops contain observation points

    def loop_head_check(self, st: St, label: str) -> None:
        if self.loops_need_inv:
            self.check_point(st, "loophead:" + label)

    def after_loop_havoc(self, s: St, st0: St, mod_shared) -> None:
        """the loop head of a thread loop is reached only in states where Inv was just checked"""
        if not self.loops_need_inv or not mod_shared:
            return
        for _n, f, _p in self.inv(s.sh):
            s.assume(f)
        for _n, f, _p in self.guar(st0.sh, s.sh, fresh("other", Ref)):
            if _n.startswith("G6"):
                continue
            s.assume(f)
        for f in rely_me(st0.sh, s.sh, s.me):
            s.assume(f)
        s.assume(z3.Implies(z3.Not(self.ghost(st0, "creq", s.me)), z3.BoolVal(True)))
        self.instantiate_for_me(s)
        s.aux["seg0"] = dict(s.sh)
        s.aux["seg0_inv"] = True

    # --- observation points ------------------------------------------------------------------------------
    def check_point(self, st: St, label: str) -> None:
        """Inv and the transition guarantee must hold here (end of an atomic segment).  A clause whose
        formula is syntactically the one assumed at the start of the segment is skipped (nothing it
        mentions was written)."""
        ip = self.ip
        seg0 = st.aux["seg0"]
        if not st.aux.get("seg0_inv", True):
            old = {}
        else:
            if st.aux.get("seg0_clauses_for") is not seg0:
                st.aux["seg0_clauses"] = {n: f for n, f, _ in self.inv(seg0)}
                st.aux["seg0_clauses_for"] = seg0
            old = st.aux["seg0_clauses"]
        for name, f, props in self.inv(st.sh):
            if name in old and z3.eq(old[name], f):
                st.aux["skipped"] = st.aux.get("skipped", 0) + 1
                continue
            ip.require(st, f"inv:{name}@{label}", f, props)
        for name, f, props in self.guar(seg0, st.sh, st.me):
            if z3.is_true(z3.simplify(f)):
                continue
            ip.require(st, f"guar:{name}@{label}", f, props)

    def instantiate_for_me(self, st: St) -> None:
        """plain instances of the single-variable clauses at `me` / `tid[me]` (helps sound path pruning)"""
        me = st.me
        tid_me = self.ghost(st, "tid", me)
        for _n, f, _p in self.inv(st.sh):
            if z3.is_quantifier(f) and f.is_forall() and f.num_vars() == 1:
                srt = f.var_sort(0)
                if srt == Ref:
                    st.assume(z3.substitute_vars(f.body(), me))
                elif srt == I:
                    st.assume(z3.substitute_vars(f.body(), tid_me))

    def interfere(self, st: St, label: str) -> None:
        """other threads (and user code) run: havoc everything shared, keep Inv, the rely and my own ghost"""
        self.obs_count += 1
        old = dict(st.sh)
        self.havoc_shared(st, self.shared_keys(st), f"o{self.obs_count}")
        for name in st.aux.get("shared_locals", ()):
            if name in st.loc:
                st.loc[name] = havoc_like(st.loc[name], f"o{self.obs_count}_{name}")
        self.container_facts(st)
        for _n, f, _p in self.inv(st.sh):
            st.assume(f)
        for _n, f, _p in self.guar(old, st.sh, fresh("other", Ref)):
            if _n.startswith("G6"):
                continue
            st.assume(f)
        for f in rely_me(old, st.sh, st.me):
            st.assume(f)
        self.instantiate_for_me(st)
        st.aux["seg0"] = dict(st.sh)
        st.aux["seg0_inv"] = True
        st.trace.append(("obs", label))

    before_observe = None  # unit hook (st, label): ghost updates at the end of a segment
    segment_frame = ()  # components no segment of the unit under verification may write

    def observe(self, st: St, label: str, newloc=None) -> None:
        if newloc is not None:
            self.set_ghost(st, "loc", st.me, z3.IntVal(newloc))
        if self.before_observe is not None:
            self.before_observe(st, label)
        for k in self.segment_frame:
            if not same_value(st.aux["seg0"][k], st.sh[k]):
                self.ip.require(st, f"frame:segment-does-not-write:{k}@{label}", eq_value(st.aux["seg0"][k], st.sh[k]), None)
        self.check_point(st, label)
        self.interfere(st, label)

    def set_ghost(self, st: St, arr: str, idx, val) -> None:
        st.sh[arr] = ArrV(z3.Store(st.sh[arr].t, idx, val))

    def ghost(self, st: St, arr: str, idx):
        return z3.Select(st.sh[arr].t, idx)

    # --- attribute / value hooks -------------------------------------------------------------------------
    def class_name(self, st, c: ClassV):
        if c.name == self.cls and "clsname" in st.sh:
            return st.sh["clsname"]
        return StrV(c.name)

    def value_attr(self, st, fr, v, attr):
        if isinstance(v, RefV):
            if attr == "__name__":
                return [(st, StrV(z3.Select(self.fname_arr(), v.t)))]
            return [(st, BuiltinV(attr, recv=v))]
        if isinstance(v, CoroV) and attr == "close":
            return [(st, BuiltinV("coro_close", recv=v))]
        if isinstance(v, ClassV) and attr == "_pools":
            return [(st, PlaceV(("sh", "_pools")))]
        if isinstance(v, ExcV) and attr == "__class__":
            return [(st, ClassV(v.cls))]
        if isinstance(v, SeqV) and attr == "append":
            return [(st, BuiltinV("append", recv=v))]
        return super().value_attr(st, fr, v, attr)

    _fname = None

    def fname_arr(self):
        if PoolTheory._fname is None:
            PoolTheory._fname = z3.Const("fname", A_RS)
        return PoolTheory._fname

    def self_attr(self, st, fr, v, attr):
        if attr == "_pools":
            return [(st, PlaceV(("sh", "_pools")))]
        return super().self_attr(st, fr, v, attr)

    def getattr_class(self, st, fr, v, attr):
        return None

    def to_str(self, st, fr, v):
        if isinstance(v, RefV):
            return [(st, StrV(z3.Select(z3.Const("objstr", A_RS), v.t)))]
        return super().to_str(st, fr, v)

    def equal(self, st, a, b, identity):
        if isinstance(a, SelfV) and isinstance(b, SelfV):
            return z3.BoolVal(True)
        return super().equal(st, a, b, identity)

    def sem_set_value(self, st, fr, place, sem: SemV, v):
        """direct write of Semaphore._value (pool_size setter): only the counter changes"""
        if isinstance(v, IntV):
            nv = ExtV(False, v.t)
        elif isinstance(v, ExtV):
            nv = v
        else:
            raise Unsupported("Semaphore._value := non-number")
        # the representation invariant of asyncio.Semaphore (unit asyncio.locks.Semaphore assumes it): the counter is never
        # negative - `locked()` only tests `_value == 0`, so a negative counter would admit every acquirer
        self.ip.require(st, "pre:Semaphore._value:=:the-counter-is-never-negative", z3.Or(nv.inf, nv.k >= 0), ("C15", "C01"))
        n = SemV(nv, sem.g, sem.P, sem.out, sem.ident)
        n.tokarr = sem.tokarr
        self.ip.place_set(st, place, n)
        return [(st, NORMAL)]

    def ev_dict_display(self, st, fr, e):
        """{**a, **b}: a fresh dict, the union of two dicts of the same shape (later entries win)"""
        ip = self.ip
        if not all(k is None for k in e.keys) or len(e.values) != 2:
            raise Unsupported("dict display other than {**a, **b}")
        out = []
        for s, vs in ip.ev_seq(st, fr, e.values):
            if isinstance(vs, Exit):
                out.append((s, vs))
                continue
            a, b = (ip.deref(s, v) for v in vs)
            if not (isinstance(a, DictV) and isinstance(b, DictV) and a.ksort == b.ksort and len(a.cols) == len(b.cols)):
                raise Unsupported("{**a, **b} over different shapes")
            u = DictV.symbolic("merged", a.ksort, a.layout)
            k = z3.Const("k!m", a.ksort)
            s.assume(z3.ForAll([k], z3.Select(u.mem, k) == z3.Or(a.has(k), b.has(k))))
            for cu, ca, cb in zip(u.cols, a.cols, b.cols):
                s.assume(z3.ForAll([k], z3.Select(cu, k) == z3.If(b.has(k), z3.Select(cb, k), z3.Select(ca, k))))
            s.assume(z3.And(u.card >= a.card, u.card >= b.card, u.card <= a.card + b.card))
            for f in u.qfacts():
                s.assume(f)
            out.append((s, u))
        return out

    # --- constructors ---------------------------------------------------------------------------------------
    def construct(self, st, fr, c: ClassV, pos, kws, node):
        if c.name in ("TaskPool", "SimpleTaskPool", "BaseTaskPool"):
            raise Unsupported("pool construction inside pool code")
        return super().construct(st, fr, c, pos, kws, node)

    # --- builtins ---------------------------------------------------------------------------------------------
    def call_builtin(self, st, fr, f: BuiltinV, pos, kws, rest_kw, node):
        ip = self.ip
        name = f.name
        if f.recv is not None:
            return self.call_method(st, fr, f.recv, name, pos, kws, rest_kw, node)
        pos_d = [ip.deref(st, x) if not isinstance(x, StarV) else x for x in pos]
        if name == "len":
            v = pos_d[0]
            if isinstance(v, (DictV, SetV)):
                return [(st, IntV(v.card))]
            if isinstance(v, SeqV):
                return [(st, IntV(v.n))]
            if isinstance(v, TupleV):
                return [(st, IntV(len(v.items)))]
            if isinstance(v, StrV):
                n = fresh("strlen", I)
                st.assume(n >= 0)
                return [(st, IntV(n))]
            if isinstance(v, ObjV):
                fi = ip.repo.find_method(v.cls, "__len__")
                return ip.call_repo(st, fr, fi, pos[0], [], {})
            raise Unsupported("len() of " + type(v).__name__)
        if name == "str":
            return ip.to_str(st, fr, pos[0])
        if name == "repr":
            return [(st, StrV(fresh("repr", S)))]
        if name == "set":
            if not pos:
                return [(st, SetV.empty(self.guess_set_layout(fr, node)))]
            raise Unsupported("set(iterable)")
        if name == "iter":
            v = pos_d[0]
            if isinstance(v, (SetV, DictV)):
                return [(st, IterV(self.key_iter(v, reverse=False)))]
            raise Unsupported("iter() of " + type(v).__name__)
        if name == "reversed":
            v = pos_d[0]
            if isinstance(v, DictV):
                return [(st, IterV(self.key_iter(v, reverse=True)))]
            raise Unsupported("reversed() of " + type(v).__name__)
        if name in ("max", "min") and len(pos_d) == 2 and all(isinstance(x, IntV) for x in pos_d):
            a_, b_ = pos_d[0].t, pos_d[1].t
            return [(st, IntV(z3.If(a_ >= b_, a_, b_) if name == "max" else z3.If(a_ <= b_, a_, b_)))]
        if name == "list":
            if not pos:
                return self.empty_list(st, fr, getattr(fr, "hint", None))
            it = self.iter_of(st, fr, pos[0], node)
            if it is None or not hasattr(it, "seq") or it.desc != "keys":
                raise Unsupported("list() of " + type(pos_d[0]).__name__)
            for f_ in it.facts:
                st.assume(f_)
            rng = it.seq.sort().range()
            lay = IntL() if rng == I else (StrL() if rng == S else RefL())
            return [(st, SeqV(it.count, [it.seq], lay, mutable=True))]
        if name == "next":
            it = pos_d[0].it if isinstance(pos_d[0], IterV) else None
            if it is None:
                raise Unsupported("next() of " + type(pos_d[0]).__name__)
            out = []
            for f_ in it.facts:
                st.assume(f_)
            for s, b in ip.branch(st, it.count > 0, "next"):
                if b:
                    out.append((s, it.item(z3.IntVal(0))))
                elif len(pos) > 1:
                    out.append((s, pos[1]))
                else:
                    out.append((s, Exit(Exit.RAISE, ExcV("StopIteration", []))))
            return out
        if name == "enumerate":
            it = self.iter_of(st, fr, pos[0], node)
            if it is None:
                if isinstance(pos_d[0], RefV):
                    return [(st, UserIterV(pos_d[0], enumerate_=True))]
                raise Unsupported("enumerate() of " + type(pos_d[0]).__name__)
            inner = it.item
            it2 = Iter(it.count, lambda i: TupleV([IntV(i), inner(i)]), it.facts, "enumerate")
            if hasattr(it, "seq"):
                it2.seq = it.seq
            return [(st, IterV(it2))]
        if name == "range":
            if len(pos_d) != 1 or not isinstance(pos_d[0], IntV):
                raise Unsupported("range() form")
            n = pos_d[0].t
            cnt = z3.If(n > 0, n, 0)
            return [(st, IterV(Iter(cnt, lambda i: IntV(i), [], "range")))]
        if name == "callable":
            v = pos_d[0]
            if isinstance(v, RefV):
                return [(st, BoolV(z3.And(v.t != NONE, z3.Select(z3.Const("is_callable", A_RB), v.t))))]
            if isinstance(v, NoneV):
                return [(st, BoolV(False))]
            if isinstance(v, FuncV):
                return [(st, BoolV(True))]
            raise Unsupported("callable() of " + type(v).__name__)
        if name in ("iscoroutine", "iscoroutinefunction"):
            v = pos_d[0]
            arr = z3.Const("is_coro" if name == "iscoroutine" else "is_corofunc", A_RB)
            if isinstance(v, RefV):
                return [(st, BoolV(z3.And(v.t != NONE, z3.Select(arr, v.t))))]
            if isinstance(v, NoneV):
                return [(st, BoolV(False))]
            if isinstance(v, FuncV):
                isa = isinstance(v.node, ast.AsyncFunctionDef) or (v.finfo is not None and v.finfo.is_async)
                return [(st, BoolV(bool(isa) if name == "iscoroutinefunction" else False))]
            if isinstance(v, CoroV):
                return [(st, BoolV(name == "iscoroutine"))]
            raise Unsupported(name + " of " + type(v).__name__)
        if name == "cast":
            return [(st, pos[1])]
        if name == "isinstance":
            v, c = pos_d
            if isinstance(v, RefV) and isinstance(c, ClassV) and c.name == "Exception":
                return [(st, BoolV(z3.And(v.t != NONE, z3.Select(z3.Const("is_exception_object", A_RB), v.t))))]
            if isinstance(v, RefV) and isinstance(c, ClassV) and c.name == "BaseException":
                # an Exception instance, or the CancelledError a cancelled child left as its result
                return [(st, BoolV(z3.And(v.t != NONE, z3.Or(z3.Select(z3.Const("is_exception_object", A_RB), v.t), z3.Select(z3.Const("is_cancellation_object", A_RB), v.t)))))]
            raise Unsupported("isinstance form")
        if name == "create_task":
            coro = kws.get("coro", pos[0] if pos else None)
            nm = kws.get("name")
            return self.create_task(st, fr, coro, nm)
        if name == "gather":
            re = kws.get("return_exceptions", BoolV(False))
            return [(st, CoroV("builtin", "gather", {"colls": pos, "re": re}))]
        if name == "Semaphore":
            return self.new_semaphore(st, fr, pos_d)
        if name == "Event":
            return [(st, EventV(False))]
        if name == "inf":
            return [(st, ExtV(True, 0))]
        raise Unsupported(f"builtin {name}()")

    def lookup_builtin_value(self, name):
        return None

    set_layouts = None  # unit hint: local variable name -> element layout of `set()` literals

    def guess_set_layout(self, fr, node):
        if fr.qual.endswith(".get_group_ids"):
            return IntL()
        return RefL()

    def new_semaphore(self, st, fr, pos):
        """Semaphore(value=1): counter = value, no waiters, no outstanding tokens"""
        if not pos:
            v = ExtV(False, 1)
        elif isinstance(pos[0], IntV):
            v = ExtV(False, pos[0].t)
        elif isinstance(pos[0], ExtV):
            v = pos[0]
        else:
            raise Unsupported("Semaphore(<non-number>)")
        out = []
        for s, neg in self.ip.branch(st, v.lt_int(0), "sem-negative"):
            if neg:
                out.append((s, Exit(Exit.RAISE, ExcV("ValueError", []))))
                continue
            sem = SemV(v, z3.IntVal(0), z3.IntVal(0), z3.IntVal(0), fresh("semobj", Ref))
            sem.tokarr = "tok" if fr.qual.endswith(".__init__") else "mtok"
            out.append((s, sem))
        return out

    # --- methods on container / opaque values -----------------------------------------------------------
    def call_method(self, st, fr, recv: V, name: str, pos, kws, rest_kw, node):
        ip = self.ip
        val = ip.deref(st, recv)
        place = recv if isinstance(recv, PlaceV) else None
        pos = [ip.deref(st, x) if isinstance(x, PlaceV) and not isinstance(ip.place_get(st, x), (ObjV, SetV, DictV)) else x for x in pos]
        if isinstance(val, DictV):
            return self.dict_method(st, fr, place, val, name, pos, kws, node)
        if isinstance(val, SetV):
            return self.set_method(st, fr, place, val, name, pos, kws, node)
        if isinstance(val, SeqV) and name == "remove":
            # list.remove(x): removes the first occurrence (ValueError if absent); the rest of the list shifts
            if place is None:
                raise Unsupported("remove on a detached list")
            out = []
            present = fresh("present", B)
            for s2, b in ip.branch(st, present, "list-remove"):
                if b:
                    ip.place_set(s2, place, SeqV(val.n - 1, [fresh("shifted", a.sort()) for a in val.arrs], val.layout, val.mutable))
                    s2.assume(val.n >= 1)
                    out.append((s2, NoneV()))
                else:
                    out.append((s2, Exit(Exit.RAISE, ExcV("ValueError", []))))
            return out
        if isinstance(val, SeqV) and name == "reverse" and not pos:
            # list.reverse(): in place, element j becomes the old element n-1-j
            if place is None:
                raise Unsupported("reverse on a detached list")
            new = [fresh("reversed", a.sort()) for a in val.arrs]
            j = z3.Int("j!rev")
            for a_old, a_new in zip(val.arrs, new):
                st.assume(z3.ForAll([j], z3.Implies(z3.And(0 <= j, j < val.n), z3.Select(a_new, j) == z3.Select(a_old, val.n - 1 - j))))
            ip.place_set(st, place, SeqV(val.n, new, val.layout, val.mutable))
            st.aux["nonfragment"] = "list.reverse()"
            return [(st, NoneV())]
        if isinstance(val, SeqV) and name == "append":
            if place is None:
                raise Unsupported("append on a detached list")
            hook = getattr(self, "on_append", None)
            if hook is not None:
                hook(st, fr, place, val, pos[0])
            ip.place_set(st, place, val.append(self.pack_self(st, pos[0])))
            return [(st, NoneV())]
        if isinstance(val, EventV):
            if name == "is_set":
                return [(st, BoolV(val.is_set))]
            if name == "set":
                ip.place_set(st, place, EventV(True))
                return [(st, NoneV())]
            if name == "wait":
                return [(st, CoroV("builtin", "event_wait", {"place": place}))]
        if isinstance(val, SemV):
            if name == "locked":
                return [(st, BoolV(val.locked()))]
            if name == "release":
                return self.sem_release(st, fr, place, val)
            if name == "acquire":
                return [(st, CoroV("builtin", "sem_acquire", {"place": place}))]
            if name == "_wake_up_next":
                # asyncio.Semaphore._wake_up_next (3.12): grants to the first pending waiter - without looking at the counter
                ip.place_set(st, place, self.sem_wake_next(val))
                return [(st, NoneV())]
        if isinstance(val, LockV):
            if name == "acquire":
                return [(st, CoroV("builtin", "lock_acquire", {"place": place}))]
            if name == "release":
                ip.require(st, "pre:Lock.release:held", val.locked, ("C10",))
                ip.place_set(st, place, LockV(False))
                return [(st, NoneV())]
        if isinstance(val, ObjV) and val.cls == "TaskGroupRegister" and name == "pop":
            # MutableSet.pop (stdlib mixin): removes and returns an arbitrary member via __iter__/discard;
            # KeyError when empty.  The real __iter__/discard/__len__ are checked separately (unit group_register).
            ids: SetV = val.fields["_ids"]
            out = []
            for s, b in ip.branch(st, ids.card > 0, "regpop"):
                if b:
                    x = fresh("popped", I)
                    s.assume(ids.has(x))
                    ip.place_set(s, place, val.with_field("_ids", ids.discard(x)))
                    out.append((s, IntV(x)))
                else:
                    s.assume(ids.card == 0)
                    out.append((s, Exit(Exit.RAISE, ExcV("KeyError", []))))
            return out
        if isinstance(val, RefV):
            return self.ref_method(st, fr, val, name, pos, kws, node)
        if isinstance(val, CoroV) and name == "coro_close":
            st.trace.append(("close", val))
            return [(st, NoneV())]
        raise Unsupported(f"method .{name}() on {type(val).__name__}")

    def pack_self(self, st, v):
        if isinstance(v, SelfV):
            return RefV(z3.Const("SELF", Ref))
        return v

    def dict_method(self, st, fr, place, d: DictV, name, pos, kws, node):
        ip = self.ip
        if name == "pop":
            k = ip.key_term(d, pos[0])
            out = []
            for s, b in ip.branch(st, d.has(k), "pop"):
                if b:
                    val = d.get(k)
                    self.note_forgotten(s, fr, place, z3.IntVal(1))
                    ip.place_set(s, place, ip.place_get(s, place).remove(k))
                    out.append((s, val))
                elif len(pos) > 1:
                    out.append((s, pos[1]))
                else:
                    out.append((s, Exit(Exit.RAISE, ExcV("KeyError", [pos[0]]))))
            return out
        if name == "get":
            k = ip.key_term(d, pos[0])
            out = []
            for s, b in ip.branch(st, d.has(k), "get"):
                out.append((s, d.get(k) if b else (pos[1] if len(pos) > 1 else NoneV())))
            return out
        if name == "setdefault":
            k = ip.key_term(d, pos[0])
            out = []
            for s, b in ip.branch(st, d.has(k), "setdefault"):
                if not b:
                    ip.place_set(s, place, ip.place_get(s, place).store(k, ip.deref_for_store(s, pos[1])))
                val = ip.place_get(s, place).get(k)
                out.append((s, place.sub(("key", k)) if ip.is_mutable(val) else val))
            return out
        if name == "clear":
            self.note_forgotten(st, fr, place, d.card)
            ip.place_set(st, place, d.cleared())
            return [(st, NoneV())]
        if name == "values":
            col = d.cols[0]
            if isinstance(d.layout, RefL):
                mem = d.mem
                kk = z3.Const("k!vals", d.ksort)
                return [(st, CollV(lambda t, mem=mem, col=col, kk=kk: z3.Exists([kk], z3.And(z3.Select(mem, kk), z3.Select(col, kk) == t)), "dict.values()"))]
            if isinstance(d.layout, SetL):
                return [(st, DictValuesV(d))]
            raise Unsupported("values() of this dict")
        if name == "popitem":
            out = []
            for s, b in ip.branch(st, d.card > 0, "popitem"):
                if b:
                    k = fresh("popkey", d.ksort)
                    s.assume(d.has(k))
                    val = d.get(k)
                    ip.place_set(s, place, ip.place_get(s, place).remove(k))
                    kv = StrV(k) if d.ksort == S else (IntV(k) if d.ksort == I else RefV(k))
                    out.append((s, TupleV([kv, val])))
                else:
                    s.assume(d.card == 0)
                    out.append((s, Exit(Exit.RAISE, ExcV("KeyError", []))))
            return out
        raise Unsupported(f"dict.{name}()")

    FORGET_FRAMES = ("pool.BaseTaskPool.flush", "pool.BaseTaskPool.gather_and_close")
    REGISTRIES = ("_tasks_running", "_tasks_cancelled", "_tasks_ended")

    def note_forgotten(self, st, fr, place, count) -> None:
        """ghost: ids removed from a registry by flush / gather_and_close are *forgotten* (C03 counting)"""
        if place is not None and place.root[0] == "sh" and place.root[1] in self.REGISTRIES and not place.path and fr.qual in self.FORGET_FRAMES:
            st.sh["forgotten"] = IntV(st.sh["forgotten"].t + count)

    def set_method(self, st, fr, place, sv: SetV, name, pos, kws, node):
        ip = self.ip
        if name == "add":
            ip.place_set(st, place, sv.add(sv.layout.pack(pos[0])[0]))
            return [(st, NoneV())]
        if name == "discard":
            ip.place_set(st, place, sv.discard(sv.layout.pack(pos[0])[0]))
            return [(st, NoneV())]
        if name == "clear":
            ip.place_set(st, place, SetV.empty(sv.layout))
            return [(st, NoneV())]
        if name == "pop":
            out = []
            for s, b in ip.branch(st, sv.card > 0, "setpop"):
                if b:
                    (srt,) = sv.layout.sorts()
                    x = fresh("popped", srt)
                    s.assume(sv.has(x))
                    ip.place_set(s, place, sv.discard(x))
                    out.append((s, sv.layout.unpack([x])))
                else:
                    s.assume(sv.card == 0)
                    out.append((s, Exit(Exit.RAISE, ExcV("KeyError", []))))
            return out
        if name == "update":
            other = ip.deref(st, pos[0])
            if isinstance(other, ObjV) and other.cls == "TaskGroupRegister":
                other = other.fields["_ids"]  # __iter__ -> iter(self._ids)  (real __iter__ checked in unit group_register)
            if not isinstance(other, SetV):
                raise Unsupported("set.update(non-set)")
            (srt,) = sv.layout.sorts()
            nm = fresh("union", z3.ArraySort(srt, B))
            nc = fresh("unioncard", I)
            x = z3.Const("x!u", srt)
            st.assume(z3.ForAll([x], z3.Select(nm, x) == z3.Or(sv.has(x), other.has(x))))
            st.assume(z3.And(nc >= sv.card, nc >= other.card, nc <= sv.card + other.card))
            ip.place_set(st, place, SetV(nm, nc, sv.layout))
            return [(st, NoneV())]
        raise Unsupported(f"set.{name}()")

    # --- Task / coroutine objects ---------------------------------------------------------------------------
    def ref_method(self, st, fr, r: RefV, name, pos, kws, node):
        ip = self.ip
        if name == "cancel":
            return self.task_cancel(st, fr, r.t)
        if name == "done":
            return [(st, BoolV(self.ghost(st, "loc", r.t) == L_DONE))]
        if name == "close":
            st.trace.append(("close", r.t))
            return [(st, NoneV())]
        raise Unsupported(f"method .{name}() on an opaque object")

    def task_cancel(self, st, fr, t):
        """assumed contract T2 of Task.cancel()"""
        ip = self.ip
        p = PView(st)
        sel = z3.Select
        # F1: a wrapper that has not taken its first step must not be cancelled (T3 would end it without
        # running `_task_wrapper`, i.e. without release / callbacks)
        ip.require(st, "pre:Task.cancel:target-has-started", z3.Not(z3.And(sel(p.kind, t) == K_WRAPPER, sel(p.loc, t) == L_NS)), ("C02", "C03"))
        live = sel(p.loc, t) != L_DONE
        self.set_ghost(st, "creq", t, z3.Or(sel(p.creq, t), live))
        self.set_ghost(st, "cever", t, z3.Or(sel(p.cever, t), live))
        # a spawner pending at a semaphore is removed from the waiters
        sem: SemV = st.sh["_enough_room"]
        newP = fresh("Pc", I)
        st.assume(z3.And(newP >= 0, newP <= sem.P, z3.Implies(z3.Not(p.is_spawner(t)), newP == sem.P)))
        n = SemV(sem.v, sem.g, newP, sem.out, sem.ident)
        n.tokarr = sem.tokarr
        st.sh["_enough_room"] = n
        st.trace.append(("cancel", t))
        return [(st, BoolV(live))]

    def create_task(self, st, fr, coro: V, name_v):
        """assumed contract T1 of create_task"""
        if not isinstance(coro, CoroV) or coro.kind != "repo":
            raise Unsupported("create_task of a non-repo coroutine")
        q = coro.target.qualname
        kinds = {"pool.BaseTaskPool._task_wrapper": K_WRAPPER, "pool.TaskPool._apply_spawner": K_APPLY, "pool.TaskPool._arg_consumer": K_MAP,
                 "pool.SimpleTaskPool._start_num": K_START}
        if q not in kinds:
            raise Unsupported(f"create_task({q})")
        if getattr(self, "before_create_task", None) is not None and kinds[q] == K_WRAPPER:
            self.before_create_task(st)
        t = fresh("newtask", Ref)
        p = PView(st)
        st.assume(z3.And(t != NONE, t != st.me, z3.Select(p.kind, t) == K_NONE, z3.Select(sym_truthy(), t)))  # a Task object is truthy
        self.set_ghost(st, "kind", t, z3.IntVal(kinds[q]))
        self.set_ghost(st, "loc", t, z3.IntVal(L_NS))
        self.set_ghost(st, "creq", t, z3.BoolVal(False))
        self.set_ghost(st, "cever", t, z3.BoolVal(False))
        self.set_ghost(st, "mtok", t, z3.BoolVal(False))
        self.set_ghost(st, "fcan", t, z3.BoolVal(False))
        a = coro.args
        if kinds[q] == K_WRAPPER:
            tidv = a["task_id"]
            if not isinstance(tidv, IntV):
                raise Unsupported("task_id not an int")
            self.set_ghost(st, "tid", t, tidv.t)
            self.set_ghost(st, "wt", tidv.t, t)
            for arr, key in (("aw", "awaitable"), ("ecb", "end_callback"), ("ccb", "cancel_callback")):
                self.set_ghost(st, arr, t, self.as_ref(st, a[key]))
            # token hand-off: the creating frame gives its pool token (and map token) to the new thread
            self.set_ghost(st, "tok", t, self.ghost(st, "tok", st.me))
            self.set_ghost(st, "tok", st.me, z3.BoolVal(False))
            self.set_ghost(st, "mtok", t, self.ghost(st, "mtok", st.me))
            self.set_ghost(st, "mtok", st.me, z3.BoolVal(False))
            self.set_ghost(st, "grp", t, st.aux.get("start_group", fresh("grp", S)))
            self.set_ghost(st, "msem", t, self.ghost(st, "msem", st.me))
            if isinstance(name_v, StrV):
                self.set_ghost(st, "tname", t, name_v.t)
        else:
            self.set_ghost(st, "tok", t, z3.BoolVal(False))
            gv = a["group_name"]
            self.set_ghost(st, "grp", t, gv.t if isinstance(gv, StrV) else fresh("grp", S))
        st.trace.append(("spawn", t, q, dict(a)))
        return [(st, RefV(t))]

    def as_ref(self, st, v: V):
        if isinstance(v, RefV):
            return v.t
        if isinstance(v, NoneV):
            return NONE
        if isinstance(v, FuncV):
            # an in-repo closure used as callback (release_callback): named by a ghost object
            key = "closure_ref:" + v.name
            if key not in st.aux:
                st.aux[key] = fresh("closure", Ref)
                st.assume(st.aux[key] != NONE)
            return st.aux[key]
        raise Unsupported(f"{type(v).__name__} where an opaque object is expected")

    # --- semaphore -------------------------------------------------------------------------------------------
    def _mk_sem(self, old: SemV, v=None, g=None, P=None, out=None) -> SemV:
        n = SemV(v if v is not None else old.v, g if g is not None else old.g, P if P is not None else old.P, out if out is not None else old.out, old.ident)
        n.tokarr = old.tokarr
        return n

    def sem_wake_next(self, sem: SemV) -> SemV:
        """_wake_up_next(): grant to the first pending waiter"""
        c = sem.P > 0
        return self._mk_sem(sem, v=ExtV(sem.v.inf, z3.If(c, sem.v.k - 1, sem.v.k)), g=z3.If(c, sem.g + 1, sem.g), P=z3.If(c, sem.P - 1, sem.P))

    def sem_release(self, st, fr, place, sem: SemV):
        ip = self.ip
        ip.require(st, f"pre:release:owns-token[{sem.tokarr}]", self.ghost(st, sem.tokarr, st.me), ("C02", "C01") if sem.tokarr == "tok" else ("C05",))
        # counting permissions (meta-theorem, trusted): the number of owners never exceeds the outstanding tokens
        st.assume(z3.Implies(self.ghost(st, sem.tokarr, st.me), sem.out >= 1))
        self.set_ghost(st, sem.tokarr, st.me, z3.BoolVal(False))
        s2 = self._mk_sem(sem, v=sem.v.add(1), out=sem.out - 1)
        ip.place_set(st, place, self.sem_wake_next(s2))
        st.trace.append(("release", sem.tokarr))
        return [(st, NoneV())]

    def sem_acquire(self, st, fr, place, node):
        ip = self.ip
        sem: SemV = ip.place_get(st, place)
        out = []
        for s, fast in ip.branch(st, z3.Not(sem.locked()), "acquire-fast"):
            if fast:
                ip.place_set(s, place, self._mk_sem(sem, v=sem.v.add(-1), out=sem.out + 1))
                self.set_ghost(s, sem.tokarr, s.me, z3.BoolVal(True))
                s.trace.append(("acquire", sem.tokarr, "fast"))
                out.append((s, BoolV(True)))
                continue
            # enqueue and suspend
            ip.place_set(s, place, self._mk_sem(sem, P=sem.P + 1))
            self.suspend(s, fr, f"acquire[{sem.tokarr}]", node)
            # resumption outcomes
            for how in ("granted", "cancelled-pending", "cancelled-granted"):
                r = s.fork()
                r.tags.append(how)
                cur: SemV = ip.place_get(r, place)
                creq = self.ghost(r, "creq", r.me)
                if how == "granted":
                    r.assume(z3.And(cur.g >= 1, z3.Not(creq)))
                    n = self._mk_sem(cur, g=cur.g - 1, out=cur.out + 1)
                    wake = z3.And(n.v.gt_int(0))
                    w = self.sem_wake_next(n)
                    n2 = self._mk_sem(n, v=ExtV(n.v.inf, z3.If(wake, w.v.k, n.v.k)), g=z3.If(wake, w.g, n.g), P=z3.If(wake, w.P, n.P))
                    ip.place_set(r, place, n2)
                    self.set_ghost(r, sem.tokarr, r.me, z3.BoolVal(True))
                    r.trace.append(("acquire", sem.tokarr, "granted"))
                    if ip.feasible(r):
                        out.append((r, BoolV(True)))
                elif how == "cancelled-pending":
                    r.assume(creq)
                    self.mark_delivered(r)
                    if ip.feasible(r):
                        out.append((r, Exit(Exit.RAISE, self.delivered_cancel())))
                else:
                    r.assume(z3.And(creq, cur.g >= 1))
                    self.mark_delivered(r)
                    n = self._mk_sem(cur, g=cur.g - 1, v=cur.v.add(1))
                    ip.place_set(r, place, self.sem_wake_next(n))
                    if ip.feasible(r):
                        out.append((r, Exit(Exit.RAISE, self.delivered_cancel())))
        return out

    def mark_delivered(self, st: St) -> None:
        """a pending request is delivered as CancelledError.  For wrappers the flag is cleared (a later
        request is a new one); a spawner keeps it (it must end without suspending again, checked at every
        later suspension by `no-suspension-after-cancellation`)."""
        p = PView(st)
        self.set_ghost(st, "creq", st.me, p.is_spawner(st.me))

    def raise_opaque(self, st, fr, v: RefV):
        """`raise <object>` (an element of gather's results): an Exception a child raised (user origin), or - if it is not an
        Exception instance - the CancelledError a cancelled child left behind"""
        e = ExcV("UserExc", [], ref=v.t)
        e.origin = "user"
        c = ExcV("CancelledError", [], ref=v.t)
        c.origin = "child"
        is_exc = z3.Select(z3.Const("is_exception_object", A_RB), v.t)
        return [(is_exc, e), (z3.Not(is_exc), c)]

    def delivered_cancel(self) -> ExcV:
        e = ExcV("CancelledError", [])
        e.origin = "delivered"
        return e

    def suspend(self, st, fr, label, node, newloc=None):
        """a real suspension of the executing thread"""
        p = PView(st)
        self.ip.require(st, f"no-suspension-after-cancellation@{label}", z3.Not(z3.And(p.is_spawner(st.me), z3.Select(p.creq, st.me))), ("C07",))
        self.observe(st, f"{fr.qual.split('.')[-1]}@{label}", newloc)

    # --- await -----------------------------------------------------------------------------------------------
    def do_await(self, st, fr, v: V, node):
        ip = self.ip
        if isinstance(v, CoroV) and v.kind == "builtin":
            if v.target == "sem_acquire":
                return self.sem_acquire(st, fr, v.args["place"], node)
            if v.target == "lock_acquire":
                lk: LockV = ip.place_get(st, v.args["place"])
                ip.require(st, "pre:Lock.acquire:free(never suspends)", z3.Not(lk.locked), ("C10", "C11"))
                st.assume(z3.Not(lk.locked))
                ip.place_set(st, v.args["place"], LockV(True))
                return [(st, BoolV(True))]
            if v.target == "gather":
                return self.gather(st, fr, v.args["colls"], v.args["re"], node)
            if v.target == "event_wait":
                self.suspend(st, fr, "Event.wait", node)
                ev: EventV = ip.place_get(st, v.args["place"])
                st.assume(ev.is_set)
                return [(st, BoolV(True))]
        if isinstance(v, CoroV) and v.kind == "closure":
            return ip.run_closure(st, fr, v.target, v.args)
        if isinstance(v, RefV):
            return self.await_user(st, fr, v, node)
        raise Unsupported(f"await of {type(v).__name__}")

    on_callout = None  # unit hook: (st, fr, fn_term, args:list[V], loc) -> None, called just before the call-out

    def callout_loc(self, fr):
        stack = fr.stack()
        if any(q.endswith("._task_cancellation") for q in stack):
            return L_CCB
        if any(q.endswith("._task_ending") or q.endswith(".release_callback") for q in stack):
            return L_ECB
        return None

    def user_exc(self, cls="UserExc", origin="user") -> ExcV:
        e = ExcV(cls, [], ref=fresh("exc", Ref))
        e.origin = origin
        return e

    def call_ref(self, st, fr, f: RefV, pos, kws, rest_kw, node):
        ip = self.ip
        args = []
        for x in pos:
            if isinstance(x, StarV):
                inner = ip.deref(st, x.v)
                args.extend(inner.items if isinstance(inner, TupleV) else [x])
            else:
                args.append(x)
        for k in rest_kw:
            args.append(k)
        if any(fr.qual == q or fr.qual.startswith(q) for q in self.CORO_CTOR_FRAMES):
            # U3: calling a coroutine function creates a coroutine and runs no user code; it may raise
            st.trace.append(("corocall", f.t, args, dict(kws)))
            if getattr(self, "on_corocall", None) is not None:
                self.on_corocall(st, f.t, args, dict(kws))
            ok = st.fork()
            ok.tags.append("call:ok")
            r = fresh("coro", Ref)
            ok.assume(z3.And(r != NONE, z3.Select(z3.Const("is_coro", A_RB), r), z3.Select(sym_truthy(), r)))
            bad = st.fork()
            bad.tags.append("call:raises")
            if getattr(self, "on_call_raised", None) is not None:
                self.on_call_raised(bad)
            return [(ok, RefV(r, "coro")), (bad, Exit(Exit.RAISE, self.user_exc()))]
        loc = self.callout_loc(fr)
        label = {L_CCB: "cancel-callback", L_ECB: "end-callback"}.get(loc, "callout")
        if self.on_callout is not None:
            self.on_callout(st, fr, f.t, args, loc)
        st.trace.append(("callout", f.t, args, loc))
        self.observe(st, f"{fr.qual.split('.')[-1]}@call:{label}", loc)
        ok = st.fork()
        ok.tags.append(label + ":returns")
        r = fresh("cbres", Ref)
        bad = st.fork()
        bad.tags.append(label + ":raises")
        return [(ok, RefV(r, "cbres")), (bad, Exit(Exit.RAISE, self.user_exc()))]

    def await_user(self, st, fr, v: RefV, node):
        """awaiting a user awaitable: call-out + suspension.  Outcomes: value, user exception, CancelledError."""
        ip = self.ip
        in_wrapper = fr.qual.endswith("._task_wrapper")
        loc = L_BODY if in_wrapper else self.callout_loc(fr)
        label = "awaitable" if in_wrapper else {L_CCB: "cancel-callback", L_ECB: "end-callback"}.get(loc, "user-awaitable")
        st.trace.append(("await_user", v.t, loc))
        self.observe(st, f"{fr.qual.split('.')[-1]}@await:{label}", loc)
        creq = self.ghost(st, "creq", st.me)
        out = []
        ok = st.fork()
        ok.tags.append(label + ":value")
        self.set_ghost(ok, "creq", ok.me, z3.BoolVal(False))
        out.append((ok, RefV(fresh("res", Ref))))
        bad = st.fork()
        bad.tags.append(label + ":raises")
        self.set_ghost(bad, "creq", bad.me, z3.BoolVal(False))
        out.append((bad, Exit(Exit.RAISE, self.user_exc())))
        can = st.fork()
        can.tags.append(label + ":cancelled")
        if in_wrapper:
            # the awaited user coroutine ends by CancelledError (delivered request or raised by itself)
            self.set_ghost(can, "creq", can.me, z3.BoolVal(False))
            out.append((can, Exit(Exit.RAISE, self.delivered_cancel())))
        else:
            # inside a callback a CancelledError is only *delivered* if a request is pending
            can.assume(creq)
            self.set_ghost(can, "creq", can.me, z3.BoolVal(False))
            if ip.feasible(can):
                out.append((can, Exit(Exit.RAISE, self.delivered_cancel())))
        return out

    def gather(self, st, fr, colls, re: V, node):
        ip = self.ip
        preds = []
        for c in colls:
            inner = ip.deref(st, c.v) if isinstance(c, StarV) else ip.deref(st, c)
            preds.append(self.coll_pred(st, inner))
        pre_sh = dict(st.sh)
        label = f"gather#{fr.await_no}"
        self.suspend(st, fr, label, node)
        if not isinstance(re, BoolV):
            raise Unsupported("return_exceptions not a bool")
        t = z3.Const("t!g", Ref)
        out = []
        # normal: every awaited child is done
        s1 = st.fork()
        s1.tags.append(label + ":ok")
        s1.assume(z3.ForAll([t], z3.Implies(z3.Or([pr(t) for pr in preds]) if preds else z3.BoolVal(False), self.ghost(s1, "loc", t) == L_DONE)))
        if not self.allow_self_cancel:
            s1.assume(z3.Not(self.ghost(s1, "creq", s1.me)))
        if getattr(self, "after_gather_ok", None) is not None:
            self.after_gather_ok(s1, fr, label)
        from pyvc.theory import OpaqueCollV

        # the results: with return_exceptions an element may be the exception object a child raised (user origin)
        out.append((s1, OpaqueCollV("gather results")))
        for s2, b in ip.branch(st.fork(), re.t, "return_exceptions"):
            if b:
                continue
            s3 = s2.fork()
            s3.tags.append(label + ":child-exception")
            e = ExcV("UserExc", [], ref=fresh("exc", Ref))
            e.origin = "user"
            out.append((s3, Exit(Exit.RAISE, e)))
            s4 = s2.fork()
            s4.tags.append(label + ":child-cancelled")
            tc = fresh("cancelled_child", Ref)
            s4.assume(z3.And(z3.Or([pr(tc) for pr in preds]) if preds else z3.BoolVal(False), self.ghost(s4, "loc", tc) == L_DONE, self.ghost(s4, "fcan", tc)))
            e2 = ExcV("CancelledError", [])
            e2.origin = "child"
            out.append((s4, Exit(Exit.RAISE, e2)))
        return out

    def coll_pred(self, st, c: V):
        if isinstance(c, CollV):
            return c.pred
        if isinstance(c, SetV):
            return lambda t, c=c: c.has(t)
        if isinstance(c, TupleV):
            # a tuple/list display collecting awaitables: single objects and starred collections
            preds = []
            for item in c.items:
                inner = self.ip.deref(st, item.v) if isinstance(item, StarV) else self.ip.deref(st, item)
                if isinstance(inner, RefV):
                    preds.append(lambda t, r=inner.t: t == r)
                else:
                    preds.append(self.coll_pred(st, inner))
            return lambda t, preds=preds: z3.Or([p_(t) for p_ in preds]) if preds else z3.BoolVal(False)
        raise Unsupported(f"gather(*{type(c).__name__})")

    # --- comprehensions -----------------------------------------------------------------------------------------
    def comprehension(self, st, fr, e):
        ip = self.ip
        gens = e.generators
        if any(g.ifs or g.is_async for g in gens):
            raise Unsupported("comprehension with conditions")
        if isinstance(e, ast.GeneratorExp) and len(gens) == 2:
            # (task for task_set in <dict of sets>.values() for task in task_set)
            g0, g1 = gens
            ok = (isinstance(e.elt, ast.Name) and isinstance(g1.target, ast.Name) and e.elt.id == g1.target.id
                  and isinstance(g1.iter, ast.Name) and isinstance(g0.target, ast.Name) and g1.iter.id == g0.target.id)
            if ok:
                res = ip.ev(st, fr, g0.iter)
                if len(res) == 1 and isinstance(res[0][1], DictValuesV):
                    d = res[0][1].d
                    kk = z3.Const("k!gen", d.ksort)
                    sets, mem = d.cols[0], d.mem
                    return [(res[0][0], CollV(lambda t: z3.Exists([kk], z3.And(z3.Select(mem, kk), z3.Select(z3.Select(sets, kk), t))), "flattened dict-of-sets values"))]
            raise Unsupported("generator expression shape")
        if isinstance(e, ast.ListComp) and len(gens) == 1 and isinstance(gens[0].target, ast.Name):
            out = []
            for s, src in ip.ev(st, fr, gens[0].iter):
                if isinstance(src, Exit):
                    out.append((s, src))
                    continue
                out.extend(self.map_rule(s, fr, e.elt, gens[0].target.id, ip.deref(s, src)))
            return out
        raise Unsupported("comprehension shape")

    def map_rule(self, st, fr, elt, var: str, src: V):
        """[f(x) for x in seq] with a *pure* element expression: either every element evaluates, or the
        first failing one raises and nothing has changed (DESIGN 5/C06)."""
        ip = self.ip
        if isinstance(src, TupleV):
            res = [(st, [])]
            for item in src.items:
                nxt = []
                for s, acc in res:
                    if isinstance(acc, Exit):
                        nxt.append((s, acc))
                        continue
                    s.loc[var] = item
                    for s2, v in ip.ev(s, fr, elt):
                        nxt.append((s2, v if isinstance(v, Exit) else acc + [v]))
                res = nxt
            return [(s, acc if isinstance(acc, Exit) else TupleV(acc)) for s, acc in res]
        if not isinstance(src, SeqV):
            raise Unsupported("list comprehension over " + type(src).__name__)
        j = fresh("j", I)
        probe = st.fork()
        probe.loc[var] = src.at(j)
        npc = len(probe.pc)
        before_sh = dict(probe.sh)
        results = ip.ev(probe, fr, elt)
        normal, raising = [], []
        for s, v in results:
            for k in before_sh:
                if not same_value(before_sh[k], s.sh[k]):
                    raise Unsupported("comprehension element is not pure")
            cond = z3.And(s.pc[npc:]) if len(s.pc) > npc else z3.BoolVal(True)
            (raising if isinstance(v, Exit) else normal).append((cond, v))
        jb = z3.Int("j!c")

        def at(f, idx):
            return z3.substitute(f, (j, idx))

        out = []
        # (a) every element evaluates
        if normal:
            s = st.fork()
            lay = None
            v0 = normal[0][1]
            if isinstance(v0, RefV):
                lay = RefL()
            elif isinstance(v0, IntV):
                lay = IntL()
            else:
                raise Unsupported("comprehension element type")
            arr = fresh("comp", z3.ArraySort(I, lay.sorts()[0]))
            okc = z3.Or([c for c, _ in normal])
            s.assume(z3.ForAll([jb], z3.Implies(z3.And(0 <= jb, jb < src.n), at(okc, jb))))
            for c, v in normal:
                s.assume(z3.ForAll([jb], z3.Implies(z3.And(0 <= jb, jb < src.n, at(c, jb)), z3.Select(arr, jb) == at(v.t, jb))))
            s.tags.append("comp:all")
            out.append((s, SeqV(src.n, [arr], lay)))
        # (b) the first failing element raises
        for idx, (c, ex) in enumerate(raising):
            s = st.fork()
            j0 = fresh("j0", I)
            s.assume(z3.And(0 <= j0, j0 < src.n, at(c, j0)))
            if normal:
                okc = z3.Or([cc for cc, _ in normal])
                s.assume(z3.ForAll([jb], z3.Implies(z3.And(0 <= jb, jb < j0), at(okc, jb))))
            s.tags.append(f"comp:raise{idx}")
            s.aux["comp_fail_index"] = j0
            exv = ex.val
            ne = ExcV(exv.cls, [self._subst_v(a, j, j0) for a in exv.args], exv.ref)
            if ip.feasible(s):
                out.append((s, Exit(Exit.RAISE, ne)))
        return out

    def _subst_v(self, v: V, a, b):
        if isinstance(v, IntV):
            return IntV(z3.substitute(v.t, (a, b)))
        if isinstance(v, StrV):
            return StrV(z3.substitute(v.t, (a, b)))
        if isinstance(v, RefV):
            return RefV(z3.substitute(v.t, (a, b)))
        return v

    # --- async with (TaskGroupRegister as context manager) -----------------------------------------------------
    def async_with(self, st, fr, mgr, optional_vars, body, node):
        ip = self.ip
        inner = ip.deref(st, mgr)
        if not (isinstance(inner, ObjV) and isinstance(mgr, PlaceV)):
            raise Unsupported("async with on " + type(inner).__name__)
        enter = ip.repo.find_method(inner.cls, "__aenter__")
        exit_ = ip.repo.find_method(inner.cls, "__aexit__")
        out = []
        for s, v in ip.run_repo(st, fr, enter, mgr, {}, awaited=True):
            if isinstance(v, Exit):
                out.append((s, v))
                continue
            if optional_vars is not None:
                ip.assign(s, fr, optional_vars, v)
            for s2, ex in ip.block(s, fr, body):
                args = {"exc_type": NoneV(), "exc_val": NoneV(), "exc_tb": NoneV()}
                for s3, v3 in ip.run_repo(s2, fr, exit_, mgr, args, awaited=True):
                    if isinstance(v3, Exit):
                        out.append((s3, v3))
                    elif ex.kind == Exit.RAISE:
                        # __aexit__ of the register returns None (falsy): the exception propagates
                        out.append((s3, ex))
                    else:
                        out.append((s3, ex))
        return out


class DictValuesV(V):
    def __init__(self, d: DictV):
        self.d = d


class UserIterV(V):
    def __init__(self, ref: RefV, enumerate_: bool = False):
        self.ref, self.enumerate_ = ref, enumerate_
