"""Run verification units: symbolic execution of the real function, discharge of every obligation.

Units are independent; they are distributed over a process pool (one z3 context per process).
Results are plain dicts so they can cross process boundaries and be written to evidence files.
"""
from __future__ import annotations

import hashlib
import os
import time
import traceback
from typing import Callable, Dict, List, Optional

import z3

from . import quant
from .front import Repo
from .interp import Interp, Obligation
from .sym import Unsupported

TIMEOUT_MS = int(os.environ.get("VERIF_QUERY_TIMEOUT_MS", "6000"))


class Unit:
    def __init__(self, name: str, fn: Callable, props=(), functions=(), theory_factory=None, trusted=()):
        self.name, self.fn, self.props, self.functions = name, fn, tuple(props), tuple(functions)
        self.theory_factory = theory_factory
        self.trusted = tuple(trusted)


def model_summary(model, ob: Obligation, limit: int = 60) -> Dict[str, str]:
    out = {}
    try:
        for d in model.decls()[:400]:
            nm = d.name()
            if "!" in nm and not nm.startswith(("p_", "me", "newtask", "a_")):
                continue
            v = model[d]
            s = str(v)
            if len(s) > 160:
                s = s[:160] + "..."
            out[nm] = s
            if len(out) >= limit:
                break
    except Exception as e:  # pragma: no cover
        out["<error>"] = repr(e)
    return out


STAGE2_BUDGET_MS = int(os.environ.get("VERIF_STAGE2_BUDGET_MS", "25000"))  # (kept for reference; no longer used)
STAGE2_BUDGET_RL = int(os.environ.get("VERIF_STAGE2_BUDGET_RL", "120000000"))


def _record(ob: Obligation, verdict, model, stats, want_smt2=False) -> Dict:
    if (ob.meta or {}).get("cover"):
        # a cover is *good* when False is NOT derivable
        rec = {"name": ob.name, "path": ob.path, "props": list(ob.props), "kind": "cover",
               "verdict": "vacuous" if verdict == "unsat" else "reachable", "ms": stats.get("ms", 0), "hyps": len(ob.hyps),
               "instances": stats.get("instances", 0), "backend": stats.get("backend", ""), "meta": {}}
        return rec
    if verdict == "sat" and (ob.meta or {}).get("refutable") == "0":
        verdict = "unknown"
        stats = dict(stats)
        stats["reason"] = "a counter-model exists for the instantiated query, but a hypothesis lies outside the fragment for which instantiation is complete (" + str(ob.meta.get("nonfragment")) + "): not reported as a failure"
    rec = {
        "name": ob.name,
        "path": ob.path,
        "props": list(ob.props),
        "verdict": {"unsat": "proved", "sat": "failed", "unknown": "unknown"}[verdict],
        "ms": stats.get("ms", 0),
        "hyps": len(ob.hyps),
        "instances": stats.get("instances", 0),
        "backend": stats.get("backend", ""),
        "rlimit_used": stats.get("rlimit_used"),
        "meta": {k: str(v) for k, v in (ob.meta or {}).items()},
    }
    if verdict == "sat":
        rec["model"] = model_summary(model, ob)
    if verdict == "unknown":
        rec["reason"] = stats.get("reason", "")
    if want_smt2 or _sampled(ob.name):
        rec["smt2"] = quant.to_smt2(ob.hyps, ob.goal)
    return rec


def _sampled(name: str) -> bool:
    """thorough tier: a VERIF_SEED-driven sample of obligations is exported as SMT-LIB2 for the other solvers"""
    m = int(os.environ.get("VERIF_SMT2_SAMPLE_MOD", "0") or 0)
    if m <= 0:
        return False
    seed = os.environ.get("VERIF_SEED", "0")
    return int(hashlib.sha256((name + seed).encode()).hexdigest(), 16) % m == 0


def discharge_batch(obls: List[Obligation], idxs: List[int], want_smt2: bool = False) -> List:
    """pass 1: bounded E-matching on every obligation.  pass 2: the ones not proved, cheapest first
    (fewest hypotheses = earliest on their path), by hand instantiation, within a time budget; what the
    budget does not reach stays `unknown` - never `proved`, never `failed`."""
    from . import sym

    out: Dict[int, Dict] = {}
    todo = []
    axioms = sym.string_axioms() + sym.global_axioms()
    for i in idxs:
        ob = obls[i]
        if not getattr(ob, "_axioms_added", False):
            ob.hyps = list(ob.hyps) + axioms
            ob._axioms_added = True
        if z3.is_true(z3.simplify(ob.goal)):
            out[i] = _record(ob, "unsat", None, {"ms": 0, "backend": "syntactic"}, want_smt2)
            continue
        verdict, model, stats = quant.check(ob.hyps, ob.goal, TIMEOUT_MS, allow_stage2=False)
        out[i] = _record(ob, verdict, model, stats, want_smt2)
        if verdict == "unknown" and not (ob.meta or {}).get("cover"):
            todo.append(i)
    todo.sort(key=lambda i: (len(obls[i].hyps), i))
    spent = 0
    for i in todo:
        if spent > STAGE2_BUDGET_RL:
            break
        ob = obls[i]
        verdict, model, stats = quant.check(ob.hyps, ob.goal, TIMEOUT_MS, allow_stage2=True, skip_stage1=True)
        stats["ms"] = stats.get("ms", 0) + out[i]["ms"]
        # the per-shard budget of the second pass is counted in z3 resource units (deterministic), not in wall-clock time
        spent += stats.get("rlimit_used") or 5000000
        out[i] = _record(ob, verdict, model, stats, want_smt2)
    return [(i, out[i]) for i in idxs]


def discharge_one(ob: Obligation, want_smt2: bool = False) -> Dict:
    return discharge_batch([ob], [0], want_smt2)[0][1]


INNER_JOBS = int(os.environ.get("VERIF_INNER_JOBS", "8"))


def discharge_all(obls: List[Obligation], want_smt2: bool = False) -> List[Dict]:
    """discharge obligations; large batches are split over forked children (the z3 terms live in this
    process's memory, so children are forked *after* symbolic execution and report plain JSON)"""
    import json
    import tempfile

    n = len(obls)
    K = min(INNER_JOBS, max(1, (n + 2) // 3))
    if K <= 1:
        return [rec for _i, rec in discharge_batch(obls, list(range(n)), want_smt2)]
    tmp = tempfile.mkdtemp(prefix="pyvc_")
    pids = []
    try:
        for k in range(K):
            pid = os.fork()
            if pid == 0:
                code = 0
                try:
                    out = discharge_batch(obls, list(range(k, n, K)), want_smt2)
                    with open(os.path.join(tmp, f"{k}.json"), "w") as fh:
                        json.dump(out, fh)
                except BaseException:
                    code = 1
                os._exit(code)
            pids.append(pid)
        results: Dict[int, Dict] = {}
        failed_shards = []
        for k, pid in enumerate(pids):
            _, status = os.waitpid(pid, 0)
            path = os.path.join(tmp, f"{k}.json")
            if status != 0 or not os.path.exists(path):
                failed_shards.append(k)
                continue
            for i, rec in json.load(open(path)):
                results[i] = rec
        for k in failed_shards:  # redo in-process (never drop an obligation)
            for i, rec in discharge_batch(obls, list(range(k, n, K)), want_smt2):
                results[i] = rec
        return [results[i] for i in range(n)]
    finally:
        import shutil

        shutil.rmtree(tmp, ignore_errors=True)


def run_unit(unit: Unit, repo_root: Optional[str] = None, mutate: Optional[Callable] = None, want_smt2: bool = False) -> Dict:
    """returns {'unit', 'status', 'obligations': [...], 'error'}; status: ok | undecided | crash"""
    t0 = time.time()
    res = {"unit": unit.name, "status": "ok", "obligations": [], "error": None, "functions": {}, "props": list(unit.props)}
    try:
        repo = Repo(repo_root)
        if mutate is not None:
            mutate(repo)
        th = unit.theory_factory() if unit.theory_factory else None
        ip = Interp(repo, th)
        ip.unit = unit.name
        ip.props_default = unit.props
        for q in unit.functions:
            if q in repo.functions:
                res["functions"][q] = repo.functions[q].src_hash
            else:
                raise Unsupported(f"function {q} not found in the repository (renamed or removed)")
        unit.fn(ip, th)
        res["functions"].update(getattr(ip, "extra_functions", {}))  # e.g. functions of the interpreter's own asyncio/locks.py
        res["stats"] = {"feasibility_checks": ip.feas_checks, "statements": ip.stmt_count, "constructs": sorted(ip.seen_constructs)}
        res["obligations"] = discharge_all(ip.obligations, want_smt2)
    except Unsupported as e:
        res["status"] = "undecided"
        res["error"] = f"outside the verified subset: {e}"
    except Exception as e:
        res["status"] = "crash"
        res["error"] = f"{type(e).__name__}: {e}\n{traceback.format_exc(limit=8)}"
    res["wall_s"] = round(time.time() - t0, 3)
    return res


_UNITS: List[Unit] = []


def _worker(args):
    idx, repo_root = args
    return run_unit(_UNITS[idx], repo_root)


def run_units(units: List[Unit], repo_root: Optional[str] = None, jobs: int = 0) -> List[Dict]:
    """units are looked up by index in the forked children (they hold closures and are not picklable)"""
    import multiprocessing as mp

    global _UNITS
    jobs = jobs or min(len(units), os.cpu_count() or 4, 16)
    if jobs <= 1 or len(units) <= 1:
        return [run_unit(u, repo_root) for u in units]
    _UNITS = list(units)
    ctx = mp.get_context("fork")
    with ctx.Pool(jobs) as pool:
        return pool.map(_worker, [(i, repo_root) for i in range(len(units))], chunksize=1)
