"""Front end: parse the real sources under /repo/src/asyncio_taskpool on every run.

Nothing is copied by hand.  What the extraction drops (reported in evidence):
docstrings, type annotations, @overload stubs, comments, calls on the module logger `log.*`.
"""
from __future__ import annotations

import ast
import hashlib
import os
from dataclasses import dataclass, field
from typing import Dict, List, Optional

REPO = os.environ.get("VERIF_REPO", "/repo")
PKG = "src/asyncio_taskpool"

EXTRACTION_DROPS = [
    "docstrings",
    "type annotations (parameters, returns, variable annotations)",
    "@overload stubs (only the last, real definition of a name is kept)",
    "comments / noqa / type: ignore markers",
    "the call of the module logger `log.*` itself (assumed effect-free); its argument expressions ARE evaluated",
]

BUILTIN_EXC = {
    # name -> base
    "BaseException": None,
    "Exception": "BaseException",
    "CancelledError": "BaseException",
    "KeyboardInterrupt": "BaseException",
    "SystemExit": "BaseException",
    "LookupError": "Exception",
    "KeyError": "LookupError",
    "IndexError": "LookupError",
    "ValueError": "Exception",
    "TypeError": "Exception",
    "AttributeError": "Exception",
    "RuntimeError": "Exception",
    "NotImplementedError": "RuntimeError",
    "StopIteration": "Exception",
    "ArgumentError": "Exception",
    "ArgumentTypeError": "Exception",
    "OSError": "Exception",
    "ConnectionError": "OSError",
    "FileNotFoundError": "OSError",
    "EOFError": "Exception",
    "ImportError": "Exception",
    "ModuleNotFoundError": "ImportError",
    "UserExc": "Exception",  # an arbitrary exception raised by user code (assumption U7)
}


@dataclass
class FuncInfo:
    module: str
    cls: Optional[str]
    name: str
    node: ast.AST
    is_async: bool
    decorators: List[str]
    src_hash: str

    @property
    def qualname(self) -> str:
        return f"{self.module}.{self.cls}.{self.name}" if self.cls else f"{self.module}.{self.name}"


@dataclass
class ClassInfo:
    module: str
    name: str
    bases: List[str]
    methods: Dict[str, FuncInfo] = field(default_factory=dict)
    props_get: Dict[str, FuncInfo] = field(default_factory=dict)
    props_set: Dict[str, FuncInfo] = field(default_factory=dict)
    node: ast.ClassDef = None


def _deco_name(d: ast.AST) -> str:
    if isinstance(d, ast.Name):
        return d.id
    if isinstance(d, ast.Attribute):
        return _deco_name(d.value) + "." + d.attr
    if isinstance(d, ast.Call):
        return _deco_name(d.func)
    return "?"


class Repo:
    """All modules of the package, parsed."""

    def __init__(self, root: str = None):
        self.root = root or REPO
        self.modules: Dict[str, ast.Module] = {}
        self.sources: Dict[str, str] = {}
        self.classes: Dict[str, ClassInfo] = {}
        self.functions: Dict[str, FuncInfo] = {}
        self.consts: Dict[str, Dict[str, object]] = {}
        self.future_annotations: Dict[str, bool] = {}
        base = os.path.join(self.root, PKG)
        for dirpath, _dirs, files in os.walk(base):
            for fn in sorted(files):
                if not fn.endswith(".py"):
                    continue
                path = os.path.join(dirpath, fn)
                rel = os.path.relpath(path, base)[:-3].replace(os.sep, ".")
                if rel.endswith("__init__"):
                    rel = rel[: -len(".__init__")] if "." in rel else "__init__"
                # short module name: pool, helpers, group_register, session, parser, ...
                short = rel.split(".")[-1]
                src = open(path, encoding="utf-8").read()
                self.sources[short] = src
                self.modules[short] = ast.parse(src, filename=path)
        for short, mod in self.modules.items():
            self._index(short, mod)
        self.exc = dict(BUILTIN_EXC)
        for c in self.classes.values():
            if c.module == "exceptions":
                self.exc[c.name] = c.bases[0] if c.bases else "Exception"

    def _index(self, short: str, mod: ast.Module) -> None:
        src = self.sources[short]
        self.consts[short] = {}
        self.future_annotations[short] = any(
            isinstance(s, ast.ImportFrom) and s.module == "__future__" and any(a.name == "annotations" for a in s.names)
            for s in mod.body
        )
        for node in mod.body:
            if isinstance(node, ast.Assign) and len(node.targets) == 1 and isinstance(node.targets[0], ast.Name):
                try:
                    self.consts[short][node.targets[0].id] = ast.literal_eval(node.value)
                except Exception:
                    pass
            if isinstance(node, (ast.FunctionDef, ast.AsyncFunctionDef)):
                self._add_func(short, None, node, src)
            if isinstance(node, ast.ClassDef):
                ci = ClassInfo(short, node.name, [_deco_name(b) if not isinstance(b, ast.Subscript) else _deco_name(b.value) for b in node.bases], node=node)
                self.classes[node.name] = ci
                for sub in node.body:
                    if isinstance(sub, (ast.FunctionDef, ast.AsyncFunctionDef)):
                        self._add_func(short, ci, sub, src)

    def _add_func(self, short, ci: Optional[ClassInfo], node, src) -> None:
        decos = [_deco_name(d) for d in node.decorator_list]
        if "overload" in decos:
            return
        seg = ast.get_source_segment(src, node) or ""
        fi = FuncInfo(short, ci.name if ci else None, node.name, node, isinstance(node, ast.AsyncFunctionDef), decos, hashlib.sha256(seg.encode()).hexdigest()[:16])
        if ci is None:
            self.functions[fi.qualname] = fi
            return
        if "property" in decos:
            ci.props_get[node.name] = fi
            self.functions[fi.qualname + ".getter"] = fi
        elif any(d.endswith(".setter") for d in decos):
            ci.props_set[node.name] = fi
            self.functions[fi.qualname + ".setter"] = fi
        else:
            ci.methods[node.name] = fi
            self.functions[fi.qualname] = fi

    # -- lookup ---------------------------------------------------------------------------------
    def mro(self, cls: str) -> List[str]:
        out, todo = [], [cls]
        while todo:
            c = todo.pop(0)
            if c in out or c not in self.classes:
                continue
            out.append(c)
            todo.extend(self.classes[c].bases)
        return out

    def find_method(self, cls: str, name: str) -> Optional[FuncInfo]:
        for c in self.mro(cls):
            if name in self.classes[c].methods:
                return self.classes[c].methods[name]
        return None

    def find_prop(self, cls: str, name: str, setter: bool = False) -> Optional[FuncInfo]:
        for c in self.mro(cls):
            d = self.classes[c].props_set if setter else self.classes[c].props_get
            if name in d:
                return d[name]
        return None

    def is_subclass_exc(self, a: str, b: str) -> bool:
        while a is not None:
            if a == b:
                return True
            a = self.exc.get(a)
        return False

    def get(self, qualname: str) -> FuncInfo:
        return self.functions[qualname]

    def nested_def(self, fi: FuncInfo, name: str):
        for n in ast.walk(fi.node):
            if isinstance(n, (ast.FunctionDef, ast.AsyncFunctionDef)) and n.name == name and n is not fi.node:
                return n
        return None

    # -- call-graph facts used by `callgraph` obligations --------------------------------------------
    def references(self, attr: str) -> List[str]:
        """qualnames of functions whose body mentions `.attr` (method reference) anywhere."""
        out = []
        for q, fi in self.functions.items():
            for n in ast.walk(fi.node):
                if isinstance(n, ast.Attribute) and n.attr == attr:
                    out.append(q)
                    break
        return sorted(set(out))

    def attr_writes(self, attr: str) -> List[str]:
        """qualnames of functions that assign/aug-assign/delete `<x>.attr`."""
        out = []
        for q, fi in self.functions.items():
            for n in ast.walk(fi.node):
                tgts = []
                if isinstance(n, ast.Assign):
                    tgts = n.targets
                elif isinstance(n, (ast.AugAssign, ast.AnnAssign)):
                    tgts = [n.target]
                elif isinstance(n, ast.Delete):
                    tgts = n.targets
                for t in tgts:
                    for s in ast.walk(t):
                        if isinstance(s, ast.Attribute) and s.attr == attr and isinstance(s.ctx, (ast.Store, ast.Del)):
                            out.append(q)
        return sorted(set(out))


# ---------------------------------------------------------------------------------------------------------------
# robustness of the specification against renamed locals: invariants name locals of the verified function; when a
# function of the current tree has the same *shape* as on the baseline tree (identical AST up to the names of its
# parameters and locals) the baseline names are mapped to the current ones position by position (alpha-renaming)
# ---------------------------------------------------------------------------------------------------------------
def _strip(node: ast.AST) -> ast.AST:
    import copy

    n = copy.deepcopy(node)
    for x in ast.walk(n):
        if isinstance(x, (ast.FunctionDef, ast.AsyncFunctionDef, ast.ClassDef)) and x.body and isinstance(x.body[0], ast.Expr) and isinstance(x.body[0].value, ast.Constant) \
                and isinstance(x.body[0].value.value, str):
            x.body = x.body[1:] or [ast.Pass()]
        if isinstance(x, (ast.FunctionDef, ast.AsyncFunctionDef)):
            x.returns = None
        if isinstance(x, ast.arg):
            x.annotation = None
        if isinstance(x, ast.AnnAssign):
            x.annotation = ast.Constant(value=None)
    # `x: T = v` and `x = v` are the same statement for the purposes of the shape
    class _T(ast.NodeTransformer):
        def visit_AnnAssign(self, a):
            self.generic_visit(a)
            if a.value is not None and a.simple:
                return ast.copy_location(ast.Assign(targets=[a.target], value=a.value), a)
            return a

    n = _T().visit(n)
    ast.fix_missing_locations(n)
    return n


def local_names(node: ast.AST) -> List[str]:
    """parameters and locally bound names in order of first occurrence (depth-first, source order)"""
    out: List[str] = []
    bound = set()
    for x in ast.walk(node):
        if isinstance(x, ast.arg):
            bound.add(x.arg)
        elif isinstance(x, ast.Name) and isinstance(x.ctx, (ast.Store, ast.Del)):
            bound.add(x.id)
        elif isinstance(x, ast.ExceptHandler) and x.name:
            bound.add(x.name)

    def visit(n):
        if isinstance(n, ast.arg) and n.arg in bound and n.arg not in out:
            out.append(n.arg)
        if isinstance(n, ast.Name) and n.id in bound and n.id not in out:
            out.append(n.id)
        if isinstance(n, ast.ExceptHandler) and n.name and n.name not in out:
            out.append(n.name)
        for c in ast.iter_child_nodes(n):
            visit(c)

    visit(node)
    return out


def shape_hash(node: ast.AST) -> str:
    n = _strip(node)
    names = set(local_names(n))
    for x in ast.walk(n):
        if isinstance(x, ast.arg) and x.arg in names:
            x.arg = "_"
        elif isinstance(x, ast.Name) and x.id in names:
            x.id = "_"
        elif isinstance(x, ast.ExceptHandler) and x.name:
            x.name = "_"
    return hashlib.sha256(ast.dump(n).encode()).hexdigest()[:16]


_BASELINE_LOCALS = None


def baseline_locals() -> Dict[str, Dict]:
    global _BASELINE_LOCALS
    if _BASELINE_LOCALS is None:
        import json

        p = os.path.join(os.path.dirname(os.path.dirname(os.path.abspath(__file__))), "baseline_obligations.json")
        try:
            _BASELINE_LOCALS = json.load(open(p)).get("locals", {})
        except Exception:
            _BASELINE_LOCALS = {}
    return _BASELINE_LOCALS


def alias_of(fi: "FuncInfo", baseline_name: str) -> Optional[str]:
    """the current name of the local that was called `baseline_name` when the specification was written, if the function
    only differs from the baseline by the names of its locals; None otherwise"""
    r = alias_of2(fi, baseline_name)
    return r[0] if r is not None and r[1] else None


def alias_of2(fi: "FuncInfo", baseline_name: str):
    """(current name, exact?)  exact: the function differs from the baseline only by the names of its locals.  Otherwise a
    HEURISTIC guess for a restructured function: the baseline locals that no longer exist are matched, in order of first
    occurrence, with the locals that did not exist in the baseline.  A guess may be wrong, so whoever uses it must not
    trust a counter-model obtained with it (the caller marks the path `refutable: 0`: proved stays proved, a failure
    becomes undecided)."""
    b = baseline_locals().get(fi.qualname)
    if not b:
        return None
    cur = local_names(_strip(fi.node))
    old = b.get("locals", [])
    if baseline_name not in old:
        return None
    if b.get("shape") == shape_hash(fi.node):
        if len(cur) != len(old):
            return None
        return cur[old.index(baseline_name)], True
    gone = [n for n in old if n not in cur]
    new = [n for n in cur if n not in old]
    if baseline_name in gone and gone.index(baseline_name) < len(new):
        return new[gone.index(baseline_name)], False
    return None


def current_name(fi: "FuncInfo", baseline_name: str):
    """(name, exact?) of the local the specification calls `baseline_name` in the function as it is now"""
    cur = local_names(_strip(fi.node))
    b = baseline_locals().get(fi.qualname)
    if baseline_name in cur and (not b or baseline_name in b.get("locals", [])) and (not b or b.get("shape") == shape_hash(fi.node) or baseline_name in cur):
        return baseline_name, True
    r = alias_of2(fi, baseline_name)
    return r if r is not None else (baseline_name, True)
