"""Symbolic values and container ADTs (z3 terms wrapped in small Python classes).

Containers carry *trusted ADT facts* (see DESIGN 2.3): they are re-assumed for every container value
the executor creates and are never proof goals.
"""
from __future__ import annotations

import itertools
from typing import Dict, List, Optional, Tuple

import z3

Ref = z3.DeclareSort("Ref")
NONE = z3.Const("NONE", Ref)
I, B = z3.IntSort(), z3.BoolSort()
# Strings are *abstract*: an uninterpreted sort, literals are distinct constants, f-strings are
# applications of one uninterpreted "format" symbol per shape (tuple of literal pieces), str(int) is the
# uninterpreted injective `itos`.  z3's sequence solver is never used (it times out on these queries).
S = z3.DeclareSort("Str")
str_nonempty = z3.Function("str_nonempty", S, B)
itos = z3.Function("itos", I, S)
stoi = z3.Function("stoi", S, I)
_LITS = {}
_FMTS = {}


def str_lit(x: str):
    if x not in _LITS:
        import hashlib
        import re as _re

        _LITS[x] = z3.Const("lit_" + _re.sub(r"[^A-Za-z0-9]+", "_", x)[:24] + "_" + hashlib.sha1(x.encode()).hexdigest()[:6], S)
    return _LITS[x]


TRUTHY = z3.Const("is_truthy", z3.ArraySort(Ref, B))


def global_axioms():
    """trusted facts about opaque objects: coroutine objects, coroutine functions and callables passed to
    the pool are truthy (no exotic __bool__/__len__)"""
    x = z3.Const("x!ax", Ref)
    arr = lambda n: z3.Const(n, z3.ArraySort(Ref, B))
    return [z3.ForAll([x], z3.Implies(z3.Or(z3.Select(arr("is_coro"), x), z3.Select(arr("is_corofunc"), x), z3.Select(arr("is_callable"), x)), z3.Select(TRUTHY, x)))]


def string_axioms():
    """trusted facts about strings (DESIGN 11.9): distinct literals are different, str(int) is injective, a
    format whose last hole is str(<non-negative int>) after a non-digit literal is injective in that hole"""
    fs = []
    lits = list(_LITS.items())
    if len(lits) > 1:
        fs.append(z3.Distinct(*[c for _x, c in lits]))
    for x, c in lits:
        fs.append(str_nonempty(c) == z3.BoolVal(len(x) > 0))
    i = z3.Int("i!str")
    fs.append(z3.ForAll([i], stoi(itos(i)) == i))
    fs.append(z3.ForAll([i], str_nonempty(itos(i))))
    for shape, (f, inv) in _FMTS.items():
        if inv is None:
            continue
        vs = [z3.Const(f"h{k}!str", S) for k in range(f.arity())]
        fs.append(z3.ForAll(vs, inv(f(*vs)) == vs[-1]))
    return fs


def str_concat(parts) -> "StrV":
    """parts: python str (literal piece) | StrV.  Canonical form: nested formats are flattened and adjacent
    literal pieces merged, so that equal renderings are syntactically equal terms."""
    flat = []
    for p_ in parts:
        if isinstance(p_, str):
            sub = [p_]
        elif getattr(p_, "parts", None) is not None:
            sub = list(p_.parts)
        else:
            sub = [p_.t]
        for x in sub:
            if isinstance(x, str) and flat and isinstance(flat[-1], str):
                flat[-1] = flat[-1] + x
            elif isinstance(x, str) and x == "":
                continue
            else:
                flat.append(x)
    if len(flat) == 1:
        return StrV(flat[0]) if isinstance(flat[0], str) else StrV(flat[0])
    shape = tuple(x if isinstance(x, str) else None for x in flat)
    holes = [x for x in flat if not isinstance(x, str)]
    if shape not in _FMTS:
        import hashlib
        import re as _re

        readable = "_".join("H" if x is None else _re.sub(r"[^A-Za-z0-9]+", "", x) for x in shape)
        name = "fmt_" + readable + "_" + hashlib.sha1(repr(shape).encode()).hexdigest()[:6]  # SMT-LIB-safe symbol
        f = z3.Function(name, *([S] * len(holes) + [S]))
        inv = None
        if holes and shape[-1] is None and len(shape) >= 2 and isinstance(shape[-2], str) and shape[-2] and not shape[-2][-1].isdigit():
            inv = z3.Function("last_" + name, S, S)
        _FMTS[shape] = (f, inv)
    f, _inv = _FMTS[shape]
    r = StrV(f(*holes))
    r.parts = flat
    r.nonempty = any(isinstance(x, str) and x for x in flat)
    return r

_ctr = itertools.count()


def fresh(prefix: str, sort) -> z3.ExprRef:
    return z3.Const(f"{prefix}!{next(_ctr)}", sort)


def fresh_fn(prefix: str, *sorts):
    return z3.Function(f"{prefix}!{next(_ctr)}", *sorts)


class Unsupported(Exception):
    """construct outside the verified subset -> the check is *undecided* (exit 2), never a violation"""


# ------------------------------------------------------------------------------------------------
class V:
    pass


class IntV(V):
    def __init__(self, t):
        self.t = z3.IntVal(t) if isinstance(t, int) else t

    def __repr__(self):
        return f"IntV({self.t})"


class BoolV(V):
    def __init__(self, t):
        self.t = z3.BoolVal(t) if isinstance(t, bool) else t

    def __repr__(self):
        return f"BoolV({self.t})"


class StrV(V):
    parts = None  # canonical pieces of a format result (python str literals and z3 terms)
    nonempty = None  # python bool when statically known
    lit = None

    def __init__(self, t):
        if isinstance(t, str):
            self.lit = t
            self.nonempty = len(t) > 0
            self.parts = [t]
            t = str_lit(t)
        self.t = t

    def __repr__(self):
        return f"StrV({self.t})"


class RefV(V):
    """an object the code never looks into (task, coroutine, callback, function, user value); may be NONE"""

    def __init__(self, t, tag: str = ""):
        self.t = t
        self.tag = tag

    def __repr__(self):
        return f"RefV({self.t})"


class NoneV(V):
    def __repr__(self):
        return "NoneV"


class OptV(V):
    """Optional[<inner>] for str/int values"""

    def __init__(self, isnone, inner: V):
        self.isnone = isnone
        self.inner = inner


class ExtV(V):
    """extended natural: Fin(k) | Inf  (the semaphore counter may hold math.inf)"""

    def __init__(self, inf, k):
        self.inf = z3.BoolVal(inf) if isinstance(inf, bool) else inf
        self.k = z3.IntVal(k) if isinstance(k, int) else k

    def add(self, d: int) -> "ExtV":
        return ExtV(self.inf, self.k + d)

    def eq_int(self, n):
        return z3.And(z3.Not(self.inf), self.k == n)

    def gt_int(self, n):
        return z3.Or(self.inf, self.k > n)

    def lt_int(self, n):
        return z3.And(z3.Not(self.inf), self.k < n)

    def same(self, o: "ExtV"):
        return z3.And(self.inf == o.inf, z3.Or(self.inf, self.k == o.k))


class TupleV(V):
    def __init__(self, items: List[V]):
        self.items = list(items)


class BytesV(V):
    def __init__(self, s: str):
        self.s = s


class KwV(V):
    """dict with concrete string keys (e.g. the **kw passed to Task.cancel)"""

    def __init__(self, d: Dict[str, V]):
        self.d = dict(d)


class SeqV(V):
    """sequence of symbolic length (tuple parameter, list built in a loop): elements of one layout"""

    def __init__(self, n, arrs: List, layout: "Layout", mutable: bool = False):
        self.n = z3.IntVal(n) if isinstance(n, int) else n
        self.arrs = arrs
        self.layout = layout
        self.mutable = mutable

    def at(self, i) -> V:
        return self.layout.unpack([z3.Select(a, i) for a in self.arrs])

    def append(self, v: V) -> "SeqV":
        ts = self.layout.pack(v)
        return SeqV(self.n + 1, [z3.Store(a, self.n, t) for a, t in zip(self.arrs, ts)], self.layout, self.mutable)

    def facts(self):
        return [self.n >= 0]


class SetV(V):
    def __init__(self, mem, card, layout: "Layout"):
        self.mem, self.card, self.layout = mem, card, layout

    @staticmethod
    def empty(layout: "Layout") -> "SetV":
        (srt,) = layout.sorts()
        return SetV(z3.K(srt, z3.BoolVal(False)), z3.IntVal(0), layout)

    @staticmethod
    def symbolic(prefix: str, layout: "Layout") -> "SetV":
        (srt,) = layout.sorts()
        return SetV(fresh(prefix + "_mem", z3.ArraySort(srt, B)), fresh(prefix + "_card", I), layout)

    def has(self, x):
        return z3.Select(self.mem, x)

    def add(self, x) -> "SetV":
        return SetV(z3.Store(self.mem, x, True), z3.If(self.has(x), self.card, self.card + 1), self.layout)

    def discard(self, x) -> "SetV":
        return SetV(z3.Store(self.mem, x, False), z3.If(self.has(x), self.card - 1, self.card), self.layout)

    def facts(self, idx_terms=()):
        fs = [self.card >= 0]
        for x in idx_terms:
            fs.append(z3.Implies(self.has(x), self.card >= 1))
        return fs

    def qfacts(self):
        (srt,) = self.layout.sorts()
        x = z3.Const("x!set", srt)
        wit = fresh("wit", srt)  # a non-empty container has a member
        return [self.card >= 0, z3.ForAll([x], z3.Implies(z3.Select(self.mem, x), self.card >= 1)), z3.Implies(self.card > 0, z3.Select(self.mem, wit))]


class LockV(V):
    def __init__(self, locked):
        self.locked = z3.BoolVal(locked) if isinstance(locked, bool) else locked


class EventV(V):
    def __init__(self, is_set):
        self.is_set = z3.BoolVal(is_set) if isinstance(is_set, bool) else is_set


class SemV(V):
    """asyncio.Semaphore as the transition system of DESIGN A.1: counter v, granted-not-consumed g,
    pending waiters P, ghost outstanding tokens out."""

    def __init__(self, v: ExtV, g, P, out, ident=None):
        self.v, self.g, self.P, self.out = v, g, P, out
        self.ident = ident  # Ref term naming the object (for map semaphores)

    def locked(self):
        return z3.Or(self.v.eq_int(0), self.P + self.g > 0)


class ObjV(V):
    """instance of an in-repo class with named fields (value semantics, see DESIGN 2.3)"""

    def __init__(self, cls: str, fields: Dict[str, V]):
        self.cls = cls
        self.fields = dict(fields)

    def with_field(self, f: str, v: V) -> "ObjV":
        d = dict(self.fields)
        d[f] = v
        return ObjV(self.cls, d)


class DictV(V):
    """dict as (membership array, ghost cardinality, optional insertion stamps, value columns)."""

    def __init__(self, ksort, layout: "Layout", mem, card, cols, stamp=None, nstamp=None):
        self.ksort, self.layout, self.mem, self.card, self.cols = ksort, layout, mem, card, cols
        self.stamp, self.nstamp = stamp, nstamp

    @staticmethod
    def empty(ksort, layout: "Layout", ordered: bool = False) -> "DictV":
        cols = [fresh("col0", z3.ArraySort(ksort, s)) for s in layout.sorts()]
        return DictV(ksort, layout, z3.K(ksort, z3.BoolVal(False)), z3.IntVal(0), cols,
                     z3.K(ksort, z3.IntVal(0)) if ordered else None, z3.IntVal(0) if ordered else None)

    @staticmethod
    def symbolic(prefix: str, ksort, layout: "Layout", ordered: bool = False) -> "DictV":
        cols = [fresh(f"{prefix}_c{j}", z3.ArraySort(ksort, s)) for j, s in enumerate(layout.sorts())]
        return DictV(ksort, layout, fresh(prefix + "_mem", z3.ArraySort(ksort, B)), fresh(prefix + "_card", I), cols,
                     fresh(prefix + "_stamp", z3.ArraySort(ksort, I)) if ordered else None,
                     fresh(prefix + "_nstamp", I) if ordered else None)

    def has(self, k):
        return z3.Select(self.mem, k)

    def get(self, k) -> V:
        return self.layout.unpack([z3.Select(c, k) for c in self.cols])

    def store(self, k, v: V) -> "DictV":
        ts = self.layout.pack(v)
        cols = [z3.Store(c, k, t) for c, t in zip(self.cols, ts)]
        isnew = z3.Not(self.has(k))
        st, ns = self.stamp, self.nstamp
        if st is not None:
            st = z3.If(isnew, z3.Store(st, k, ns), st)
            ns = z3.If(isnew, ns + 1, ns)
        return DictV(self.ksort, self.layout, z3.Store(self.mem, k, True), z3.If(isnew, self.card + 1, self.card), cols, st, ns)

    def update_val(self, k, v: V) -> "DictV":
        """write through a handle: key known present; membership/cardinality untouched"""
        ts = self.layout.pack(v)
        cols = [z3.Store(c, k, t) for c, t in zip(self.cols, ts)]
        return DictV(self.ksort, self.layout, self.mem, self.card, cols, self.stamp, self.nstamp)

    def remove(self, k) -> "DictV":
        return DictV(self.ksort, self.layout, z3.Store(self.mem, k, False), z3.If(self.has(k), self.card - 1, self.card),
                     self.cols, self.stamp, self.nstamp)

    def cleared(self) -> "DictV":
        return DictV(self.ksort, self.layout, z3.K(self.ksort, z3.BoolVal(False)), z3.IntVal(0), self.cols, self.stamp, self.nstamp)

    def qfacts(self):
        k = z3.Const("k!dict", self.ksort)
        wit = fresh("wit", self.ksort)  # a non-empty container has a member
        fs = [self.card >= 0, z3.ForAll([k], z3.Implies(z3.Select(self.mem, k), self.card >= 1)), z3.Implies(self.card > 0, z3.Select(self.mem, wit))]
        # values that are sets themselves (dict of sets, dict of registers): the same facts per key
        if isinstance(self.layout, (SetL, RegL)):
            esort = self.layout.esort if isinstance(self.layout, SetL) else I
            x = z3.Const("x!dictset", esort)
            smem, scard = self.cols[0], self.cols[1]
            fs.append(z3.ForAll([k], z3.Select(scard, k) >= 0))
            fs.append(z3.ForAll([k, x], z3.Implies(z3.Select(z3.Select(smem, k), x), z3.Select(scard, k) >= 1)))
        if self.stamp is not None:
            k2 = z3.Const("k2!dict", self.ksort)
            fs.append(z3.ForAll([k], z3.Implies(z3.Select(self.mem, k), z3.And(z3.Select(self.stamp, k) < self.nstamp, z3.Select(self.stamp, k) >= 0))))
            fs.append(z3.ForAll([k, k2], z3.Implies(z3.And(z3.Select(self.mem, k), z3.Select(self.mem, k2), k != k2),
                                                     z3.Select(self.stamp, k) != z3.Select(self.stamp, k2))))
            fs.append(self.nstamp >= 0)
        return fs


class PlaceV(V):
    """write-through handle: a local bound to a mutable value that lives inside a shared component or
    another container (`x = d.setdefault(k, fresh)`, `self._field`)."""

    def __init__(self, root: Tuple[str, str], path: Tuple = ()):
        self.root = root  # ('loc', name) | ('sh', component)
        self.path = tuple(path)  # (('key', term) | ('field', name))*

    def sub(self, step) -> "PlaceV":
        return PlaceV(self.root, self.path + (step,))


class CoroV(V):
    """a coroutine object produced by calling an in-repo async function / a builtin async op; not yet awaited"""

    def __init__(self, kind: str, target, args: Dict[str, V], selfv: Optional[V] = None, extra=None):
        self.kind = kind  # 'repo' | 'builtin'
        self.target = target
        self.args = args
        self.selfv = selfv
        self.extra = extra


class FuncV(V):
    """reference to an in-repo function / method / nested def (closure)"""

    def __init__(self, finfo=None, node=None, selfv=None, env=None, name=""):
        self.finfo, self.node, self.selfv, self.env, self.name = finfo, node, selfv, env, name


class BuiltinV(V):
    def __init__(self, name: str, recv=None):
        self.name, self.recv = name, recv


class ClassV(V):
    def __init__(self, name: str):
        self.name = name


class GenV(V):
    """a generator expression / iterable of items with concrete structure: list of V (static length)"""

    def __init__(self, parts: List[V]):
        self.parts = parts


class StarV(V):
    """*x / **x argument marker"""

    def __init__(self, v: V, stars: int):
        self.v, self.stars = v, stars


# ------------------------------------------------------------------------------------------------
class Layout:
    def sorts(self):
        raise NotImplementedError

    def pack(self, v: V):
        raise NotImplementedError

    def unpack(self, ts) -> V:
        raise NotImplementedError


class IntL(Layout):
    def sorts(self):
        return [I]

    def pack(self, v):
        if not isinstance(v, IntV):
            raise Unsupported(f"expected int value, got {v!r}")
        return [v.t]

    def unpack(self, ts):
        return IntV(ts[0])


class RefL(Layout):
    def sorts(self):
        return [Ref]

    def pack(self, v):
        if isinstance(v, NoneV):
            return [NONE]
        if not isinstance(v, RefV):
            raise Unsupported(f"expected opaque object, got {v!r}")
        return [v.t]

    def unpack(self, ts):
        return RefV(ts[0])


class StrL(Layout):
    def sorts(self):
        return [S]

    def pack(self, v):
        if not isinstance(v, StrV):
            raise Unsupported(f"expected str value, got {v!r}")
        return [v.t]

    def unpack(self, ts):
        return StrV(ts[0])


class SetL(Layout):
    def __init__(self, elem: Layout):
        self.elem = elem
        (self.esort,) = elem.sorts()

    def sorts(self):
        return [z3.ArraySort(self.esort, B), I]

    def pack(self, v):
        if not isinstance(v, SetV):
            raise Unsupported(f"expected set value, got {v!r}")
        return [v.mem, v.card]

    def unpack(self, ts):
        return SetV(ts[0], ts[1], self.elem)


class RegL(Layout):
    """TaskGroupRegister: _ids : set[int], _lock : Lock"""

    def sorts(self):
        return [z3.ArraySort(I, B), I, B]

    def pack(self, v):
        if not (isinstance(v, ObjV) and v.cls == "TaskGroupRegister"):
            raise Unsupported(f"expected TaskGroupRegister, got {v!r}")
        ids, lock = v.fields["_ids"], v.fields["_lock"]
        return [ids.mem, ids.card, lock.locked]

    def unpack(self, ts):
        return ObjV("TaskGroupRegister", {"_ids": SetV(ts[0], ts[1], IntL()), "_lock": LockV(ts[2])})


def truthy(v: V):
    """Python truthiness as a z3 Bool (objects the pool never inspects are truthy unless None)"""
    if isinstance(v, BoolV):
        return v.t
    if isinstance(v, IntV):
        return v.t != 0
    if isinstance(v, StrV):
        if v.nonempty is not None:
            return z3.BoolVal(v.nonempty)
        return str_nonempty(v.t)
    if isinstance(v, RefV):
        # an arbitrary object: None is falsy, anything else *may* be falsy (empty containers returned by pool
        # methods, ...); tasks, coroutines and callables are truthy (global_axioms / invariant)
        return z3.And(v.t != NONE, z3.Select(TRUTHY, v.t))
    if isinstance(v, NoneV):
        return z3.BoolVal(False)
    if isinstance(v, OptV):
        return z3.And(z3.Not(v.isnone), truthy(v.inner))
    if isinstance(v, (SetV, DictV)):
        return v.card != 0
    if isinstance(v, SeqV):
        return v.n != 0
    if isinstance(v, TupleV):
        return z3.BoolVal(len(v.items) > 0)
    if isinstance(v, KwV):
        return z3.BoolVal(len(v.d) > 0)
    if isinstance(v, ObjV) and v.cls == "TaskGroupRegister":
        return v.fields["_ids"].card != 0  # MutableSet.__len__ -> len(self._ids); checked against the real __len__
    if isinstance(v, ExtV):
        return z3.Not(v.eq_int(0))
    if isinstance(v, (FuncV, BuiltinV, ClassV, CoroV)) or type(v).__name__ == "ExcV":
        return z3.BoolVal(True)
    if hasattr(v, "truthy_term"):
        return v.truthy_term()
    raise Unsupported(f"truthiness of {v!r}")
