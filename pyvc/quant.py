"""Obligation discharge: Skolemise with z3's `snf` tactic, instantiate the remaining universals by hand
at the ground index terms of the query (array-property fragment), send a quantifier-free query.

`unsat`  -> discharged (sound: every instance is a consequence of the quantified hypothesis)
`sat`    -> failed, with the model of the instantiated query (candidate counterexample)
`unknown`-> undecided
"""
from __future__ import annotations

import os
import time
from typing import Dict, List, Tuple

import z3

from .sym import Ref

MAX_INST_PER_Q = 4000
ROUNDS = 3


_cv_cache: Dict[int, bool] = {}


def _contains_var(t) -> bool:
    i = t.get_id()
    if i in _cv_cache:
        return _cv_cache[i]
    if z3.is_var(t):
        r = True
    elif z3.is_quantifier(t):
        r = _contains_var(t.body())
    else:
        r = any(_contains_var(c) for c in t.children())
    _cv_cache[i] = r
    return r


def ground_terms(fs: List[z3.ExprRef]) -> Dict[str, Dict[int, z3.ExprRef]]:
    """index-like ground terms by sort name: uninterpreted constants/applications, array reads, and
    whatever occurs in the index position of a read or write"""
    out: Dict[str, Dict[int, z3.ExprRef]] = {}
    seen = set()

    def add(t):
        s = t.sort()
        if s.kind() in (z3.Z3_BOOL_SORT, z3.Z3_ARRAY_SORT) or _contains_var(t):
            return
        out.setdefault(str(s), {})[t.get_id()] = t

    def walk(t):
        if t.get_id() in seen:
            return
        seen.add(t.get_id())
        if z3.is_quantifier(t):
            walk(t.body())
            return
        if not z3.is_app(t):
            return
        for c in t.children():
            walk(c)
        k = t.decl().kind()
        if k in (z3.Z3_OP_SELECT, z3.Z3_OP_STORE):
            add(t.arg(1))
        elif k == z3.Z3_OP_UNINTERPRETED and t.num_args() > 0:
            for a in t.children():
                add(a)

    for f in fs:
        walk(f)
    return out


_hq_cache: Dict[int, Tuple[object, bool]] = {}


def _has_quant(t) -> bool:
    i = t.get_id()
    hit = _hq_cache.get(i)
    if hit is not None and hit[0] is not None and z3.eq(hit[0], t):
        return hit[1]
    r = _has_quant_uncached(t)
    _hq_cache[i] = (t, r)
    return r


def _has_quant_uncached(t) -> bool:
    todo, seen = [t], set()
    while todo:
        x = todo.pop()
        if x.get_id() in seen:
            continue
        seen.add(x.get_id())
        if z3.is_quantifier(x):
            return True
        todo.extend(x.children())
    return False


MAX_TERMS_PER_SORT = 24

_UF = {}


def _uf(name, *sorts):
    key = (name,) + tuple(str(x) for x in sorts)
    if key not in _UF:
        _UF[key] = z3.Function(name, *sorts)
    return _UF[key]


def abstract_strings(fs: List[z3.ExprRef]) -> List[z3.ExprRef]:
    """replace string *operations* (concat, int->str, length, ...) by uninterpreted functions (congruence is
    kept, their theory is forgotten): a weakening, so `unsat` remains a proof; it keeps the quantifier-free
    stage-2 queries out of z3's sequence solver, which times out on them."""
    cache = {}
    seq_ops = {z3.Z3_OP_SEQ_CONCAT: "uf_concat", z3.Z3_OP_INT_TO_STR: "uf_itos", z3.Z3_OP_SEQ_LENGTH: "uf_len", z3.Z3_OP_STR_TO_INT: "uf_stoi",
               z3.Z3_OP_SEQ_PREFIX: "uf_prefix", z3.Z3_OP_SEQ_SUFFIX: "uf_suffix", z3.Z3_OP_SEQ_CONTAINS: "uf_contains"}

    def go(t):
        i = t.get_id()
        if i in cache:
            return cache[i]
        if not z3.is_app(t) or t.num_args() == 0:
            r = t
        else:
            ch = [go(c) for c in t.children()]
            k = t.decl().kind()
            if k in seq_ops:
                if k == z3.Z3_OP_SEQ_CONCAT and len(ch) > 2:
                    r = ch[0]
                    for c in ch[1:]:
                        r = _uf("uf_concat", r.sort(), c.sort(), t.sort())(r, c)
                else:
                    r = _uf(seq_ops[k], *([c.sort() for c in ch] + [t.sort()]))(*ch)
            else:
                try:
                    r = t.decl()(*ch)
                except z3.Z3Exception:
                    r = t
        cache[i] = r
        return r

    return [go(f) for f in fs]


class _Grounder:
    """F  |->  quantifier-free F' with:  F satisfiable  =>  F' satisfiable   (so `F' unsat` proves `F unsat`).

    Polarity-aware: a universal in positive position (existential in negative position) is replaced by its
    instances at the ground index terms collected so far; an existential in positive position (universal in
    negative position) is Skolemised with constants that are fresh for the *instantiated* context (enclosing
    universals have already been instantiated top-down, so no Skolem functions are needed).  Boolean `==` / `ite`
    over sub-formulas that contain quantifiers are first expanded into implications."""

    def __init__(self, stats):
        self.stats = stats
        self.terms: Dict[str, Dict[int, z3.ExprRef]] = {}
        self.skolems: Dict[tuple, list] = {}

    def cands(self, sorts):
        return [list(self.terms.get(str(srt), {}).values()) for srt in sorts]

    def ground(self, t, pos: bool):
        if not _has_quant(t):
            return t
        if z3.is_quantifier(t):
            n = t.num_vars()
            sorts = [t.var_sort(i) for i in range(n)]
            universal_here = t.is_forall() == pos  # behaves like a universal in the satisfiability problem
            body = t.body()
            if universal_here:
                cands = self.cands(sorts)
                total = 1
                for c in cands:
                    total *= max(len(c), 1)
                if total > MAX_INST_PER_Q or not all(cands):
                    self.stats["skipped_quantifiers"] += 1
                    return z3.BoolVal(True) if pos else z3.BoolVal(False)
                import itertools

                insts = []
                for combo in itertools.product(*cands):
                    insts.append(self.ground(z3.substitute_vars(body, *reversed(combo)), pos))
                self.stats["instances"] += len(insts)
                return z3.And(insts) if pos else z3.Or(insts)
            key = (t.get_id(), pos)
            if key not in self.skolems:
                self.skolems[key] = (t, [z3.FreshConst(srt, "sk") for srt in sorts])
            consts = self.skolems[key][1]
            return self.ground(z3.substitute_vars(body, *reversed(consts)), pos)
        k = t.decl().kind()
        ch = t.children()
        if k == z3.Z3_OP_NOT:
            return z3.Not(self.ground(ch[0], not pos))
        if k == z3.Z3_OP_AND:
            return z3.And([self.ground(c, pos) for c in ch])
        if k == z3.Z3_OP_OR:
            return z3.Or([self.ground(c, pos) for c in ch])
        if k == z3.Z3_OP_IMPLIES:
            return z3.Implies(self.ground(ch[0], not pos), self.ground(ch[1], pos))
        if k in (z3.Z3_OP_EQ, z3.Z3_OP_IFF) and ch[0].sort().kind() == z3.Z3_BOOL_SORT:
            a, b = ch
            return self.ground(z3.And(z3.Implies(a, b), z3.Implies(b, a)), pos)
        if k == z3.Z3_OP_ITE and t.sort().kind() == z3.Z3_BOOL_SORT:
            c, a, b = ch
            return self.ground(z3.And(z3.Implies(c, a), z3.Implies(z3.Not(c), b)), pos)
        if k == z3.Z3_OP_XOR:
            a, b = ch
            return self.ground(z3.Not(a == b), pos)
        raise RuntimeError(f"quantifier below unsupported operator {t.decl().name()}")


def prepare(hyps: List[z3.ExprRef], goal: z3.ExprRef) -> Tuple[List[z3.ExprRef], dict]:
    """returns quantifier-free assertions whose unsatisfiability proves hyps |= goal"""
    stats = {"instances": 0, "skipped_quantifiers": 0, "rounds": 0}
    fs = list(hyps) + [z3.Not(goal)]
    gr = _Grounder(stats)
    cur = [f for f in fs if not _has_quant(f)]
    qs = [f for f in fs if _has_quant(f)]
    out = list(cur)
    for _r in range(ROUNDS):
        stats["rounds"] += 1
        found = ground_terms(out + qs)
        grew = False
        for srt, d in found.items():
            have = gr.terms.setdefault(srt, {})
            for k, v in d.items():
                if k not in have and len(have) < MAX_TERMS_PER_SORT:
                    have[k] = v
                    grew = True
        if not grew and _r > 0:
            break
        stats["instances"] = 0
        out = cur + [gr.ground(q, True) for q in qs]
    stats["terms"] = {k: len(v) for k, v in gr.terms.items()}
    return out, stats


NATIVE_MS = 120000  # stage 1 is bounded by the number of instances (deterministic), not by time
QI_MAX = int(os.environ.get("VERIF_QI_MAX", "8000"))
STAGE2_RLIMIT = int(os.environ.get("VERIF_STAGE2_RLIMIT", "40000000"))
# z3's auto-configuration picks, for queries with integer-bound quantifiers, a strategy that does not return on *satisfiable*
# queries before the timeout (a trivial `ForAll i. stoi(itos(i)) == i` alone spins for the full 30 s); with auto_config off
# E-matching ends at once with "incomplete quantifiers".  Verdicts of all obligations of the unchanged tree are identical in
# both modes (compared on 2026-10-04); failing obligations are decided ~10x faster.
NO_AUTOCONFIG = os.environ.get("VERIF_NO_AUTOCONFIG", "1") == "1"


def check(hyps: List[z3.ExprRef], goal: z3.ExprRef, timeout_ms: int = 10000, allow_stage2: bool = True, skip_stage1: bool = False):
    """-> (verdict, model_or_None, stats)   verdict in {'unsat','sat','unknown'}

    1. z3 with E-matching only and a bound on the number of instances: `unsat` is a proof; anything
       else only means "not proved this way" (z3 gives up quickly instead of looping).
    2. instantiation by hand at the index terms of the query, quantifier-free query: `unsat` is still a
       proof; `sat` is a counterexample of the instantiated hypotheses - the obligation is *failed* and
       the model is reported; `unknown` stays undecided."""
    t0 = time.time()
    stats = {"backend": "z3-ematching"}
    if not skip_stage1:
        s = z3.Solver()
        s.set("timeout", NATIVE_MS)
        s.set("smt.mbqi", False)
        s.set("smt.qi.max_instances", QI_MAX)
        if NO_AUTOCONFIG:
            s.set("auto_config", False)
        for h in hyps:
            s.add(h)
        s.add(z3.Not(goal))
        r = s.check()
        stats["ms"] = int((time.time() - t0) * 1000)
        if r == z3.unsat:
            return "unsat", None, stats
        if r == z3.sat:
            return "sat", s.model(), stats
        stats["native_reason"] = s.reason_unknown()
    if not allow_stage2:
        stats["reason"] = "not proved by bounded E-matching; stage-2 budget of this unit exhausted"
        return "unknown", None, stats
    # stage 1b: the same with a ten times larger instance bound (guards against a verdict that flips on a
    # harmless edit because a proof needs a few more instances)
    s = z3.Solver()
    s.set("rlimit", STAGE2_RLIMIT)  # deterministic budget; the timeout is a backstop only
    s.set("timeout", 120000)
    s.set("smt.mbqi", False)
    s.set("smt.qi.max_instances", QI_MAX * 10)
    if NO_AUTOCONFIG:
        s.set("auto_config", False)
    for h in hyps:
        s.add(h)
    s.add(z3.Not(goal))
    if s.check() == z3.unsat:
        stats["backend"] = "z3-ematching-x10"
        stats["ms"] = int((time.time() - t0) * 1000)
        return "unsat", None, stats
    fs, st2 = prepare(hyps, goal)
    fs = abstract_strings(fs)
    stats.update(st2)
    stats["backend"] = "z3-manual-instantiation"
    s = z3.Solver()
    # the budget of the quantifier-free query is a *resource* limit (deterministic, independent of machine load); the
    # wall-clock timeout is only a backstop ten times larger than what the limit corresponds to on an idle machine
    s.set("rlimit", STAGE2_RLIMIT)
    s.set("timeout", max(timeout_ms * 10, 60000))
    for f in fs:
        s.add(f)
    r = s.check()
    stats["ms"] = int((time.time() - t0) * 1000)
    stats["assertions"] = len(fs)
    try:
        stats["rlimit_used"] = [v for k, v in s.statistics() if k == "rlimit count"][0]
    except Exception:
        pass
    if r == z3.unsat:
        return "unsat", None, stats
    if r == z3.sat:
        return "sat", s.model(), stats
    stats["reason"] = s.reason_unknown()
    return "unknown", None, stats


def to_smt2(hyps, goal) -> str:
    s = z3.Solver()
    for h in hyps:
        s.add(h)
    s.add(z3.Not(goal))
    return s.to_smt2()
