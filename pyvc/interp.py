"""Symbolic executor for the Python subset of DESIGN 2.2 over the real AST of /repo.

Path-by-path execution; every statement maps a state to a list of (state, Exit).  The executor is
parameterised by a *theory* object (spec side) that gives meaning to opaque objects (tasks, user
callables, semaphores, gather, ...) and to observation points.
"""
from __future__ import annotations

import ast
from typing import Callable, Dict, List, Optional, Tuple

import z3

from . import sym
from .front import FuncInfo, Repo
from .sym import (B, I, NONE, S, BoolV, BuiltinV, BytesV, ClassV, CoroV, DictV, EventV, ExtV, FuncV, GenV, IntL, IntV, KwV,
                  LockV, NoneV, ObjV, OptV, PlaceV, Ref, RefL, RefV, SemV, SeqV, SetV, StarV, StrL, StrV, TupleV, Unsupported, V,
                  fresh, truthy)


# ------------------------------------------------------------------------------------------------
class Exit:
    NORMAL, RETURN, RAISE, BREAK, CONTINUE = "normal", "return", "raise", "break", "continue"

    def __init__(self, kind: str, val=None):
        self.kind, self.val = kind, val

    def __repr__(self):
        return f"Exit({self.kind},{self.val})"


NORMAL = Exit(Exit.NORMAL)


class ExcV(V):
    """exception value: class name (resolved against the real hierarchy) + constructor args"""

    def __init__(self, cls: str, args: List[V] = (), ref=None):
        self.cls, self.args, self.ref = cls, list(args), ref

    def __repr__(self):
        return f"ExcV({self.cls})"


class SliceV(V):
    def __init__(self, lower, upper, step):
        self.lower, self.upper, self.step = lower, upper, step


class CollV(V):
    """an unordered collection of opaque objects given by a membership predicate (d.values(), a set,
    a generator expression over them): what `gather(*...)` receives"""

    def __init__(self, pred: Callable, desc: str):
        self.pred, self.desc = pred, desc


class Obligation:
    def __init__(self, name: str, hyps: List, goal, props, path: str, meta=None):
        self.name, self.hyps, self.goal, self.props, self.path = name, hyps, goal, tuple(props), path
        self.meta = meta or {}
        self.verdict = None
        self.model = None
        self.stats = None


class St:
    """symbolic state of one path"""

    def __init__(self):
        self.loc: Dict[str, V] = {}
        self.sh: Dict[str, V] = {}
        self.pc: List = []  # assumptions (may be quantified)
        self.trace: List[tuple] = []  # events
        self.tags: List[str] = []  # branch decisions, for naming/debugging
        self.me = None  # Ref term of the executing thread
        self.aux: Dict[str, object] = {}  # theory-private per-path data

    def fork(self) -> "St":
        s = St()
        s.loc, s.sh, s.pc, s.trace, s.tags, s.me = dict(self.loc), dict(self.sh), list(self.pc), list(self.trace), list(self.tags), self.me
        s.aux = dict(self.aux)
        return s

    def assume(self, f) -> "St":
        self.pc.append(f)
        return self


class Frame:
    """one function activation"""

    def __init__(self, finfo: Optional[FuncInfo], module: str, selfv: Optional[V], depth: int, node=None, env: Optional[Dict] = None, qual: str = "", parent=None):
        self.finfo, self.module, self.selfv, self.depth = finfo, module, selfv, depth
        self.parent = parent
        self.node = node if node is not None else (finfo.node if finfo else None)
        self.env = env  # closure environment (captured by reference: a dict shared with the definer)
        self.qual = qual or (finfo.qualname if finfo else "?")
        self.loop_no = 0
        self.await_no = 0
        self.saved_loc = None
        self._ord = None

    def stack(self) -> List[str]:
        out, f = [], self
        while f is not None:
            out.append(f.qual)
            f = f.parent
        return out

    def ordinal(self, node) -> int:
        """static, source-order ordinal of a loop / await node within this function (nested defs excluded)"""
        if self._ord is None:
            self._ord = {}
            counters = {"loop": 0, "await": 0}

            def visit(n, top):
                if not top and isinstance(n, (ast.FunctionDef, ast.AsyncFunctionDef, ast.Lambda, ast.ClassDef)):
                    return
                if isinstance(n, (ast.For, ast.While, ast.AsyncFor)):
                    counters["loop"] += 1
                    self._ord[id(n)] = counters["loop"]
                if isinstance(n, ast.Await):
                    counters["await"] += 1
                    self._ord[id(n)] = counters["await"]
                for c in ast.iter_child_nodes(n):
                    visit(c, False)

            visit(self.node, True)
        return self._ord.get(id(node), 0)


class SelfV(V):
    """the object `self` of the class under verification; its fields are the shared components st.sh"""

    def __init__(self, cls: str):
        self.cls = cls


class LoopSpec:
    def __init__(self, inv: Callable, props=(), variant=None, name="", sig=None):
        self.inv, self.props, self.variant, self.name = inv, props, variant, name
        self.sig = sig  # optional structural anchor: source text of the iterated expression / loop test


MAX_DEPTH = 6
VALEQ = z3.Function("value_equal", Ref, Ref, z3.BoolSort())  # `a == b` for two distinct opaque objects (uninterpreted)


class Interp:
    def __init__(self, repo: Repo, theory):
        self.repo = repo
        self.theory = theory
        theory.ip = self
        self.obligations: List[Obligation] = []
        self.collect = True
        self.contracts: Dict[str, Callable] = {}  # qualname -> apply(ip, st, frame, selfv, args) -> [(st, Exit)]
        self.loopspecs: Dict[Tuple[str, int], LoopSpec] = {}
        self.consts: Dict[str, V] = {}
        self.props_default = ()
        self.unit = ""
        self.feas_checks = 0
        self.stmt_count = 0
        self.seen_constructs = set()

    # -- obligations ---------------------------------------------------------------------------------
    def require(self, st: St, name: str, goal, props=None, meta=None) -> None:
        if not self.collect:
            return
        if st.aux.get("nonfragment"):
            # some hypothesis of this path (a shifted / reversed list, ...) lies outside the array-property fragment for which
            # instantiation at the query's index terms is complete: a counter-model of the instantiated query may be spurious,
            # so it is not reported as a failure (the obligation is then undecided unless it is proved)
            meta = dict(meta or {})
            meta["refutable"] = "0"
            meta["nonfragment"] = str(st.aux["nonfragment"])
        ob = Obligation(f"{self.unit}#{name}" if self.unit else name, list(st.pc), goal, props or self.props_default, "/".join(st.tags), meta)
        self.obligations.append(ob)

    def cover(self, st: St, name: str, props=None) -> None:
        """vacuity guard: this point must be reachable (the hypotheses collected so far must not be contradictory)"""
        if not self.collect:
            return
        ob = Obligation(f"{self.unit}#reach:{name}", list(st.pc), z3.BoolVal(False), props or self.props_default, "/".join(st.tags), {"cover": "1"})
        self.obligations.append(ob)

    def feasible(self, st: St, extra=None) -> bool:
        """sound pruning only: quantifier-free part of the path condition"""
        self.feas_checks += 1
        s = z3.Solver()
        s.set("timeout", 2000)
        for f in st.pc:
            if not _has_quant(f):
                s.add(f)
        if extra is not None:
            s.add(extra)
        return s.check() != z3.unsat

    def branch(self, st: St, cond, tag: str) -> List[Tuple[St, bool]]:
        cond = z3.simplify(cond)
        if z3.is_true(cond):
            return [(st, True)]
        if z3.is_false(cond):
            return [(st, False)]
        out = []
        if self.feasible(st, cond):
            s1 = st.fork().assume(cond)
            s1.tags.append(tag + "+")
            out.append((s1, True))
        if self.feasible(st, z3.Not(cond)):
            s2 = st.fork().assume(z3.Not(cond))
            s2.tags.append(tag + "-")
            out.append((s2, False))
        return out

    # -- places ------------------------------------------------------------------------------------------
    def place_get(self, st: St, p: PlaceV) -> V:
        kind, name = p.root
        v = st.loc[name] if kind == "loc" else st.sh[name]
        for step in p.path:
            v = self._child(v, step)
        return v

    def place_set(self, st: St, p: PlaceV, newv: V) -> None:
        kind, name = p.root
        root = st.loc[name] if kind == "loc" else st.sh[name]

        def rebuild(v, path, nv):
            if not path:
                return nv
            step = path[0]
            child = self._child(v, step)
            return self._with_child(v, step, rebuild(child, path[1:], nv))

        res = rebuild(root, p.path, newv)
        if kind == "loc":
            st.loc[name] = res
        else:
            st.sh[name] = res

    def _child(self, v: V, step) -> V:
        k, x = step
        if k == "key" and isinstance(v, DictV):
            return v.get(x)
        if k == "field" and isinstance(v, ObjV):
            return v.fields[x]
        raise Unsupported(f"place step {step} on {type(v).__name__}")

    def _with_child(self, v: V, step, nv: V) -> V:
        k, x = step
        if k == "key" and isinstance(v, DictV):
            return v.update_val(x, nv)
        if k == "field" and isinstance(v, ObjV):
            return v.with_field(x, nv)
        raise Unsupported(f"place step {step} on {type(v).__name__}")

    def deref(self, st: St, v: V) -> V:
        return self.place_get(st, v) if isinstance(v, PlaceV) else v

    MUTABLE_EXTRA: tuple = ()

    @staticmethod
    def is_mutable(v: V) -> bool:
        return isinstance(v, (DictV, SetV, ObjV, SemV, LockV, EventV) + Interp.MUTABLE_EXTRA) or (isinstance(v, SeqV) and v.mutable)

    # -- name resolution -------------------------------------------------------------------------------
    def lookup(self, st: St, fr: Frame, name: str) -> V:
        if name in st.loc:
            return st.loc[name]
        if fr.env is not None and name in fr.env:
            return fr.env[name]
        if name == "self" and fr.selfv is not None:
            return fr.selfv
        if name in self.consts:
            return self.consts[name]
        for mod in (fr.module,) + tuple(self.repo.modules):
            q = f"{mod}.{name}"
            if q in self.repo.functions:
                return FuncV(finfo=self.repo.functions[q], name=name)
        if name in self.repo.classes:
            return ClassV(name)
        if name in self.repo.exc:
            return ClassV(name)
        c = self.repo.consts.get(fr.module, {})
        for modconsts in (c, self.repo.consts.get("constants", {})):
            if name in modconsts:
                return self.lit(modconsts[name])
        return BuiltinV(name)

    def lit(self, x) -> V:
        if x is None:
            return NoneV()
        if isinstance(x, bool):
            return BoolV(x)
        if isinstance(x, int):
            return IntV(x)
        if isinstance(x, str):
            return StrV(x)
        if isinstance(x, bytes):
            return BytesV(x.decode())
        if isinstance(x, tuple):
            return TupleV([self.lit(e) for e in x])
        raise Unsupported(f"literal {x!r}")

    # ======================================================================================================
    # expressions: eval -> list of (st, V | Exit(raise))
    # ======================================================================================================
    def ev(self, st: St, fr: Frame, e: ast.AST) -> List[Tuple[St, object]]:
        m = getattr(self, "ev_" + type(e).__name__, None)
        if m is None:
            raise Unsupported(f"expression {type(e).__name__} in {fr.qual}")
        self.seen_constructs.add(type(e).__name__)
        return m(st, fr, e)

    def ev_seq(self, st: St, fr: Frame, es: List[ast.AST]) -> List[Tuple[St, object]]:
        """evaluate a list of expressions left to right -> (st, [values]) or (st, Exit)"""
        results = [(st, [])]
        for e in es:
            nxt = []
            for s, vals in results:
                if isinstance(vals, Exit):
                    nxt.append((s, vals))
                    continue
                for s2, v in self.ev(s, fr, e):
                    nxt.append((s2, v if isinstance(v, Exit) else vals + [v]))
            results = nxt
        return results

    def ev_Constant(self, st, fr, e):
        return [(st, self.lit(e.value))]

    def ev_Name(self, st, fr, e):
        v = self.lookup(st, fr, e.id)
        if isinstance(v, OptV):
            # narrow an Optional whose None-ness is already decided on this path
            if not self.feasible(st, v.isnone):
                v = v.inner
            elif not self.feasible(st, z3.Not(v.isnone)):
                v = NoneV()
        return [(st, v)]

    def ev_Tuple(self, st, fr, e):
        return [(s, vs if isinstance(vs, Exit) else TupleV(vs)) for s, vs in self.ev_seq(st, fr, e.elts)]

    def ev_List(self, st, fr, e):
        if e.elts:
            return [(s, vs if isinstance(vs, Exit) else TupleV(vs)) for s, vs in self.ev_seq(st, fr, e.elts)]
        return self.theory.empty_list(st, fr, getattr(fr, "hint", None))

    def ev_Dict(self, st, fr, e):
        if not e.keys:
            return self.theory.empty_dict(st, fr, getattr(fr, "hint", None))
        keys = []
        for k in e.keys:
            if not (isinstance(k, ast.Constant) and isinstance(k.value, str)):
                if isinstance(k, ast.Attribute) or isinstance(k, ast.Name) or k is None:
                    return self.theory.ev_dict_display(st, fr, e)
                raise Unsupported("dict display with non-literal keys")
            keys.append(k.value)
        return [(s, vs if isinstance(vs, Exit) else KwV(dict(zip(keys, vs)))) for s, vs in self.ev_seq(st, fr, e.values)]

    def ev_JoinedStr(self, st, fr, e):
        parts = []
        for v in e.values:
            parts.append(v.value if isinstance(v, ast.FormattedValue) else v)
        out = []
        for s, vs in self.ev_seq(st, fr, parts):
            if isinstance(vs, Exit):
                out.append((s, vs))
                continue
            res = [(s, [])]
            for v in vs:
                nxt = []
                for s2, acc in res:
                    if isinstance(acc, Exit):
                        nxt.append((s2, acc))
                        continue
                    for s3, sv in self.to_str(s2, fr, v):
                        nxt.append((s3, sv if isinstance(sv, Exit) else acc + [sv]))
                res = nxt
            for s2, acc in res:
                if isinstance(acc, Exit):
                    out.append((s2, acc))
                else:
                    out.append((s2, sym.str_concat(acc)))
        return out

    def to_str(self, st: St, fr: Frame, v: V) -> List[Tuple[St, object]]:
        v = self.deref(st, v)
        if isinstance(v, StrV):
            return [(st, v)]
        if isinstance(v, IntV):
            return [(st, StrV(sym.itos(v.t)))]
        if isinstance(v, SelfV):
            fi = self.repo.find_method(v.cls, "__str__")
            if fi is None:
                return [(st, StrV(fresh("objstr", S)))]
            return self.call_repo(st, fr, fi, v, [], {})
        if isinstance(v, OptV):
            if self.feasible(st, v.isnone) and self.feasible(st, z3.Not(v.isnone)):
                return [(st, StrV(fresh("optstr", sym.S)))]
            return self.to_str(st, fr, self.unwrap_opt(st, v))
        if isinstance(v, (ExtV, BoolV, NoneV, TupleV, KwV, SeqV, SetV, DictV, BytesV)):
            # str() of a number / container: some string (only identity of renderings of ints and strs is modelled)
            return [(st, StrV(fresh("rendered", sym.S)))]
        return self.theory.to_str(st, fr, v)

    def unwrap_opt(self, st: St, v: V) -> V:
        """use of an Optional value where the path condition already excludes None"""
        if isinstance(v, OptV):
            if self.feasible(st, v.isnone):
                raise Unsupported("possibly-None value used as a value")
            return v.inner
        return v

    def ev_BoolOp(self, st, fr, e):
        # short-circuit, value semantics (`a or b` returns an operand)
        def go(s, idx):
            out = []
            for s2, v in self.ev(s, fr, e.values[idx]):
                if isinstance(v, Exit) or idx == len(e.values) - 1:
                    out.append((s2, v))
                    continue
                t = truthy(self.deref(s2, v))
                for s3, b in self.branch(s2, t, "bool"):
                    stop = b if isinstance(e.op, ast.Or) else (not b)
                    if stop:
                        out.append((s3, v))
                    else:
                        out.extend(go(s3, idx + 1))
            return out

        return go(st, 0)

    def ev_UnaryOp(self, st, fr, e):
        out = []
        for s, v in self.ev(st, fr, e.operand):
            if isinstance(v, Exit):
                out.append((s, v))
            elif isinstance(e.op, ast.Not):
                out.append((s, BoolV(z3.Not(truthy(self.deref(s, v))))))
            elif isinstance(e.op, ast.USub) and isinstance(v, IntV):
                out.append((s, IntV(-v.t)))
            else:
                raise Unsupported("unary op")
        return out

    def ev_BinOp(self, st, fr, e):
        out = []
        for s, vs in self.ev_seq(st, fr, [e.left, e.right]):
            if isinstance(vs, Exit):
                out.append((s, vs))
                continue
            a, b = (self.deref(s, x) for x in vs)
            out.append((s, self.binop(s, e.op, a, b)))
        return out

    def binop(self, st, op, a: V, b: V) -> V:
        if isinstance(a, IntV) and isinstance(b, IntV):
            if isinstance(op, ast.Add):
                return IntV(a.t + b.t)
            if isinstance(op, ast.Sub):
                return IntV(a.t - b.t)
            if isinstance(op, ast.Mult):
                return IntV(a.t * b.t)
        if isinstance(a, ExtV) and isinstance(b, IntV) and isinstance(op, (ast.Add, ast.Sub)):
            return ExtV(a.inf, a.k + b.t if isinstance(op, ast.Add) else a.k - b.t)
        if isinstance(a, StrV) and isinstance(b, StrV) and isinstance(op, ast.Add):
            return sym.str_concat([a, b])
        if isinstance(a, StrV) and isinstance(b, IntV) and isinstance(op, ast.Mult):
            return StrV(fresh("repeated", sym.S))
        return self.theory.binop(st, op, a, b)

    def ev_Compare(self, st, fr, e):
        if len(e.ops) != 1:
            raise Unsupported("chained comparison")
        out = []
        for s, vs in self.ev_seq(st, fr, [e.left, e.comparators[0]]):
            if isinstance(vs, Exit):
                out.append((s, vs))
                continue
            out.extend(self.compare(s, fr, e.ops[0], vs[0], vs[1]))
        return out

    def compare(self, st, fr, op, a: V, b: V) -> List[Tuple[St, object]]:
        a, b = self.deref(st, a), self.deref(st, b)
        if isinstance(op, (ast.Is, ast.IsNot, ast.Eq, ast.NotEq)):
            neg = isinstance(op, (ast.IsNot, ast.NotEq))
            t = self.equal(st, a, b, identity=isinstance(op, (ast.Is, ast.IsNot)))
            return [(st, BoolV(z3.Not(t) if neg else t))]
        if isinstance(op, (ast.Lt, ast.LtE, ast.Gt, ast.GtE)):
            if isinstance(a, IntV) and isinstance(b, IntV):
                t = {ast.Lt: a.t < b.t, ast.LtE: a.t <= b.t, ast.Gt: a.t > b.t, ast.GtE: a.t >= b.t}[type(op)]
                return [(st, BoolV(t))]
            if isinstance(a, ExtV) and isinstance(b, IntV):
                t = {ast.Lt: a.lt_int(b.t), ast.LtE: z3.Or(a.lt_int(b.t), a.eq_int(b.t)), ast.Gt: a.gt_int(b.t),
                     ast.GtE: z3.Or(a.gt_int(b.t), a.eq_int(b.t))}[type(op)]
                return [(st, BoolV(t))]
            raise Unsupported(f"ordering of {type(a).__name__},{type(b).__name__}")
        if isinstance(op, (ast.In, ast.NotIn)):
            res = self.contains(st, fr, b, a)
            if isinstance(op, ast.NotIn):
                res = [(s, v if isinstance(v, Exit) else BoolV(z3.Not(v.t))) for s, v in res]
            return res
        raise Unsupported("comparison op")

    def equal(self, st, a: V, b: V, identity=False):
        if isinstance(a, NoneV) and isinstance(b, NoneV):
            return z3.BoolVal(True)
        for x, y in ((a, b), (b, a)):
            if isinstance(y, NoneV):
                if isinstance(x, RefV):
                    return x.t == NONE
                if isinstance(x, OptV):
                    return x.isnone
                if isinstance(x, (IntV, StrV, BoolV, ExtV, TupleV, SeqV, DictV, SetV, KwV, ObjV, FuncV, SelfV, ExcV, ClassV, BuiltinV)):
                    return z3.BoolVal(False)
        if isinstance(a, IntV) and isinstance(b, IntV):
            return a.t == b.t
        if isinstance(a, BoolV) and isinstance(b, BoolV):
            return a.t == b.t
        if isinstance(a, StrV) and isinstance(b, StrV):
            return a.t == b.t
        if isinstance(a, RefV) and isinstance(b, RefV):
            if identity:
                return a.t == b.t
            # `==` on objects the code does not look into: identical objects are equal, distinct ones MAY compare equal
            # (e.g. two equal strings); `is` is exact
            return z3.Or(a.t == b.t, VALEQ(a.t, b.t), VALEQ(b.t, a.t))
        if isinstance(a, ExtV) and isinstance(b, IntV):
            return a.eq_int(b.t)
        if isinstance(a, ExtV) and isinstance(b, ExtV):
            return a.same(b)
        if isinstance(a, OptV) and isinstance(b, OptV):
            return z3.Or(z3.And(a.isnone, b.isnone), z3.And(z3.Not(a.isnone), z3.Not(b.isnone), self.equal(st, a.inner, b.inner)))
        if isinstance(a, OptV):
            return z3.And(z3.Not(a.isnone), self.equal(st, a.inner, b))
        if isinstance(b, OptV):
            return z3.And(z3.Not(b.isnone), self.equal(st, a, b.inner))
        return self.theory.equal(st, a, b, identity)

    def contains(self, st, fr, container: V, item: V) -> List[Tuple[St, object]]:
        c = self.deref(st, container)
        if isinstance(c, DictV):
            return [(st, BoolV(c.has(self.key_term(c, item))))]
        if isinstance(c, SetV):
            return [(st, BoolV(c.has(c.layout.pack(item)[0])))]
        if isinstance(c, TupleV):
            return [(st, BoolV(z3.Or([self.equal(st, item, x) for x in c.items]) if c.items else z3.BoolVal(False)))]
        if isinstance(c, ObjV):
            fi = self.repo.find_method(c.cls, "__contains__")
            if fi is not None:
                return self.call_repo(st, fr, fi, container if isinstance(container, PlaceV) else c, [item], {})
        return self.theory.contains(st, fr, c, item)

    def key_term(self, d: DictV, k: V):
        if d.ksort == I and isinstance(k, IntV):
            return k.t
        if d.ksort == S and isinstance(k, StrV):
            return k.t
        if d.ksort == Ref and isinstance(k, RefV):
            return k.t
        raise Unsupported(f"dict key {k!r} for key sort {d.ksort}")

    def ev_IfExp(self, st, fr, e):
        out = []
        for s, c in self.ev(st, fr, e.test):
            if isinstance(c, Exit):
                out.append((s, c))
                continue
            for s2, b in self.branch(s, truthy(self.deref(s, c)), "ifexp"):
                out.extend(self.ev(s2, fr, e.body if b else e.orelse))
        return out

    def ev_Attribute(self, st, fr, e):
        out = []
        if isinstance(e.value, ast.Name) and e.value.id in st.loc and self.is_mutable(st.loc[e.value.id]):
            return self.getattr(st, fr, PlaceV(("loc", e.value.id)), e.attr)
        for s, v in self.ev(st, fr, e.value):
            if isinstance(v, Exit):
                out.append((s, v))
            else:
                out.extend(self.getattr(s, fr, v, e.attr))
        return out

    def getattr(self, st, fr, v: V, attr: str) -> List[Tuple[St, object]]:
        if isinstance(v, SelfV):
            if attr in st.sh:
                comp = st.sh[attr]
                return [(st, PlaceV(("sh", attr)) if self.is_mutable(comp) else comp)]
            pg = self.repo.find_prop(v.cls, attr)
            if pg is not None:
                return self.call_repo(st, fr, pg, v, [], {})
            fi = self.repo.find_method(v.cls, attr)
            if fi is not None:
                return [(st, FuncV(finfo=fi, selfv=v, name=attr))]
            if attr == "__class__":
                return [(st, ClassV(v.cls))]
            return self.theory.self_attr(st, fr, v, attr)
        if isinstance(v, ClassV) and attr == "__name__":
            return [(st, self.theory.class_name(st, v))]
        if isinstance(v, PlaceV):
            inner = self.place_get(st, v)
            if isinstance(inner, ObjV):
                if attr in inner.fields:
                    f = inner.fields[attr]
                    return [(st, v.sub(("field", attr)) if self.is_mutable(f) else f)]
                fi = self.repo.find_method(inner.cls, attr)
                if fi is not None:
                    return [(st, FuncV(finfo=fi, selfv=v, name=attr))]
            if isinstance(inner, SemV) and attr == "_value":
                return [(st, inner.v)]
            hook = getattr(self.theory, "place_attr", None)
            if hook is not None:
                r = hook(st, fr, v, inner, attr)
                if r is not None:
                    return r
            return [(st, BuiltinV(attr, recv=v))]
        if isinstance(v, ObjV):
            # detached object held in a local: should have been wrapped as a local place by ev_Name callers
            raise Unsupported(f"attribute {attr} on detached object value")
        if isinstance(v, (RefV, ExcV, CoroV, FuncV, TupleV, SeqV, KwV, StrV, IntV, BytesV, CollV, GenV, BoolV, ClassV)):
            return self.theory.value_attr(st, fr, v, attr)
        return self.theory.value_attr(st, fr, v, attr)

    def ev_Subscript(self, st, fr, e):
        out = []
        for s, vs in self.ev_seq(st, fr, [e.value, e.slice]):
            if isinstance(vs, Exit):
                out.append((s, vs))
                continue
            out.extend(self.subscript(s, fr, vs[0], vs[1]))
        return out

    def subscript(self, st, fr, cont: V, key: V) -> List[Tuple[St, object]]:
        c = self.deref(st, cont)
        if isinstance(c, DictV):
            k = self.key_term(c, key)
            out = []
            for s, b in self.branch(st, c.has(k), "getitem"):
                if b:
                    val = c.get(k)
                    if self.is_mutable(val) and isinstance(cont, PlaceV):
                        out.append((s, cont.sub(("key", k))))
                    else:
                        out.append((s, val))
                else:
                    out.append((s, Exit(Exit.RAISE, ExcV("KeyError", [key]))))
            return out
        if isinstance(c, TupleV) and isinstance(key, IntV) and z3.is_int_value(z3.simplify(key.t)):
            return [(st, c.items[z3.simplify(key.t).as_long()])]
        if isinstance(c, SeqV) and isinstance(key, IntV):
            return [(st, c.at(key.t))]
        if isinstance(c, SeqV) and isinstance(key, SliceV) and key.lower is None and key.step is None and isinstance(key.upper, IntV):
            # seq[:u]  (Python: u >= 0 -> the first min(u, n) elements; u < 0 -> the first max(n + u, 0) elements); a new list
            u, n = key.upper.t, c.n
            m = z3.If(u >= 0, z3.If(u < n, u, n), z3.If(n + u > 0, n + u, 0))
            return [(st, SeqV(m, list(c.arrs), c.layout, mutable=c.mutable))]
        if isinstance(c, SeqV) and isinstance(key, SliceV) and key.upper is None and key.step is None and isinstance(key.lower, IntV):
            # seq[a:]  (Python: start = min(a, n) for a >= 0, max(n + a, 0) for a < 0); a new list shifted by `start`
            a, n = key.lower.t, c.n
            start = z3.If(a >= 0, z3.If(a < n, a, n), z3.If(n + a > 0, n + a, 0))
            new = [fresh("sliced", x.sort()) for x in c.arrs]
            j = z3.Int("j!slice")
            for a_old, a_new in zip(c.arrs, new):
                st.assume(z3.ForAll([j], z3.Implies(z3.And(0 <= j, j < n - start), z3.Select(a_new, j) == z3.Select(a_old, j + start))))
            st.aux["nonfragment"] = "seq[a:] (shifted copy)"
            return [(st, SeqV(n - start, new, c.layout, mutable=c.mutable))]
        if isinstance(c, KwV) and isinstance(key, StrV) and key.lit is not None:
            ks = key.lit
            if ks in c.d:
                return [(st, c.d[ks])]
            return [(st, Exit(Exit.RAISE, ExcV("KeyError", [key])))]
        return self.theory.subscript(st, fr, c, key)

    def ev_Slice(self, st, fr, e):
        parts = [e.lower, e.upper, e.step]
        present = [x for x in parts if x is not None]
        out = []
        for s, vs in self.ev_seq(st, fr, present):
            if isinstance(vs, Exit):
                out.append((s, vs))
                continue
            it = iter(vs)
            out.append((s, SliceV(*[next(it) if x is not None else None for x in parts])))
        return out

    def ev_Starred(self, st, fr, e):
        return [(s, v if isinstance(v, Exit) else StarV(v, 1)) for s, v in self.ev(st, fr, e.value)]

    def ev_Lambda(self, st, fr, e):
        return [(st, FuncV(node=e, env=self._capture(st, fr), name="<lambda>"))]

    def _capture(self, st, fr):
        return st.loc  # by reference (same dict object for this path)

    def ev_Await(self, st, fr, e):
        out = []
        fr.await_no = fr.ordinal(e)
        for s, v in self.ev(st, fr, e.value):
            if isinstance(v, Exit):
                out.append((s, v))
            else:
                out.extend(self.do_await(s, fr, v, e))
        return out

    def do_await(self, st, fr, v: V, node) -> List[Tuple[St, object]]:
        if isinstance(v, CoroV) and v.kind == "repo":
            return self.run_repo(st, fr, v.target, v.selfv, v.args, awaited=True)
        return self.theory.do_await(st, fr, v, node)

    def ev_Yield(self, st, fr, e):
        """`yield x` in a generator-based awaitable (Future.__await__): a suspension whose meaning the theory gives"""
        hook = getattr(self.theory, "do_yield", None)
        if hook is None:
            raise Unsupported(f"yield in {fr.qual}")
        out = []
        for s, v in (self.ev(st, fr, e.value) if e.value is not None else [(st, NoneV())]):
            if isinstance(v, Exit):
                out.append((s, v))
            else:
                out.extend(hook(s, fr, v, e))
        return out

    def ev_ListComp(self, st, fr, e):
        return self.theory.comprehension(st, fr, e)

    def ev_GeneratorExp(self, st, fr, e):
        return self.theory.comprehension(st, fr, e)

    def ev_Call(self, st, fr, e: ast.Call):
        out = []
        for s, f in self.ev(st, fr, e.func):
            if isinstance(f, Exit):
                out.append((s, f))
                continue
            arg_exprs = list(e.args)
            kw_exprs = [k.value for k in e.keywords]
            for s2, vs in self.ev_seq(s, fr, arg_exprs + kw_exprs):
                if isinstance(vs, Exit):
                    out.append((s2, vs))
                    continue
                pos = vs[: len(arg_exprs)]
                kws: Dict[str, V] = {}
                extra_kw = []
                for k, v in zip(e.keywords, vs[len(arg_exprs):]):
                    if k.arg is None:
                        extra_kw.append(StarV(v, 2))
                    else:
                        kws[k.arg] = v
                out.extend(self.call(s2, fr, f, pos, kws, extra_kw, e))
        return out

    # ======================================================================================================
    # calls
    # ======================================================================================================
    def call(self, st, fr, f: V, pos: List[V], kws: Dict[str, V], extra_kw: List[StarV], node) -> List[Tuple[St, object]]:
        # flatten **KwV
        rest_kw = []
        for sk in extra_kw:
            inner = self.deref(st, sk.v)
            if isinstance(inner, KwV):
                kws = dict(kws)
                kws.update(inner.d)
            elif isinstance(inner, NoneV):
                raise Unsupported("**None")
            else:
                rest_kw.append(sk)
        if isinstance(f, FuncV) and f.finfo is not None:
            if rest_kw:
                # **<symbolic dict> is only accepted by a callee that collects it in its own **kwargs
                kwarg = f.finfo.node.args.kwarg
                if kwarg is None or len(rest_kw) != 1 or kws:
                    raise Unsupported("**opaque into repo function")
                kws = {"**": self.deref(st, rest_kw[0].v)}
            return self.call_repo(st, fr, f.finfo, f.selfv, pos, kws)
        if isinstance(f, FuncV) and f.node is not None:
            hook = getattr(self.theory, "closure_contract", None)
            if hook is not None:
                r = hook(st, fr, f, pos, kws)
                if r is not None:
                    return r
            return self.call_closure(st, fr, f, pos, kws)
        if isinstance(f, ClassV):
            return self.construct(st, fr, f, pos, kws, node)
        if isinstance(f, BuiltinV):
            return self.theory.call_builtin(st, fr, f, pos, kws, rest_kw, node)
        if isinstance(f, RefV):
            return self.theory.call_ref(st, fr, f, pos, kws, rest_kw, node)
        raise Unsupported(f"call of {type(f).__name__}")

    def bind_args(self, st, fdef, pos: List[V], kws: Dict[str, V], has_self: bool, fr_for_defaults: Frame) -> Dict[str, V]:
        a = fdef.args
        params = [p.arg for p in a.posonlyargs + a.args]
        if has_self:
            params = params[1:]
        defaults = a.defaults
        bound: Dict[str, V] = {}
        # expand stars in pos
        flat: List[V] = []
        var_seq: Optional[V] = None
        for p in pos:
            if isinstance(p, StarV):
                inner = self.deref(st, p.v)
                if isinstance(inner, TupleV):
                    flat.extend(inner.items)
                elif a.vararg is not None and len(flat) >= len(params) and (var_seq is not None or any(isinstance(q, StarV) for q in flat[len(params):]) or not isinstance(inner, SeqV)
                                                                              or any(isinstance(q, StarV) for q in pos[pos.index(p) + 1:])):
                    # several / opaque starred pieces collected by the callee's *args: kept as star markers inside the tuple
                    if var_seq is not None:
                        flat.append(StarV(var_seq, 1))
                        var_seq = None
                    flat.append(StarV(inner, 1))
                elif isinstance(inner, SeqV):
                    if a.vararg is not None and len(flat) >= len(params) and var_seq is None:
                        var_seq = inner
                    else:
                        raise Unsupported("*seq into fixed parameters")
                else:
                    raise Unsupported("*opaque into repo function")
            else:
                flat.append(p)
        for name, v in zip(params, flat):
            bound[name] = v
        extra = flat[len(params):]
        if a.vararg is not None:
            if var_seq is not None:
                if extra:
                    raise Unsupported("mixed varargs")
                bound[a.vararg.arg] = var_seq
            else:
                bound[a.vararg.arg] = TupleV(extra)
        elif extra:
            raise Unsupported("too many positional arguments")
        kws = dict(kws)
        for name in params + [p.arg for p in a.kwonlyargs]:
            if name in kws and name not in bound:
                bound[name] = kws.pop(name)
        # defaults
        dpos = params[len(params) - len(defaults):] if defaults else []
        for name, d in zip(dpos, defaults):
            if name not in bound:
                bound[name] = self._default(st, fr_for_defaults, d)
        for p, d in zip(a.kwonlyargs, a.kw_defaults):
            if p.arg not in bound and d is not None:
                bound[p.arg] = self._default(st, fr_for_defaults, d)
        if a.kwarg is not None:
            if "**" in kws:
                bound[a.kwarg.arg] = kws.pop("**")
                if kws:
                    raise Unsupported("mixed explicit and ** keyword arguments")
            else:
                bound[a.kwarg.arg] = KwV(kws)
            kws = {}
        if kws:
            raise Unsupported(f"unexpected keyword arguments {list(kws)}")
        for name in params + [p.arg for p in a.kwonlyargs]:
            if name not in bound:
                raise Unsupported(f"missing argument {name}")
        return bound

    def _default(self, st, fr, d):
        res = self.ev(st, fr, d)
        if len(res) != 1 or isinstance(res[0][1], Exit):
            raise Unsupported("complex default value")
        return res[0][1]

    def call_repo(self, st, fr, fi: FuncInfo, selfv, pos, kws) -> List[Tuple[St, object]]:
        has_self = fi.cls is not None and "staticmethod" not in fi.decorators
        if "classmethod" in fi.decorators and fi.cls is not None:
            has_self = True
        dfr = Frame(fi, fi.module, selfv, fr.depth + 1)
        args = self.bind_args(st, fi.node, pos, kws, has_self, dfr)
        if "classmethod" in fi.decorators and fi.cls is not None:
            first = (fi.node.args.posonlyargs + fi.node.args.args)[0].arg
            args[first] = ClassV(selfv.cls if isinstance(selfv, SelfV) else fi.cls)
        if fi.is_async:
            return [(st, CoroV("repo", fi, args, selfv))]
        return self.run_repo(st, fr, fi, selfv, args, awaited=False)

    def run_repo(self, st, fr, fi: FuncInfo, selfv, args: Dict[str, V], awaited: bool) -> List[Tuple[St, object]]:
        q = fi.qualname
        key = q
        if fi.cls and fi.name in self.repo.classes[fi.cls].props_get and fi is self.repo.classes[fi.cls].props_get[fi.name]:
            key = q + ".getter"
        if fi.cls and fi.name in self.repo.classes[fi.cls].props_set and fi is self.repo.classes[fi.cls].props_set[fi.name]:
            key = q + ".setter"
        if key in self.contracts and fr.qual != "@unit:" + key:
            return self.contracts[key](self, st, fr, selfv, args)
        if fr.depth >= MAX_DEPTH:
            raise Unsupported(f"inlining depth exceeded at {q}")
        return self.exec_function(st, fi, selfv, args, depth=fr.depth + 1, parent=fr)

    def exec_function(self, st: St, fi: FuncInfo, selfv, args: Dict[str, V], depth: int = 0, frame: Optional[Frame] = None, parent=None) -> List[Tuple[St, object]]:
        """run the real body; returns (st, value | Exit(raise)) with the caller's locals restored"""
        fr = frame or Frame(fi, fi.module, selfv, depth, parent=parent)
        saved = st.loc
        st = st.fork()
        st.loc = dict(args)
        st.loc.update({k: v for k, v in saved.items() if k.startswith("$")})  # thread-global ghost locals
        out = []
        for s, ex in self.block(st, fr, fi.node.body):
            ghosts = {k: v for k, v in s.loc.items() if k.startswith("$")}
            s.loc = dict(saved)
            s.loc.update(ghosts)
            if ex.kind == Exit.RAISE:
                out.append((s, ex))
            elif ex.kind == Exit.RETURN:
                out.append((s, ex.val))
            elif ex.kind == Exit.NORMAL:
                out.append((s, NoneV()))
            else:
                raise Unsupported("break/continue escaping a function")
        return out

    def call_closure(self, st, fr, f: FuncV, pos, kws) -> List[Tuple[St, object]]:
        node = f.node
        if isinstance(node, ast.Lambda):
            raise Unsupported("lambda call")
        dfr = Frame(None, fr.module, fr.selfv, fr.depth + 1, node=node, env=f.env, qual=fr.qual + "." + node.name)
        args = self.bind_args(st, node, pos, kws, False, dfr)
        if isinstance(node, ast.AsyncFunctionDef):
            return [(st, CoroV("closure", f, args))]
        return self.run_closure(st, fr, f, args)

    def run_closure(self, st, fr, f: FuncV, args) -> List[Tuple[St, object]]:
        node = f.node
        dfr = Frame(None, fr.module, fr.selfv, fr.depth + 1, node=node, env=f.env, qual=fr.qual + "." + node.name, parent=fr)
        saved = st.loc
        st = st.fork()
        st.loc = dict(args)
        st.loc.update({k: v for k, v in saved.items() if k.startswith("$")})
        out = []
        for s, ex in self.block(st, dfr, node.body):
            ghosts = {k: v for k, v in s.loc.items() if k.startswith("$")}
            s.loc = dict(saved)
            s.loc.update(ghosts)
            if ex.kind == Exit.RAISE:
                out.append((s, ex))
            elif ex.kind == Exit.RETURN:
                out.append((s, ex.val))
            else:
                out.append((s, NoneV()))
        return out

    def construct(self, st, fr, c: ClassV, pos, kws, node) -> List[Tuple[St, object]]:
        if c.name in self.repo.exc:
            return [(st, ExcV(c.name, pos))]
        if c.name == "TaskGroupRegister":
            # real __init__: self._ids = set(task_ids); self._lock = Lock()   (checked structurally by the theory)
            if pos:
                raise Unsupported("TaskGroupRegister(*ids)")
            return [(st, ObjV("TaskGroupRegister", {"_ids": SetV.empty(IntL()), "_lock": LockV(False)}))]
        return self.theory.construct(st, fr, c, pos, kws, node)

    # ======================================================================================================
    # statements: block -> list of (st, Exit)
    # ======================================================================================================
    def block(self, st: St, fr: Frame, stmts: List[ast.stmt]) -> List[Tuple[St, Exit]]:
        cur = [(st, NORMAL)]
        for stmt in stmts:
            nxt = []
            for s, ex in cur:
                if ex.kind != Exit.NORMAL:
                    nxt.append((s, ex))
                else:
                    nxt.extend(self.stmt(s, fr, stmt))
            cur = nxt
        return cur

    def stmt(self, st, fr, n: ast.stmt) -> List[Tuple[St, Exit]]:
        self.stmt_count += 1
        m = getattr(self, "st_" + type(n).__name__, None)
        if m is None:
            raise Unsupported(f"statement {type(n).__name__} in {fr.qual}")
        self.seen_constructs.add(type(n).__name__)
        return m(st, fr, n)

    @staticmethod
    def _exits(res, cont):
        """res: list of (st, V|Exit). raise -> propagate; value -> cont(st, v) -> list of (st, Exit)"""
        out = []
        for s, v in res:
            if isinstance(v, Exit):
                out.append((s, v))
            else:
                out.extend(cont(s, v))
        return out

    def st_Pass(self, st, fr, n):
        return [(st, NORMAL)]

    def st_Expr(self, st, fr, n):
        v = n.value
        if isinstance(v, ast.Constant):
            return [(st, NORMAL)]  # docstring (dropped)
        if isinstance(v, ast.Call) and isinstance(v.func, ast.Attribute) and isinstance(v.func.value, ast.Name) and v.func.value.id == "log":
            # logger call: the call itself is dropped (assumed effect-free), but its *arguments* are evaluated eagerly by
            # Python and may raise - they are executed like any other expression
            exprs = list(v.args) + [k.value for k in v.keywords]
            return self._exits(self.ev_seq(st, fr, exprs), lambda s, _vs: [(s, NORMAL)])
        if isinstance(v, ast.Call) and isinstance(v.func, ast.Attribute) and isinstance(v.func.value, ast.Name) and v.func.value.id == "warnings":
            return [(st, NORMAL)]
        return self._exits(self.ev(st, fr, v), lambda s, _v: [(s, NORMAL)])

    def st_Return(self, st, fr, n):
        if n.value is None:
            return [(st, Exit(Exit.RETURN, NoneV()))]
        return self._exits(self.ev(st, fr, n.value), lambda s, v: [(s, Exit(Exit.RETURN, v))])

    def st_Raise(self, st, fr, n):
        if n.exc is None:
            cur = st.aux.get("handling")
            if cur is None:
                raise Unsupported("bare raise outside handler")
            return [(st, Exit(Exit.RAISE, cur))]

        def cont(s, v):
            if isinstance(v, ClassV):
                v = ExcV(v.name, [])
            if isinstance(v, RefV):
                out = []
                for cond, exc in self.theory.raise_opaque(s, fr, v):
                    for s2, b in self.branch(s, cond, "raise-kind"):
                        if b:
                            out.append((s2, Exit(Exit.RAISE, exc)))
                return out
            if not isinstance(v, ExcV):
                raise Unsupported("raise of non-exception value")
            return [(s, Exit(Exit.RAISE, v))]

        return self._exits(self.ev(st, fr, n.exc), cont)

    def st_Break(self, st, fr, n):
        return [(st, Exit(Exit.BREAK))]

    def st_Continue(self, st, fr, n):
        return [(st, Exit(Exit.CONTINUE))]

    def st_AnnAssign(self, st, fr, n):
        if n.value is None:
            return [(st, NORMAL)]
        fr.hint = n.target.id if isinstance(n.target, ast.Name) else None
        return self._exits(self.ev(st, fr, n.value), lambda s, v: self.assign(s, fr, n.target, v))

    def st_Assign(self, st, fr, n):
        # pairwise evaluation of `a, b = x, y` so that each display knows the name it is bound to (typing hint)
        if (len(n.targets) == 1 and isinstance(n.targets[0], ast.Tuple) and isinstance(n.value, ast.Tuple)
                and len(n.targets[0].elts) == len(n.value.elts) and all(isinstance(t, ast.Name) for t in n.targets[0].elts)):
            cur = [(st, NORMAL)]
            for t, ve in zip(n.targets[0].elts, n.value.elts):
                nxt = []
                for s, ex in cur:
                    if ex.kind != Exit.NORMAL:
                        nxt.append((s, ex))
                        continue
                    fr.hint = t.id
                    res = self.ev(s, fr, ve)
                    fr.hint = None
                    nxt.extend(self._exits(res, lambda s2, v, t=t: self.assign(s2, fr, t, v)))
                cur = nxt
            return cur
        fr.hint = n.targets[0].id if len(n.targets) == 1 and isinstance(n.targets[0], ast.Name) else None

        def cont(s, v):
            cur = [(s, NORMAL)]
            for t in n.targets:
                nxt = []
                for s2, ex in cur:
                    nxt.extend(self.assign(s2, fr, t, v) if ex.kind == Exit.NORMAL else [(s2, ex)])
                cur = nxt
            return cur

        return self._exits(self.ev(st, fr, n.value), cont)

    def assign(self, st, fr, target, v: V) -> List[Tuple[St, Exit]]:
        if isinstance(target, ast.Name):
            if fr.env is not None and target.id in fr.env and target.id not in st.loc:
                raise Unsupported("assignment to captured variable")
            st.loc[target.id] = v
            return [(st, NORMAL)]
        if isinstance(target, (ast.Tuple, ast.List)):
            v = self.deref(st, v)
            if isinstance(v, TupleV) and len(v.items) == len(target.elts):
                cur = [(st, NORMAL)]
                for t, item in zip(target.elts, v.items):
                    nxt = []
                    for s, ex in cur:
                        nxt.extend(self.assign(s, fr, t, item))
                    cur = nxt
                return cur
            return self.theory.unpack_assign(st, fr, target, v)
        if isinstance(target, ast.Attribute):
            def cont(s, obj):
                return self.setattr(s, fr, obj, target.attr, v)

            return self._exits(self.ev(st, fr, target.value), cont)
        if isinstance(target, ast.Subscript):
            def cont2(s, vs):
                return self.setitem(s, fr, vs[0], vs[1], v)

            if isinstance(target.value, ast.Name) and target.value.id in st.loc and self.is_mutable(st.loc[target.value.id]):
                return self._exits(self.ev(st, fr, target.slice), lambda s, k: self.setitem(s, fr, PlaceV(("loc", target.value.id)), k, v))

            return self._exits(self.ev_seq(st, fr, [target.value, target.slice]), cont2)
        raise Unsupported("assignment target")

    def setattr(self, st, fr, obj: V, attr: str, v: V) -> List[Tuple[St, Exit]]:
        v = self.deref_for_store(st, v)
        if isinstance(obj, SelfV):
            ps = self.repo.find_prop(obj.cls, attr, setter=True)
            if ps is not None:
                res = self.run_repo(st, fr, ps, obj, self.bind_args(st, ps.node, [v], {}, True, fr), awaited=False)
                return [(s, x if isinstance(x, Exit) else NORMAL) for s, x in res]
            if self.theory.may_set_field(st, fr, obj, attr):
                st.sh[attr] = self.theory.coerce_field(st, attr, st.sh[attr], v)
                return [(st, NORMAL)]
            raise Unsupported(f"write to undeclared attribute self.{attr}")
        if isinstance(obj, PlaceV):
            inner = self.place_get(st, obj)
            if isinstance(inner, SemV) and attr == "_value":
                return self.theory.sem_set_value(st, fr, obj, inner, v)
            if isinstance(inner, ObjV):
                self.place_set(st, obj, inner.with_field(attr, v))
                return [(st, NORMAL)]
        return self.theory.setattr(st, fr, obj, attr, v)

    def deref_for_store(self, st, v: V) -> V:
        return self.place_get(st, v) if isinstance(v, PlaceV) else v

    def setitem(self, st, fr, cont: V, key: V, v: V) -> List[Tuple[St, Exit]]:
        if not isinstance(cont, PlaceV):
            return self.theory.setitem(st, fr, cont, key, v)
        c = self.place_get(st, cont)
        v = self.deref_for_store(st, v)
        if isinstance(c, DictV):
            hook = getattr(self.theory, "on_setitem", None)
            if hook is not None:
                hook(st, fr, cont, self.key_term(c, key), v)
            self.place_set(st, cont, c.store(self.key_term(c, key), v))
            return [(st, NORMAL)]
        return self.theory.setitem(st, fr, cont, key, v)

    def st_AugAssign(self, st, fr, n):
        def cont(s, vs):
            cur, inc = vs
            res = self.binop(s, n.op, self.deref(s, cur), self.deref(s, inc))
            return self.assign(s, fr, n.target, res)

        load = ast.copy_location(_as_load(n.target), n.target)
        return self._exits(self.ev_seq(st, fr, [load, n.value]), cont)

    def st_Delete(self, st, fr, n):
        cur = [(st, NORMAL)]
        for t in n.targets:
            if not isinstance(t, ast.Subscript):
                raise Unsupported("del of non-subscript")
            nxt = []
            for s, ex in cur:
                if ex.kind != Exit.NORMAL:
                    nxt.append((s, ex))
                    continue

                def cont(s2, vs):
                    cont_v, key = vs
                    c = self.deref(s2, cont_v)
                    if not (isinstance(c, DictV) and isinstance(cont_v, PlaceV)):
                        raise Unsupported("del on non-dict")
                    k = self.key_term(c, key)
                    out = []
                    for s3, b in self.branch(s2, c.has(k), "del"):
                        if b:
                            self.place_set(s3, cont_v, self.place_get(s3, cont_v).remove(k))
                            out.append((s3, NORMAL))
                        else:
                            out.append((s3, Exit(Exit.RAISE, ExcV("KeyError", [key]))))
                    return out

                nxt.extend(self._exits(self.ev_seq(s, fr, [t.value, t.slice]), cont))
            cur = nxt
        return cur

    def st_If(self, st, fr, n):
        def cont(s, c):
            out = []
            for s2, b in self.branch(s, truthy(self.deref(s, c)), "if"):
                out.extend(self.block(s2, fr, n.body if b else n.orelse))
            return out

        return self._exits(self.ev(st, fr, n.test), cont)

    def st_FunctionDef(self, st, fr, n):
        st.loc[n.name] = FuncV(node=n, env=st.loc, name=n.name)
        return [(st, NORMAL)]

    st_AsyncFunctionDef = st_FunctionDef

    def st_ClassDef(self, st, fr, n):
        return self.theory.classdef(st, fr, n)

    def st_Nonlocal(self, st, fr, n):
        """`nonlocal x`: the units that execute a nested function body directly bind its free variables as locals"""
        return [(st, NORMAL)]

    def st_Import(self, st, fr, n):
        return [(st, NORMAL)]

    st_ImportFrom = st_Import

    def st_Try(self, st, fr, n: ast.Try):
        out = []
        for s, ex in self.block(st, fr, n.body):
            res: List[Tuple[St, Exit]]
            if ex.kind == Exit.RAISE:
                res = self._handle(s, fr, n, ex)
            elif ex.kind == Exit.NORMAL and n.orelse:
                res = self.block(s, fr, n.orelse)
            else:
                res = [(s, ex)]
            if not n.finalbody:
                out.extend(res)
                continue
            for s2, ex2 in res:
                for s3, ex3 in self.block(s2, fr, n.finalbody):
                    out.append((s3, ex2 if ex3.kind == Exit.NORMAL else ex3))
        return out

    def _handle(self, s, fr, n: ast.Try, ex: Exit) -> List[Tuple[St, Exit]]:
        exc: ExcV = ex.val
        for h in n.handlers:
            names = []
            if h.type is None:
                names = ["BaseException"]
            elif isinstance(h.type, ast.Tuple):
                names = [_name_of(x) for x in h.type.elts]
            else:
                names = [_name_of(h.type)]
            if any(self.repo.is_subclass_exc(exc.cls, nm) for nm in names):
                if h.name:
                    s.loc[h.name] = exc
                prev = s.aux.get("handling")
                s.aux["handling"] = exc
                res = self.block(s, fr, h.body)
                for s2, _ in res:
                    s2.aux["handling"] = prev
                return res
        return [(s, ex)]

    def st_With(self, st, fr, n: ast.With):
        if len(n.items) != 1:
            raise Unsupported("multi-item with")
        ce = n.items[0].context_expr
        if isinstance(ce, ast.Call) and isinstance(ce.func, ast.Name) and ce.func.id == "suppress":
            names = [_name_of(a) for a in ce.args]
            out = []
            for s, ex in self.block(st, fr, n.body):
                if ex.kind == Exit.RAISE and any(self.repo.is_subclass_exc(ex.val.cls, nm) for nm in names):
                    s.tags.append("suppressed:" + ex.val.cls)
                    s.aux["suppressed"] = s.aux.get("suppressed", ()) + (ex.val.cls,)
                    out.append((s, NORMAL))
                else:
                    out.append((s, ex))
            return out
        raise Unsupported("with statement other than suppress(...)")

    def st_AsyncWith(self, st, fr, n: ast.AsyncWith):
        if len(n.items) != 1:
            raise Unsupported("multi-item async with")
        item = n.items[0]

        def cont(s, mgr):
            return self.theory.async_with(s, fr, mgr, item.optional_vars, n.body, n)

        return self._exits(self.ev(st, fr, item.context_expr), cont)

    def st_While(self, st, fr, n: ast.While):
        return self.theory.loop(st, fr, n, fr.ordinal(n))

    def st_For(self, st, fr, n: ast.For):
        return self.theory.loop(st, fr, n, fr.ordinal(n))

    def st_Assert(self, st, fr, n):
        raise Unsupported("assert statement")


def _as_load(t):
    import copy

    t2 = copy.deepcopy(t)
    for x in ast.walk(t2):
        if hasattr(x, "ctx"):
            x.ctx = ast.Load()
    return t2


def _name_of(e) -> str:
    if isinstance(e, ast.Name):
        return e.id
    if isinstance(e, ast.Attribute):
        return e.attr
    raise Unsupported("exception class expression")


def _has_quant(t) -> bool:
    from .quant import _has_quant as hq

    return hq(t)
