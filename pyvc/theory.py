"""Generic part of the theory: loops cut by invariants, comprehensions over symbolic sequences,
builtins on containers, havoc.  Domain-specific theories (spec/) subclass `Theory`."""
from __future__ import annotations

import ast
from typing import Callable, Dict, List, Optional, Tuple

import z3

from .interp import NORMAL, CollV, ExcV, Exit, Frame, Interp, LoopSpec, SelfV, St
from .sym import (B, I, NONE, S, BoolV, BuiltinV, BytesV, ClassV, CoroV, DictV, EventV, ExtV, FuncV, GenV, IntL, IntV, KwV, LockV,
                  NoneV, ObjV, OptV, PlaceV, Ref, RefL, RefV, SemV, SeqV, SetV, StarV, StrL, StrV, TupleV, Unsupported, V, fresh,
                  truthy)


class Iter:
    """abstract finite iteration: count + item(i)"""

    def __init__(self, count, item: Callable, facts=(), desc=""):
        self.count, self.item, self.facts, self.desc = count, item, list(facts), desc


class LoopCtx:
    def __init__(self, st0: St, st: St, i, it: Optional[Iter], fr: Frame):
        self.st0, self.st, self.i, self.it, self.fr = st0, st, i, it, fr

    def _resolve(self, st: St, name: str) -> V:
        if name in st.loc:
            return st.loc[name]
        fi = getattr(self.fr, "finfo", None) if self.fr is not None else None
        if fi is not None:
            from .front import alias_of2

            r = alias_of2(fi, name)
            if r is not None and r[0] in st.loc:
                if not r[1]:
                    # a guessed correspondence (restructured function): never trust a counter-model obtained with it
                    for s_ in (self.st, self.st0):
                        s_.aux["nonfragment"] = f"heuristic alias {name}->{r[0]}"
                return st.loc[r[0]]
        # never a crash: a renamed / restructured local that the invariant needs makes the unit undecided
        raise Unsupported(f"the loop invariant of {getattr(fi, 'qualname', '?')} refers to the local `{name}`, which does not exist any more")

    def loc(self, name: str) -> V:
        return self._resolve(self.st, name)

    def loc0(self, name: str) -> V:
        return self._resolve(self.st0, name)


def havoc_like(v: V, prefix: str) -> V:
    if isinstance(v, IntV):
        return IntV(fresh(prefix, I))
    if isinstance(v, BoolV):
        return BoolV(fresh(prefix, B))
    if isinstance(v, StrV):
        return StrV(fresh(prefix, S))
    if isinstance(v, RefV):
        return RefV(fresh(prefix, Ref))
    if isinstance(v, NoneV):
        return v
    if isinstance(v, OptV):
        return OptV(fresh(prefix + "_none", B), havoc_like(v.inner, prefix))
    if isinstance(v, ExtV):
        return ExtV(fresh(prefix + "_inf", B), fresh(prefix + "_k", I))
    if isinstance(v, SetV):
        return SetV.symbolic(prefix, v.layout)
    if isinstance(v, DictV):
        return DictV.symbolic(prefix, v.ksort, v.layout, ordered=v.stamp is not None)
    if isinstance(v, SeqV):
        return SeqV(fresh(prefix + "_n", I), [fresh(prefix + "_a", a.sort()) for a in v.arrs], v.layout, v.mutable)
    if isinstance(v, LockV):
        return LockV(fresh(prefix + "_lk", B))
    if isinstance(v, EventV):
        return EventV(fresh(prefix + "_ev", B))
    if isinstance(v, SemV):
        n = SemV(ExtV(fresh(prefix + "_vinf", B), fresh(prefix + "_v", I)), fresh(prefix + "_g", I), fresh(prefix + "_P", I), fresh(prefix + "_out", I), v.ident)
        n.tokarr = getattr(v, "tokarr", "tok")
        return n
    if isinstance(v, ObjV):
        return ObjV(v.cls, {k: havoc_like(x, prefix + "_" + k) for k, x in v.fields.items()})
    if isinstance(v, ArrV):
        return ArrV(fresh(prefix, v.t.sort()))
    if isinstance(v, (TupleV, KwV, FuncV, BuiltinV, ClassV, CoroV, ExcV, BytesV, CollV, PlaceV, SelfV, GenV)):
        return v
    if hasattr(v, "havoc"):
        return v.havoc(prefix)
    raise Unsupported(f"havoc of {type(v).__name__}")


class ArrV(V):
    """ghost array (thread-indexed ghost state)"""

    def __init__(self, t):
        self.t = t


def terms_of(v: V) -> List:
    if isinstance(v, (IntV, BoolV, StrV, RefV, ArrV)):
        return [v.t]
    if isinstance(v, OptV):
        return [v.isnone] + terms_of(v.inner)
    if isinstance(v, ExtV):
        return [v.inf, v.k]
    if isinstance(v, SetV):
        return [v.mem, v.card]
    if isinstance(v, DictV):
        return [v.mem, v.card] + list(v.cols) + ([v.stamp, v.nstamp] if v.stamp is not None else [])
    if isinstance(v, SeqV):
        return [v.n] + list(v.arrs)
    if isinstance(v, LockV):
        return [v.locked]
    if isinstance(v, EventV):
        return [v.is_set]
    if isinstance(v, SemV):
        return [v.v.inf, v.v.k, v.g, v.P, v.out]
    if isinstance(v, ObjV):
        out = []
        for k in sorted(v.fields):
            out += terms_of(v.fields[k])
        return out
    if hasattr(v, "terms"):
        return v.terms()
    return []


def same_value(a: V, b: V) -> bool:
    """syntactic identity of two symbolic values (used for frame / write discovery)"""
    if type(a) is not type(b):
        return False
    ta, tb = terms_of(a), terms_of(b)
    if len(ta) != len(tb):
        return False
    if not ta:
        return a is b or isinstance(a, NoneV)
    return all(z3.eq(x, y) for x, y in zip(ta, tb))


def eq_value(a: V, b: V):
    """semantic equality of two values of the same shape as a z3 formula"""
    ta, tb = terms_of(a), terms_of(b)
    if len(ta) != len(tb):
        raise Unsupported("eq_value on different shapes")
    if isinstance(a, ExtV):
        return a.same(b)
    if isinstance(a, SemV):
        return z3.And(a.v.same(b.v), a.g == b.g, a.P == b.P, a.out == b.out)
    if isinstance(a, OptV):
        return z3.And(a.isnone == b.isnone, z3.Or(a.isnone, eq_value(a.inner, b.inner)))
    return z3.And([x == y for x, y in zip(ta, tb)]) if ta else z3.BoolVal(True)


class Theory:
    ip: Interp

    # --- defaults: everything unknown is outside the subset --------------------------------------------
    def _no(self, what):
        raise Unsupported(what)

    def to_str(self, st, fr, v):
        self._no(f"str() of {type(v).__name__}")

    def binop(self, st, op, a, b):
        self._no(f"binary op on {type(a).__name__},{type(b).__name__}")

    def equal(self, st, a, b, identity):
        if isinstance(a, ClassV) and isinstance(b, ClassV):
            return z3.BoolVal(a.name == b.name)
        if isinstance(a, BoolV) and isinstance(b, IntV) or isinstance(a, IntV) and isinstance(b, BoolV):
            self._no("bool/int comparison")
        self._no(f"equality of {type(a).__name__},{type(b).__name__}")

    def contains(self, st, fr, c, item):
        self._no(f"`in` on {type(c).__name__}")

    def self_attr(self, st, fr, v, attr):
        self._no(f"undeclared attribute self.{attr} of {v.cls}")

    def class_name(self, st, c: ClassV):
        return StrV(c.name)

    def value_attr(self, st, fr, v, attr):
        self._no(f"attribute .{attr} of {type(v).__name__}")

    def subscript(self, st, fr, c, key):
        if isinstance(c, BuiltinV):
            return [(st, c)]  # a typing expression such as Awaitable[_R] (argument of cast)
        self._no(f"subscript of {type(c).__name__}")

    def do_await(self, st, fr, v, node):
        self._no(f"await of {type(v).__name__}")

    def call_ref(self, st, fr, f, pos, kws, rest_kw, node):
        self._no("call of an opaque object")

    def call_builtin(self, st, fr, f, pos, kws, rest_kw, node):
        self._no(f"builtin {f.name}()")

    def construct(self, st, fr, c, pos, kws, node):
        self._no(f"constructor {c.name}")

    def unpack_assign(self, st, fr, target, v):
        self._no("tuple unpacking of a symbolic value")

    def may_set_field(self, st, fr, obj, attr) -> bool:
        return attr in st.sh

    def coerce_field(self, st, attr, old: V, new: V) -> V:
        """`self.x = {}` / `set()` / int-or-float: keep the declared shape of the field"""
        if isinstance(old, DictV) and isinstance(new, KwV) and not new.d:
            return DictV.empty(old.ksort, old.layout, ordered=old.stamp is not None)
        if isinstance(old, SetV) and isinstance(new, SetV):
            return SetV(new.mem, new.card, old.layout) if True else new
        if isinstance(old, OptV) and isinstance(new, NoneV):
            return OptV(z3.BoolVal(True), old.inner)
        if isinstance(old, OptV) and isinstance(new, type(old.inner)):
            return OptV(z3.BoolVal(False), new)
        if isinstance(old, RefV) and isinstance(new, NoneV):
            return RefV(NONE)
        if type(old) is not type(new):
            raise Unsupported(f"field {attr}: assigned {type(new).__name__}, declared {type(old).__name__}")
        return new

    def sem_set_value(self, st, fr, place, sem, v):
        self._no("write to Semaphore._value")

    def setattr(self, st, fr, obj, attr, v):
        self._no(f"attribute write .{attr}")

    def setitem(self, st, fr, cont, key, v):
        self._no("item assignment")

    def raise_opaque(self, st, fr, v):
        self._no("raise of an opaque object")

    def empty_dict(self, st, fr, hint):
        return [(st, KwV({}))]

    def empty_list(self, st, fr, hint):
        return [(st, SeqV(0, [fresh("lst", z3.ArraySort(I, I))], IntL(), mutable=True))]

    def on_loop_iteration(self, st, fr, lname, i) -> None:
        pass

    def classdef(self, st, fr, n):
        self._no("nested class definition")

    def ev_dict_display(self, st, fr, e):
        self._no("dict display")

    def async_with(self, st, fr, mgr, optional_vars, body, node):
        self._no("async with")

    # --- loops ---------------------------------------------------------------------------------------------
    def iter_of(self, st: St, fr: Frame, v: V, node) -> Optional[Iter]:
        ip = self.ip
        v = ip.deref(st, v)
        if isinstance(v, SeqV):
            return Iter(v.n, v.at, [v.n >= 0], "seq")
        if isinstance(v, IterV):
            return v.it
        if isinstance(v, (SetV, DictV)):
            return self.key_iter(v, reverse=False)
        if isinstance(v, ObjV):
            fi = ip.repo.find_method(v.cls, "__iter__")
            if fi is not None:
                res = ip.call_repo(st, fr, fi, v if not isinstance(v, PlaceV) else v, [], {})
                if len(res) == 1 and isinstance(res[0][1], IterV):
                    return res[0][1].it
        return None

    def key_iter(self, c: V, reverse: bool) -> Iter:
        """iteration over the keys of a dict / members of a set: a duplicate-free enumeration of the
        members (trusted ADT fact); dicts with stamps: in (reverse) insertion order"""
        if isinstance(c, DictV):
            ks, lay, mem, card = c.ksort, None, c.mem, c.card
        else:
            (ks,) = c.layout.sorts()
            mem, card = c.mem, c.card
        seq = fresh("keys", z3.ArraySort(I, ks))
        pos = fresh("keypos", z3.ArraySort(ks, I))
        j, j2 = z3.Int("j!it"), z3.Int("j2!it")
        k = z3.Const("k!it", ks)
        facts = [
            card >= 0,
            z3.ForAll([j], z3.Implies(z3.And(0 <= j, j < card), z3.And(z3.Select(mem, z3.Select(seq, j)), z3.Select(pos, z3.Select(seq, j)) == j))),
            z3.ForAll([k], z3.Implies(z3.Select(mem, k), z3.And(0 <= z3.Select(pos, k), z3.Select(pos, k) < card, z3.Select(seq, z3.Select(pos, k)) == k))),
        ]
        if isinstance(c, DictV) and c.stamp is not None:
            a, b = z3.Select(seq, j), z3.Select(seq, j2)
            lt = z3.Select(c.stamp, a) > z3.Select(c.stamp, b) if reverse else z3.Select(c.stamp, a) < z3.Select(c.stamp, b)
            facts.append(z3.ForAll([j, j2], z3.Implies(z3.And(0 <= j, j < j2, j2 < card), lt)))
        elif reverse:
            raise Unsupported("reversed() of an unordered container")

        def item(i):
            t = z3.Select(seq, i)
            if isinstance(c, DictV):
                return IntV(t) if ks == I else (StrV(t) if ks == S else RefV(t))
            return c.layout.unpack([t])

        it = Iter(card, item, facts, "keys")
        it.seq = seq
        it.pos = pos
        return it

    def assigned_names(self, stmts) -> List[str]:
        out = []
        for s in stmts:
            for n in ast.walk(s):
                if isinstance(n, ast.Name) and isinstance(n.ctx, ast.Store):
                    out.append(n.id)
                # `d[k] = v`, `del d[k]`, `d[k] += v`, `obj.f = v` on a local container / object also modify that local
                if isinstance(n, (ast.Subscript, ast.Attribute)) and isinstance(n.ctx, (ast.Store, ast.Del)):
                    base = n.value
                    while isinstance(base, (ast.Subscript, ast.Attribute)):
                        base = base.value
                    if isinstance(base, ast.Name) and base.id != "self":
                        out.append(base.id)
                if isinstance(n, ast.ExceptHandler) and n.name:
                    out.append(n.name)
        return sorted(set(out))

    def method_mutated_locals(self, st: St, stmts) -> List[str]:
        out = []
        for s in stmts:
            for n in ast.walk(s):
                if isinstance(n, ast.Call) and isinstance(n.func, ast.Attribute) and isinstance(n.func.value, ast.Name):
                    nm = n.func.value.id
                    if nm in st.loc and Interp.is_mutable(st.loc[nm]):
                        out.append(nm)
        return sorted(set(out))

    def shared_keys(self, st: St) -> List[str]:
        return list(st.sh)

    def havoc_shared(self, st: St, keys, prefix: str) -> None:
        for k in keys:
            st.sh[k] = havoc_like(st.sh[k], f"{prefix}_{k}")

    def container_facts(self, st: St) -> None:
        """re-assume the trusted ADT facts for every container currently in the state"""
        for v in list(st.sh.values()) + list(st.loc.values()):
            self._facts(st, v)

    def _facts(self, st: St, v: V) -> None:
        if isinstance(v, (SetV, DictV)):
            for f in v.qfacts():
                st.assume(f)
        elif isinstance(v, SeqV):
            st.assume(v.n >= 0)
        elif isinstance(v, ObjV):
            for x in v.fields.values():
                self._facts(st, x)

    def loop(self, st: St, fr: Frame, node, ordinal: int) -> List[Tuple[St, Exit]]:
        ip = self.ip
        is_for = isinstance(node, ast.For)
        if node.orelse:
            raise Unsupported("loop else")
        if is_for:
            out = []
            for s, itv in ip.ev(st, fr, node.iter):
                if isinstance(itv, Exit):
                    out.append((s, itv))
                    continue
                out.extend(self._for(s, fr, node, ordinal, itv))
            return out
        return self._cut_loop(st, fr, node, ordinal, None)

    def _for(self, st, fr, node, ordinal, itv: V) -> List[Tuple[St, Exit]]:
        ip = self.ip
        d = ip.deref(st, itv)
        if isinstance(d, TupleV):  # concrete length: unroll
            cur = [(st, NORMAL)]
            for item in d.items:
                nxt = []
                for s, ex in cur:
                    if ex.kind != Exit.NORMAL:
                        nxt.append((s, ex))
                        continue
                    for s2, ex2 in self._exits_assign(s, fr, node.target, item):
                        if ex2.kind != Exit.NORMAL:
                            nxt.append((s2, ex2))
                            continue
                        for s3, ex3 in ip.block(s2, fr, node.body):
                            if ex3.kind in (Exit.NORMAL, Exit.CONTINUE):
                                nxt.append((s3, NORMAL))
                            elif ex3.kind == Exit.BREAK:
                                nxt.append((s3, Exit("loopdone")))
                            else:
                                nxt.append((s3, ex3))
                cur = nxt
            return [(s, NORMAL if ex.kind == "loopdone" else ex) for s, ex in cur]
        special = self.special_iter(st, fr, node, ordinal, d)
        if special is not None:
            return special
        if isinstance(d, OpaqueCollV):
            return self._scan_loop(st, fr, node, d)
        it = self.iter_of(st, fr, itv, node)
        if it is None:
            raise Unsupported(f"iteration over {type(d).__name__}")
        return self._cut_loop(st, fr, node, ordinal, it)

    def special_iter(self, st, fr, node, ordinal, d):
        return None

    def _scan_loop(self, st: St, fr: Frame, node, d: "OpaqueCollV") -> List[Tuple[St, Exit]]:
        """`for x in <opaque finite collection>: <body>` where the body either changes nothing or leaves the loop:
        the loop ends normally with nothing changed, or leaves at some element exactly as the body does for an
        arbitrary element (no invariant needed).  Anything else is outside the subset."""
        ip = self.ip
        probe = st.fork()
        elem = d.fresh_elem(probe)
        before_sh = dict(probe.sh)
        before_loc = dict(probe.loc)
        out: List[Tuple[St, Exit]] = []
        done = st.fork()
        done.tags.append("scan:no-element-leaves")
        out.append((done, NORMAL))
        for s1, ex1 in self._exits_assign(probe, fr, node.target, elem):
            if ex1.kind != Exit.NORMAL:
                raise Unsupported("scan loop: target assignment")
            tname = node.target.id if isinstance(node.target, ast.Name) else None
            for s2, ex in ip.block(s1, fr, node.body):
                if ex.kind in (Exit.NORMAL, Exit.CONTINUE):
                    for k in before_sh:
                        if not same_value(before_sh[k], s2.sh[k]):
                            raise Unsupported("scan loop: the body changes shared state")
                    for k, v0 in before_loc.items():
                        if k != tname and (k not in s2.loc or not (s2.loc[k] is v0 or same_value(v0, s2.loc[k]))):
                            raise Unsupported("scan loop: the body changes a local")
                    continue
                s2.tags.append("scan:element-leaves")
                out.append((s2, NORMAL if ex.kind == Exit.BREAK else ex))
        return out

    def _exits_assign(self, st, fr, target, v):
        return self.ip.assign(st, fr, target, v)

    def _cut_loop(self, st: St, fr: Frame, node, ordinal: int, it: Optional[Iter]) -> List[Tuple[St, Exit]]:
        ip = self.ip
        spec: Optional[LoopSpec] = self.find_loopspec(fr, node, ordinal)
        if spec is None:
            raise Unsupported(f"loop #{ordinal} of {fr.qual} has no invariant in the spec")
        lname = spec.name or f"loop{ordinal}"
        is_for = isinstance(node, ast.For)
        st0 = st.fork()
        if it is not None:
            for f in it.facts:
                st.assume(f)
        # 1. which locals / shared components does the body write?  (dry run from a generic state)
        mod_locals = [n for n in self.assigned_names(node.body + ([node.target] if is_for else [])) if True]
        ghosts = [n for n in st.loc if n.startswith("$")]
        mod_locals = sorted(set(mod_locals) | set(self.method_mutated_locals(st, node.body)) | set(ghosts))
        mod_shared = self._discover_writes(st, fr, node, it, mod_locals)
        # ghost locals ($...) are updated by spec hooks, not by syntax: only those the dry run saw changing are havocked
        mod_locals = sorted((set(mod_locals) - set(ghosts)) | set(self._ghosts_written))

        def mk_generic(base: St, tag: str) -> Tuple[St, object]:
            s = base.fork()
            for n in mod_locals:
                if n in s.loc:
                    s.loc[n] = havoc_like(s.loc[n], f"{tag}_{n}")
            self.havoc_shared(s, mod_shared, tag)
            for n in mod_locals:
                if n in s.loc:
                    self._facts(s, s.loc[n])
            for k in mod_shared:
                self._facts(s, s.sh[k])
            self.after_loop_havoc(s, st0, mod_shared)
            i = fresh("i", I)
            s.assume(i >= 0)
            return s, i

        # 2. invariant on entry
        self.loop_head_check(st, f"{lname}:entry")
        for label, f in spec.inv(LoopCtx(st0, st, z3.IntVal(0), it, fr)):
            ip.require(st, f"loopinv-entry:{lname}:{label}", f, spec.props or None)
        # 3. arbitrary iteration
        s, i = mk_generic(st, f"L{ordinal}")
        for _label, f in spec.inv(LoopCtx(st0, s, i, it, fr)):
            s.assume(f)
        out: List[Tuple[St, Exit]] = []
        exits_after: List[St] = []

        def run_body(sb: St):
            fr_loop_no = fr.loop_no
            v0 = None
            if spec.variant is not None:
                # termination: an integer measure that is bounded below whenever the body is entered and strictly
                # decreases on every path that comes back to the loop head
                v0 = spec.variant(LoopCtx(st0, sb, i, it, fr))
                ip.require(sb, f"loopvariant:{lname}:bounded-below-when-the-body-is-entered", v0 >= 0, spec.props or None)
            res = ip.block(sb, fr, node.body)
            fr.loop_no = fr_loop_no
            for s2, ex in res:
                if ex.kind in (Exit.NORMAL, Exit.CONTINUE):
                    self.loop_head_check(s2, f"{lname}:step")
                    for label, f in spec.inv(LoopCtx(st0, s2, i + 1, it, fr)):
                        ip.require(s2, f"loopinv-step:{lname}:{label}", f, spec.props or None)
                    if spec.variant is not None:
                        ip.require(s2, f"loopvariant:{lname}:strictly-decreases(termination)", spec.variant(LoopCtx(st0, s2, i + 1, it, fr)) < v0, spec.props or None)
                elif ex.kind == Exit.BREAK:
                    exits_after.append(s2)
                else:
                    out.append((s2, ex))

        if is_for:
            sb = s.fork()
            sb.assume(i < it.count)
            sb.tags.append(f"{lname}:iter")
            if ip.feasible(sb):
                for s2, ex2 in self._exits_assign(sb, fr, node.target, it.item(i)):
                    if ex2.kind != Exit.NORMAL:
                        out.append((s2, ex2))
                    else:
                        self.on_loop_iteration(s2, fr, lname, i)
                        run_body(s2)
            se = s.fork()
            se.assume(i == it.count)
            se.tags.append(f"{lname}:done")
            if ip.feasible(se):
                exits_after.append(se)
        else:
            for s1, c in ip.ev(s, fr, node.test):
                if isinstance(c, Exit):
                    out.append((s1, c))
                    continue
                for s2, b in ip.branch(s1, truthy(ip.deref(s1, c)), lname):
                    if b:
                        run_body(s2)
                    else:
                        exits_after.append(s2)
        for se in exits_after:
            out.append((se, NORMAL))
        return out

    def find_loopspec(self, fr: Frame, node, ordinal: int) -> Optional[LoopSpec]:
        """loop invariants are anchored structurally: by the source text of what is iterated / tested when the spec
        gives one (so that an inserted or removed loop elsewhere in the function does not shift the anchor), else by
        the loop's ordinal in the function"""
        ip = self.ip
        text = ast.unparse(node.iter if isinstance(node, ast.For) else node.test)
        same_fn = [(k, v) for k, v in ip.loopspecs.items() if k[0] == fr.qual]
        by_sig = [v for _k, v in same_fn if v.sig is not None and v.sig == text]
        if len(by_sig) == 1:
            return by_sig[0]
        spec = ip.loopspecs.get((fr.qual, ordinal))
        if spec is not None and (spec.sig is None or spec.sig == text or not by_sig):
            return spec
        return spec

    def after_loop_havoc(self, s: St, st0: St, mod_shared) -> None:
        pass

    def loop_head_check(self, st: St, label: str) -> None:
        pass

    def _discover_writes(self, st: St, fr: Frame, node, it, mod_locals) -> List[str]:
        ip = self.ip
        probe = st.fork()
        keys = self.shared_keys(probe)
        for n in mod_locals:
            if n in probe.loc:
                probe.loc[n] = havoc_like(probe.loc[n], f"probe_{n}")
        self.havoc_shared(probe, keys, "probe")
        before = dict(probe.sh)
        ghost_before = {n: v for n, v in probe.loc.items() if n.startswith("$")}
        self._ghosts_written = set()
        saved_collect, ip.collect = ip.collect, False
        saved_loop_no, saved_await = fr.loop_no, fr.await_no
        changed = set()
        try:
            starts = [probe]
            if isinstance(node, ast.For):
                i = fresh("ip", I)
                starts = [s for s, ex in self._exits_assign(probe, fr, node.target, it.item(i)) if ex.kind == Exit.NORMAL]
            else:
                starts = []
                for s1, c in ip.ev(probe, fr, node.test):
                    if not isinstance(c, Exit):
                        s1.assume(truthy(ip.deref(s1, c)))
                        starts.append(s1)
                    else:
                        for k in keys:
                            if not same_value(before[k], s1.sh[k]):
                                changed.add(k)
            for sp in starts:
                for s2, _ex in ip.block(sp, fr, node.body):
                    for k in keys:
                        if not same_value(before[k], s2.sh[k]):
                            changed.add(k)
                    for n, v0 in ghost_before.items():
                        if n not in s2.loc or not same_value(v0, s2.loc[n]):
                            self._ghosts_written.add(n)
        finally:
            ip.collect = saved_collect
            fr.loop_no, fr.await_no = saved_loop_no, saved_await
        return sorted(changed)


class OpaqueCollV(V):
    """a finite collection of opaque objects that can only be scanned (e.g. the list returned by gather)"""

    def __init__(self, desc: str, elem_fact=None):
        self.desc, self.elem_fact = desc, elem_fact

    def fresh_elem(self, st: St) -> V:
        r = fresh("scanned", Ref)
        if self.elem_fact is not None:
            st.assume(self.elem_fact(r))
        return RefV(r)


class IterV(V):
    def __init__(self, it: Iter):
        self.it = it
